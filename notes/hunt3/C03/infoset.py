#!/usr/bin/env python3
"""Print a canonical dump of the XML infoset (elements, sorted attrs, text, comments, PIs) of a file."""
import sys
from xml.dom import minidom, Node
def dump(n, out, d=0):
    p = '  ' * d
    if n.nodeType == Node.ELEMENT_NODE:
        attrs = sorted((a.name, a.value) for a in n.attributes.values())
        out.append(f"{p}ELEM {n.tagName} {attrs!r}")
        n.normalize()
        for c in n.childNodes: dump(c, out, d + 1)
    elif n.nodeType == Node.TEXT_NODE: out.append(f"{p}TEXT {n.data!r}")
    elif n.nodeType == Node.CDATA_SECTION_NODE: out.append(f"{p}CDATA {n.data!r}")
    elif n.nodeType == Node.COMMENT_NODE: out.append(f"{p}COMMENT {n.data!r}")
    elif n.nodeType == Node.PROCESSING_INSTRUCTION_NODE: out.append(f"{p}PI {n.target!r} {n.data!r}")
    elif n.nodeType == Node.DOCUMENT_TYPE_NODE: out.append(f"{p}DOCTYPE {n.name!r} {n.publicId!r} {n.systemId!r} {n.internalSubset!r}")
out = []
doc = minidom.parse(sys.argv[1])
for c in doc.childNodes: dump(c, out)
print("\n".join(out))
