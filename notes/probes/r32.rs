use vstd::prelude::*;
use vstd::std_specs::ops::*;
use std::ops::{Add, Sub, Mul, Div, Neg, AddAssign, SubAssign};
verus! {

#[verifier::external_body]
#[derive(Clone, Copy)]
pub struct R32 { v: f32 }

pub uninterp spec fn val(x: R32) -> real;
pub uninterp spec fn mk(x: real) -> R32;
pub axiom fn ax_val_inj() ensures forall|a: R32, b: R32| val(a) == val(b) ==> a == b;
pub broadcast axiom fn ax_mk(x: real) ensures #[trigger] val(mk(x)) == x;

impl AddSpecImpl<R32> for R32 {
    open spec fn obeys_add_spec() -> bool { true }
    open spec fn add_req(self, rhs: R32) -> bool { true }
    open spec fn add_spec(self, rhs: R32) -> R32 { mk(val(self) + val(rhs)) }
}
impl Add<R32> for R32 {
    type Output = R32;
    #[verifier::external_body]
    fn add(self, rhs: R32) -> R32 { R32 { v: self.v + rhs.v } }
}
impl SubSpecImpl<R32> for R32 {
    open spec fn obeys_sub_spec() -> bool { true }
    open spec fn sub_req(self, rhs: R32) -> bool { true }
    open spec fn sub_spec(self, rhs: R32) -> R32 { mk(val(self) - val(rhs)) }
}
impl Sub<R32> for R32 {
    type Output = R32;
    #[verifier::external_body]
    fn sub(self, rhs: R32) -> R32 { R32 { v: self.v - rhs.v } }
}
impl MulSpecImpl<R32> for R32 {
    open spec fn obeys_mul_spec() -> bool { true }
    open spec fn mul_req(self, rhs: R32) -> bool { true }
    open spec fn mul_spec(self, rhs: R32) -> R32 { mk(val(self) * val(rhs)) }
}
impl Mul<R32> for R32 {
    type Output = R32;
    #[verifier::external_body]
    fn mul(self, rhs: R32) -> R32 { R32 { v: self.v * rhs.v } }
}
impl NegSpecImpl for R32 {
    open spec fn obeys_neg_spec() -> bool { true }
    open spec fn neg_req(self) -> bool { true }
    open spec fn neg_spec(self) -> R32 { mk(0real - val(self)) }
}
impl Neg for R32 {
    type Output = R32;
    #[verifier::external_body]
    fn neg(self) -> R32 { R32 { v: -self.v } }
}

#[verifier::external_body]
pub fn lit_2_0() -> (r: R32) ensures val(r) == 2real { R32 { v: 2.0 } }

pub struct B { pub x1: R32, pub x2: R32 }

fn extent_sm(s: R32, m: R32) -> (r: (R32, R32))
    ensures val(r.0) == val(s), (val(r.0) + val(r.1)) / 2real == val(m)
{
    broadcast use ax_mk;
    (s, s + (m - s) * lit_2_0())
}
fn width(b: &B) -> (r: R32) ensures val(r) == val(b.x2) - val(b.x1) { broadcast use ax_mk; b.x2 - b.x1 }
fn negw(b: &B) -> (r: R32) ensures val(r) == val(b.x1) - val(b.x2) { broadcast use ax_mk; -(b.x2 - b.x1) }

} // verus!
fn main() {}
