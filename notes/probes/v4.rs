use vstd::prelude::*;
verus! {

#[verifier::external_body]
pub struct OutputList { _p: () }
#[verifier::external_body]
#[derive(Clone, Copy)]
pub struct BoundingBox { _p: () }
#[verifier::external_body]
pub struct ElRef { _p: () }

pub enum SvgdxError { DepthLimitExceeded(u32,u32), ReferenceError(ElRef), MessageError(String) }
pub type Result<T> = core::result::Result<T, SvgdxError>;

pub struct TransformConfig { pub depth_limit: u32 }

pub struct SvgElement { pub name: String, pub event_range: Option<(usize, usize)>, pub content_bbox: Option<BoundingBox> }

impl Clone for SvgElement {
    #[verifier::external_body]
    fn clone(&self) -> (r: Self) ensures r == *self { unimplemented!() }
}

pub struct TransformerContext { pub current_depth: u32, pub config: TransformConfig }

impl TransformerContext {
    pub fn inc_depth(&mut self) -> (r: Result<()>)
        requires old(self).current_depth < u32::MAX
        ensures
            final(self).config == old(self).config,
            r is Ok ==> final(self).current_depth == old(self).current_depth + 1,
            r is Err ==> final(self).current_depth == old(self).current_depth,
    {
        self.current_depth += 1;
        if self.current_depth > self.config.depth_limit {
            return Err(SvgdxError::DepthLimitExceeded(
                self.current_depth,
                self.config.depth_limit,
            ));
        }
        Ok(())
    }

    pub fn dec_depth(&mut self) -> (r: Result<()>)
        ensures
            final(self).config == old(self).config,
            old(self).current_depth > 0 ==> r is Ok && final(self).current_depth == old(self).current_depth - 1,
            old(self).current_depth == 0 ==> r is Err && final(self).current_depth == 0,
    {
        if self.current_depth > 0 {
            self.current_depth -= 1;
        } else {
            return Err(SvgdxError::MessageError("Depth must be positive".to_string()));
        }
        Ok(())
    }

    #[verifier::external_body]
    pub fn get_element(&self, elref: &ElRef) -> Option<&SvgElement> { unimplemented!() }
    #[verifier::external_body]
    pub fn get_element_bbox(&self, el: &SvgElement) -> Result<Option<BoundingBox>> { unimplemented!() }
    #[verifier::external_body]
    pub fn update_element(&mut self, el: &SvgElement)
       ensures final(self).current_depth == old(self).current_depth, final(self).config == old(self).config
    { unimplemented!() }
}

pub trait EventGen {
    fn generate_events(&self, context: &mut TransformerContext) -> (r: Result<(OutputList, Option<BoundingBox>)>)
        requires old(context).current_depth < u32::MAX
        ensures final(context).current_depth == old(context).current_depth,
                final(context).config == old(context).config;
}

pub struct LoopElement(pub SvgElement);
pub struct Container(pub SvgElement);
pub struct OtherElement(pub SvgElement);

impl EventGen for LoopElement {
    #[verifier::external_body]
    fn generate_events(&self, context: &mut TransformerContext) -> (r: Result<(OutputList, Option<BoundingBox>)>) { unimplemented!() }
}
impl EventGen for Container {
    #[verifier::external_body]
    fn generate_events(&self, context: &mut TransformerContext) -> (r: Result<(OutputList, Option<BoundingBox>)>) { unimplemented!() }
}
impl EventGen for OtherElement {
    #[verifier::external_body]
    fn generate_events(&self, context: &mut TransformerContext) -> (r: Result<(OutputList, Option<BoundingBox>)>) { unimplemented!() }
}

impl EventGen for SvgElement {
    fn generate_events(
        &self,
        context: &mut TransformerContext,
    ) -> Result<(OutputList, Option<BoundingBox>)> {
        context.inc_depth()?;
        let res = match self.name.as_str() {
            "loop" => LoopElement(self.clone()).generate_events(context),
            _ => {
                if let Some((start, end)) = self.event_range {
                    if start != end {
                        return Container(self.clone()).generate_events(context);
                    }
                }
                OtherElement(self.clone()).generate_events(context)
            }
        };
        context.dec_depth()?;

        let (ol, mut bbox) = res?;
        Ok((ol, bbox))
    }
}

} // verus!
fn main() {}
