use vstd::prelude::*;
verus! {
pub enum SvgdxError { ParseError(String) }
pub type Result<T> = core::result::Result<T, SvgdxError>;

pub enum Token { Number(u32), OpenParen, CloseParen, Comma, Add, Mul, Sub }
pub struct EvalState { pub tokens: Vec<Token>, pub index: usize }

impl EvalState {
    fn peek(&self) -> (r: Option<&Token>)
        ensures r is Some <==> self.index < self.tokens.len(), r is Some ==> *r->Some_0 == self.tokens@[self.index as int]
    { self.tokens.get(self.index) }
    fn advance(&mut self)
        requires old(self).index < old(self).tokens.len()
        ensures final(self).index == old(self).index + 1, final(self).tokens == old(self).tokens
    { self.index += 1; }
    fn next(&mut self) -> (r: Option<Token>)
        ensures final(self).tokens == old(self).tokens,
            r is Some ==> old(self).index < old(self).tokens.len() && final(self).index == old(self).index + 1,
            r is None ==> final(self).index == old(self).index,
    {
        if self.index < self.tokens.len() {
            let t = match &self.tokens[self.index] { Token::Number(n) => Token::Number(*n), Token::OpenParen => Token::OpenParen, Token::CloseParen => Token::CloseParen, Token::Comma => Token::Comma, Token::Add => Token::Add, Token::Mul => Token::Mul, Token::Sub => Token::Sub };
            self.index += 1;
            Some(t)
        } else { None }
    }
}

pub open spec fn rem(es: &EvalState) -> int { es.tokens.len() - es.index }

fn term(eval_state: &mut EvalState) -> (r: Result<u32>)
    requires old(eval_state).index <= old(eval_state).tokens.len()
    ensures final(eval_state).tokens == old(eval_state).tokens, final(eval_state).index <= final(eval_state).tokens.len(),
        r is Ok ==> final(eval_state).index > old(eval_state).index,
        final(eval_state).index >= old(eval_state).index,
    decreases rem(old(eval_state)), 2int
{
    let mut e = factor(eval_state)?;
    loop
        invariant eval_state.tokens == old(eval_state).tokens, eval_state.index <= eval_state.tokens.len(), eval_state.index > old(eval_state).index
        decreases rem(eval_state)
    {
        match eval_state.peek() {
            Some(Token::Add) => {
                eval_state.advance();
                let f = factor(eval_state)?;
                e = e.wrapping_add(f);
            }
            _ => { break; }
        }
    }
    Ok(e)
}

fn factor(eval_state: &mut EvalState) -> (r: Result<u32>)
    requires old(eval_state).index <= old(eval_state).tokens.len()
    ensures final(eval_state).tokens == old(eval_state).tokens, final(eval_state).index <= final(eval_state).tokens.len(),
        r is Ok ==> final(eval_state).index > old(eval_state).index,
        final(eval_state).index >= old(eval_state).index,
    decreases rem(old(eval_state)), 1int
{
    primary(eval_state)
}

fn primary(eval_state: &mut EvalState) -> (r: Result<u32>)
    requires old(eval_state).index <= old(eval_state).tokens.len()
    ensures final(eval_state).tokens == old(eval_state).tokens, final(eval_state).index <= final(eval_state).tokens.len(),
        r is Ok ==> final(eval_state).index > old(eval_state).index,
        final(eval_state).index >= old(eval_state).index,
    decreases rem(old(eval_state)), 0int
{
    match eval_state.next() {
        Some(Token::Number(x)) => Ok(x),
        Some(Token::OpenParen) => {
            let e = term(eval_state)?;
            Ok(e)
        }
        Some(Token::Sub) => Ok(primary(eval_state)?),
        Some(tok) => Err(SvgdxError::ParseError("Invalid token in primary()".to_string())),
        None => Err(SvgdxError::ParseError("Unexpected end of input".to_owned())),
    }
}

} // verus!
fn main() {}
