use vstd::prelude::*;
verus! {

#[verifier::external_body]
pub struct AttrMap { _p: u8 }
pub type Str = Seq<char>;
impl AttrMap {
    pub uninterp spec fn m(&self) -> Map<Str, Str>;
    #[verifier::external_body]
    pub fn pop(&mut self, key: &str) -> (r: Option<String>)
        ensures final(self).m() == old(self).m().remove(key@),
            r is Some <==> old(self).m().contains_key(key@),
            r is Some ==> r->Some_0@ == old(self).m()[key@],
    { unimplemented!() }
    #[verifier::external_body]
    pub fn insert_first(&mut self, key: &str, value: String)
        ensures final(self).m() == if old(self).m().contains_key(key@) { old(self).m() } else { old(self).m().insert(key@, value@) }
    { unimplemented!() }
}

#[verifier::external_body]
pub fn opt_as_str(o: &Option<String>) -> (r: Option<&str>)
    ensures r is Some <==> o is Some, r is Some ==> r->Some_0@ == o->Some_0@
{ o.as_deref() }

pub struct SvgElement { pub name: String, pub attrs: AttrMap }

pub uninterp spec fn split_x(v: Str) -> Str;
pub uninterp spec fn split_y(v: Str) -> Str;

impl SvgElement {
    #[verifier::external_body]
    fn split_compound_attr(value: &str) -> (r: (String, String))
        ensures r.0@ == split_x(value@), r.1@ == split_y(value@)
    { unimplemented!() }

    pub fn pop_attr(&mut self, key: &str) -> (r: Option<String>)
        ensures final(self).attrs.m() == old(self).attrs.m().remove(key@), final(self).name == old(self).name,
            r is Some <==> old(self).attrs.m().contains_key(key@),
            r is Some ==> r->Some_0@ == old(self).attrs.m()[key@],
    {
        self.attrs.pop(key)
    }

    pub fn expand_compound_pos(&mut self)
        ensures
            !final(self).attrs.m().contains_key("cxy"@),
            old(self).attrs.m().contains_key("cxy"@) && !old(self).attrs.m().contains_key("cx"@) && !old(self).attrs.m().contains_key("xy"@)
               ==> final(self).attrs.m().contains_key("cx"@) && final(self).attrs.m()["cx"@] == split_x(old(self).attrs.m()["cxy"@]),
    {
        if let Some(xy) = self.pop_attr("xy") {
            let (x, y) = Self::split_compound_attr(&xy);
            let (x_attr, y_attr) = match opt_as_str(&self.pop_attr("xy-loc")) {
                Some("t") => ("cx", "y1"),
                Some("tr") => ("x2", "y1"),
                Some("c") => ("cx", "cy"),
                _ => ("x", "y"),
            };
            self.attrs.insert_first(x_attr, x);
            self.attrs.insert_first(y_attr, y);
        }
        if let Some(cxy) = self.pop_attr("cxy") {
            let (cx, cy) = Self::split_compound_attr(&cxy);
            self.attrs.insert_first("cx", cx);
            self.attrs.insert_first("cy", cy);
        }
    }
}

} // verus!
fn main() {}
