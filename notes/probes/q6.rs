use vstd::prelude::*;
use vstd::std_specs::ops::*;
use vstd::std_specs::cmp::*;
use std::ops::{Add, Sub, Mul};
use std::cmp::Ordering;
verus! {

#[verifier::external_body]
#[derive(Clone, Copy)]
pub struct R32 { v: f32 }
pub uninterp spec fn val(x: R32) -> real;
pub uninterp spec fn mk(x: real) -> R32;
pub broadcast axiom fn ax_mk(x: real) ensures #[trigger] val(mk(x)) == x;

impl SubSpecImpl<R32> for R32 {
    open spec fn obeys_sub_spec() -> bool { true }
    open spec fn sub_req(self, rhs: R32) -> bool { true }
    open spec fn sub_spec(self, rhs: R32) -> R32 { mk(val(self) - val(rhs)) }
}
impl Sub<R32> for R32 { type Output = R32; #[verifier::external_body] fn sub(self, rhs: R32) -> R32 { R32 { v: self.v - rhs.v } } }
impl AddSpecImpl<R32> for R32 {
    open spec fn obeys_add_spec() -> bool { true }
    open spec fn add_req(self, rhs: R32) -> bool { true }
    open spec fn add_spec(self, rhs: R32) -> R32 { mk(val(self) + val(rhs)) }
}
impl Add<R32> for R32 { type Output = R32; #[verifier::external_body] fn add(self, rhs: R32) -> R32 { R32 { v: self.v + rhs.v } } }
impl MulSpecImpl<R32> for R32 {
    open spec fn obeys_mul_spec() -> bool { true }
    open spec fn mul_req(self, rhs: R32) -> bool { true }
    open spec fn mul_spec(self, rhs: R32) -> R32 { mk(val(self) * val(rhs)) }
}
impl Mul<R32> for R32 { type Output = R32; #[verifier::external_body] fn mul(self, rhs: R32) -> R32 { R32 { v: self.v * rhs.v } } }

impl PartialEqSpecImpl for R32 {
    open spec fn obeys_eq_spec() -> bool { true }
    open spec fn eq_spec(&self, other: &R32) -> bool { val(*self) == val(*other) }
}
impl PartialEq for R32 {
    #[verifier::external_body]
    fn eq(&self, other: &R32) -> bool { self.v == other.v }
}
impl PartialOrdSpecImpl for R32 {
    open spec fn obeys_partial_cmp_spec() -> bool { true }
    open spec fn partial_cmp_spec(&self, other: &R32) -> Option<Ordering> {
        if val(*self) < val(*other) { Some(Ordering::Less) } else if val(*self) == val(*other) { Some(Ordering::Equal) } else { Some(Ordering::Greater) }
    }
}
impl PartialOrd for R32 {
    #[verifier::external_body]
    fn partial_cmp(&self, other: &R32) -> Option<Ordering> { self.v.partial_cmp(&other.v) }
}

#[verifier::external_body] pub fn r32_max() -> (r: R32) ensures forall|x: R32| val(x) < val(r) { unimplemented!() }

#[derive(Clone, Copy)]
pub enum Loc { A, B, C, Center }
pub open spec fn d2(l: Loc, p: real) -> real { (px(l) - p) * (px(l) - p) }
pub open spec fn px(l: Loc) -> real { match l { Loc::A => 1real, Loc::B => 5real, Loc::C => 3real, Loc::Center => 0real } }
#[verifier::external_body] pub fn coord(l: Loc) -> (r: R32) ensures val(r) == px(l) { unimplemented!() }
fn cands() -> (r: Vec<Loc>) ensures r@ == seq![Loc::A, Loc::B, Loc::C] { vec![Loc::A, Loc::B, Loc::C] }

fn closest(point: R32) -> (r: Loc)
    ensures d2(r, val(point)) <= d2(Loc::A, val(point)), d2(r, val(point)) <= d2(Loc::B, val(point)), d2(r, val(point)) <= d2(Loc::C, val(point)),
{
    broadcast use ax_mk;
    let mut min_dist_sq = r32_max();
    let mut min_loc = Loc::Center;
    let cs = cands();
    for loc in it: cs
        invariant
            forall|j: int| 0 <= j < it.index@ ==> val(min_dist_sq) <= #[trigger] d2(cs@[j], val(point)),
            it.index@ > 0 ==> val(min_dist_sq) == d2(min_loc, val(point)),
    {
        broadcast use ax_mk;
        let x1 = coord(loc);
        let dist_sq = (x1 - point) * (x1 - point);
        if dist_sq < min_dist_sq {
            min_dist_sq = dist_sq;
            min_loc = loc;
        }
        assert(val(dist_sq) == d2(loc, val(point)));
        assert(val(min_dist_sq) <= d2(loc, val(point)));
        assert(val(min_dist_sq) == d2(min_loc, val(point)));
    }
    min_loc
}

} // verus!
fn main() {}
