use vstd::prelude::*;
use vstd::std_specs::ops::*;
use std::str::FromStr;

macro_rules! format { ($($t:tt)*) => { havoc_string() } }

verus! {
pub mod fax {
use vstd::prelude::*;
use vstd::std_specs::ops::*;
pub broadcast axiom fn ax_add_req(a: f32, b: f32) ensures #[trigger] a.add_req(b);
pub broadcast axiom fn ax_sub_req(a: f32, b: f32) ensures #[trigger] a.sub_req(b);
pub broadcast axiom fn ax_mul_req(a: f32, b: f32) ensures #[trigger] a.mul_req(b);
pub broadcast axiom fn ax_div_req(a: f32, b: f32) ensures #[trigger] a.div_req(b);
pub broadcast group f32_total { ax_add_req, ax_sub_req, ax_mul_req, ax_div_req }
}
broadcast use fax::f32_total;

#[verifier::external_trait_specification]
pub trait ExFromStr: Sized {
    type ExternalTraitSpecificationFor: core::str::FromStr;
    type Err;
    fn from_str(s: &str) -> core::result::Result<Self, Self::Err>;
}
pub assume_specification<F: std::str::FromStr> [str::parse] (_0: &str) -> std::result::Result<F, <F as std::str::FromStr>::Err>;
pub assume_specification [f32::rem_euclid] (_0: f32, _1: f32) -> f32;
#[verifier::external_body]
pub fn havoc_string() -> String { unimplemented!() }

pub enum SvgdxError { ParseError(String) }
pub type Result<T> = core::result::Result<T, SvgdxError>;

#[derive(Clone, Copy, Debug, PartialEq)]
pub enum LogicalOp { And, Or, Xor }

impl FromStr for LogicalOp {
    type Err = SvgdxError;
    fn from_str(s: &str) -> Result<Self> {
        match s {
            "and" => Ok(Self::And),
            "or" => Ok(Self::Or),
            "xor" => Ok(Self::Xor),
            _ => Err(SvgdxError::ParseError(format!("Invalid logical op '{s}'"))),
        }
    }
}

#[derive(Clone, Debug, PartialEq)]
pub enum Token { Number(f32), Symbol(String), Add, Sub }

pub struct ES { pub tokens: Vec<Token>, pub index: usize }
impl ES {
    fn peek(&self) -> Option<&Token> { self.tokens.get(self.index) }
    fn advance(&mut self) requires old(self).index < usize::MAX { self.index += 1; }
}

fn t_whilelet(es: &mut ES) -> u32 {
    let mut n = 0u32;
    while let Some(Token::Symbol(s)) = es.peek()
        decreases es.tokens.len() - es.index
    {
        match s.parse::<LogicalOp>() {
            Ok(_) => { if es.index < 1000 { es.advance(); } else { break; } }
            _ => break,
        }
    }
    n
}

fn t_addassign(a: f32, b: f32) -> f32 {
    let mut e = a;
    e = e + b;
    e = e - b;
    e
}
fn t_rem(a: f32, b: f32) -> f32 { a.rem_euclid(b) }
fn t_cast(c: bool) -> f32 { c as i32 as f32 }
fn t_streq(s: &String) -> bool { *s == "line" }
fn t_tuple(a: (f32,f32), b: (f32,f32)) -> f32 {
    let ((x1, y1), (x2, y2)) = (a, b);
    (x1 - x2) * (x1 - x2) + (y1 - y2) * (y1 - y2)
}
fn t_for(v: Vec<u32>) -> u32 {
    let mut s = 0u32;
    for x in v { if s < 100 && x < 100 { s = s + x; } }
    s
}
fn t_rev(v: &Vec<u32>) -> u32 {
    let mut s = 0u32;
    for x in v.iter().rev() { if s < 100 && *x < 100 { s = s + *x; } }
    s
}

} // verus!
fn main() {}
