use vstd::prelude::*;
verus! {

pub type Bytes = Seq<u8>;
pub uninterp spec fn is_utf8(b: Bytes) -> bool;
pub uninterp spec fn xml_unescape(b: Bytes) -> Bytes;

// ---- trusted interface model of quick-xml (names mirror the crate) ----
pub mod quick_xml { pub mod events {
    use vstd::prelude::*;
    use super::super::Bytes;
    #[verifier::external_body] pub struct BytesText { _p: u8 }
    #[verifier::external_body] pub struct BytesCData { _p: u8 }
    #[verifier::external_body] pub struct BytesStart { _p: u8 }
    #[verifier::external_body] pub struct BytesEnd { _p: u8 }
    #[verifier::external_body] pub struct QName { _p: u8 }
    #[verifier::external_body] pub struct CowBytes { _p: u8 }
    pub enum Event { Start(BytesStart), End(BytesEnd), Empty(BytesStart), Text(BytesText), CData(BytesCData), Comment(BytesText), PI(BytesText), Eof }
    impl BytesText {
        pub uninterp spec fn raw(&self) -> Bytes;
        #[verifier::external_body] pub fn into_inner(self) -> (r: CowBytes) ensures r.b() == self.raw() { unimplemented!() }
    }
    impl BytesCData {
        pub uninterp spec fn raw(&self) -> Bytes;
        #[verifier::external_body] pub fn into_inner(self) -> (r: CowBytes) ensures r.b() == self.raw() { unimplemented!() }
    }
    impl CowBytes {
        pub uninterp spec fn b(&self) -> Bytes;
        #[verifier::external_body] pub fn to_vec(&self) -> (r: Vec<u8>) ensures r@ == self.b() { unimplemented!() }
    }
    impl BytesEnd {
        pub uninterp spec fn nm(&self) -> Bytes;
        #[verifier::external_body] pub fn name(&self) -> (r: QName) ensures r.b() == self.nm() { unimplemented!() }
    }
    impl QName {
        pub uninterp spec fn b(&self) -> Bytes;
        #[verifier::external_body] pub fn into_inner(self) -> (r: CowBytes) ensures r.b() == self.b() { unimplemented!() }
    }
}}
use quick_xml::events::*;

pub uninterp spec fn str_bytes(s: Seq<char>) -> Bytes;
#[verifier::external_body]
pub fn string_from_utf8(v: Vec<u8>) -> (r: Result<String, ()>)
    ensures r is Ok <==> is_utf8(v@), r is Ok ==> str_bytes(r->Ok_0@) == v@
{ unimplemented!() }

#[verifier::external_body] pub struct SvgElement { _p: u8 }
#[verifier::external_body]
pub fn svgel_try_from(e: &BytesStart) -> Result<SvgElement, ()> { unimplemented!() }

pub struct InputEvent { pub event: Event, pub index: usize }

pub enum OutputEvent { Comment(String), Text(String), CData(String), Start(SvgElement), Empty(SvgElement), End(String), Other(Event) }

pub open spec fn utf8_ok(ev: Event) -> bool {
    match ev {
        Event::Text(t) => is_utf8(t.raw()),
        Event::CData(t) => is_utf8(t.raw()),
        Event::Comment(t) => is_utf8(t.raw()),
        Event::End(e) => is_utf8(e.nm()),
        _ => true,
    }
}

fn conv(value: InputEvent) -> (r: OutputEvent)
    requires utf8_ok(value.event)
    ensures value.event is Text ==> r is Text && str_bytes(r->Text_0@) == xml_unescape(value.event->Text_0.raw()),
{
        match value.event {
            Event::End(e) => {
                let elem_name: String =
                    string_from_utf8(e.name().into_inner().to_vec()).expect("utf8");
                OutputEvent::End(elem_name)
            }
            Event::Text(t) => {
                OutputEvent::Text(string_from_utf8(t.into_inner().to_vec()).expect("utf8"))
            }
            Event::CData(c) => {
                OutputEvent::CData(string_from_utf8(c.into_inner().to_vec()).expect("utf8"))
            }
            Event::Comment(c) => {
                OutputEvent::Comment(string_from_utf8(c.into_inner().to_vec()).expect("utf8"))
            }
            _ => OutputEvent::Other(value.event),
        }
}

} // verus!
fn main() {}
