use vstd::prelude::*;
use std::collections::HashSet;
verus! {

pub struct TB { pub classes: HashSet<String>, pub defs: Vec<String> }

fn has_class_loop(tb: &TB, s: &str) -> (r: bool)
{
    let mut found = false;
    for x in tb.classes.iter() {
        if x.as_str() == s { found = true; }
    }
    found
}

} // verus!
fn main() {}
