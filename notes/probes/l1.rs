use vstd::prelude::*;
macro_rules! format { ($($t:tt)*) => { havoc_string() } }
verus! {
#[verifier::external_body] pub fn havoc_string() -> String { unimplemented!() }

#[verifier::external_body] pub struct OutputList { _p: u8 }
#[verifier::external_body] pub struct InputList { _p: u8 }
#[verifier::external_body] pub struct BoundingBox { _p: u8 }
#[verifier::external_body] pub struct BoundingBoxBuilder { _p: u8 }
#[verifier::external_body] pub struct SvgElement { _p: u8 }
#[verifier::external_body] pub struct R32 { _p: u8 }

pub enum SvgdxError { LoopLimitError(u32,u32), InvalidData(String), MissingAttribute(String), ParseError(String) }
pub type Result<T> = core::result::Result<T, SvgdxError>;
pub struct TransformConfig { pub loop_limit: u32 }

// ghost trace of observable steps
pub enum Step { Cond(bool), SetVar, Body }

pub struct TransformerContext { pub config: TransformConfig, pub tr: Ghost<Seq<Step>> }

impl InputList { #[verifier::external_body] pub fn clone(&self) -> InputList { unimplemented!() } }
impl OutputList {
    #[verifier::external_body] pub fn new() -> OutputList { unimplemented!() }
    #[verifier::external_body] pub fn extend(&mut self, o: &OutputList) { unimplemented!() }
}
impl BoundingBoxBuilder {
    #[verifier::external_body] pub fn new() -> BoundingBoxBuilder { unimplemented!() }
    #[verifier::external_body] pub fn extend(&mut self, b: BoundingBox) { unimplemented!() }
    #[verifier::external_body] pub fn build(self) -> Option<BoundingBox> { unimplemented!() }
}
impl TransformerContext {
    #[verifier::external_body]
    pub fn set_var(&mut self, name: &String, value: &String)
        ensures final(self).config == old(self).config, final(self).tr@ == old(self).tr@.push(Step::SetVar)
    { unimplemented!() }
}
#[verifier::external_body]
pub fn eval_condition(value: &String, context: &mut TransformerContext) -> (r: Result<bool>)
    ensures final(context).config == old(context).config,
        r is Ok ==> final(context).tr@ == old(context).tr@.push(Step::Cond(r->Ok_0)),
{ unimplemented!() }
#[verifier::external_body]
pub fn process_events(input: InputList, context: &mut TransformerContext) -> (r: Result<(OutputList, Option<BoundingBox>)>)
    ensures final(context).config == old(context).config,
        r is Ok ==> final(context).tr@ == old(context).tr@.push(Step::Body),
{ unimplemented!() }

pub enum LoopType { Repeat(String), While(String), Until(String) }

pub open spec fn bodies(s: Seq<Step>) -> nat decreases s.len() {
    if s.len() == 0 { 0 } else { bodies(s.drop_last()) + if s.last() is Body { 1nat } else { 0nat } }
}

fn run_loop(loop_type: &LoopType, loop_count: u32, inner_events: &InputList, context: &mut TransformerContext) -> (r: Result<OutputList>)
    ensures
        (r is Ok && loop_type is Repeat) ==> bodies(final(context).tr@) == bodies(old(context).tr@) + loop_count,
        (r is Ok) ==> bodies(final(context).tr@) - bodies(old(context).tr@) <= old(context).config.loop_limit,
{
    let mut gen_events = OutputList::new();
    let mut bbox = BoundingBoxBuilder::new();
    let mut iteration = 0;
            loop
                invariant
                    context.config == old(context).config,
                    bodies(context.tr@) == bodies(old(context).tr@) + iteration,
                    iteration <= context.config.loop_limit,
                    loop_type is Repeat ==> iteration <= loop_count,
                ensures
                    loop_type is Repeat ==> iteration == loop_count,
                decreases context.config.loop_limit - iteration
            {
                if let LoopType::Repeat(_) = loop_type {
                    if iteration >= loop_count {
                        break;
                    }
                } else if let LoopType::While(expr) = loop_type {
                    if !eval_condition(expr, context)? {
                        break;
                    }
                }

                let (ev_list, ev_bbox) = process_events(inner_events.clone(), context)?;
                gen_events.extend(&ev_list);
                if let Some(bb) = ev_bbox {
                    bbox.extend(bb);
                }

                if let LoopType::Until(expr) = loop_type {
                    if eval_condition(expr, context)? {
                        break;
                    }
                }
                iteration += 1;
                if iteration > context.config.loop_limit {
                    return Err(SvgdxError::LoopLimitError(
                        iteration,
                        context.config.loop_limit,
                    ));
                }
            }
    Ok(gen_events)
}

} // verus!
fn main() {}
