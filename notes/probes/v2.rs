use vstd::prelude::*;
verus! {

pub assume_specification [char::is_ascii_whitespace] (_0: &char) -> bool;
pub assume_specification [char::is_ascii_digit] (_0: &char) -> bool;
pub assume_specification<P: std::str::pattern::Pattern> [str::contains] (_0: &str, _1: P) -> bool;
pub assume_specification<'a, T: Copy> [std::option::Option::<&T>::copied] (_0: std::option::Option<&'a T>) -> (r: std::option::Option<T>)
    ensures r == match _0 { Some(x) => Some(*x), None => None };

pub enum SvgdxError {
    ParseError(String),
    InvalidData(String),
}
pub type Result<T> = core::result::Result<T, SvgdxError>;

pub struct SvgPathSyntax {
    pub data: Vec<char>,
    pub index: usize,
}

pub trait PathSyntax: Sized {
    spec fn idx(&self) -> nat;
    spec fn len(&self) -> nat;

    fn at_command(&self) -> (r: Result<bool>)
        ensures r is Ok ==> self.idx() < self.len();
    fn current(&self) -> (r: Option<char>)
        ensures r is Some <==> self.idx() < self.len();
    fn advance(&mut self)
        requires old(self).idx() < old(self).len(),
        ensures final(self).idx() == old(self).idx() + 1, final(self).len() == old(self).len();
    fn at_end(&self) -> (r: bool)
        ensures r == (self.idx() >= self.len());

    fn check_not_end(&self) -> (r: Result<()>)
        ensures r is Ok <==> self.idx() < self.len()
    {
        if self.at_end() {
            Err(SvgdxError::ParseError("Ran out of data!".to_string()))
        } else {
            Ok(())
        }
    }

    fn skip_whitespace(&mut self)
        ensures final(self).idx() >= old(self).idx(), final(self).len() == old(self).len(), final(self).idx() <= final(self).len() || final(self).idx() == old(self).idx()
    {
        while !self.at_end() && self.current().unwrap().is_ascii_whitespace()
            invariant self.idx() >= old(self).idx(), self.len() == old(self).len(),
            decreases self.len() - self.idx()
        {
            self.advance();
        }
    }
}

impl PathSyntax for SvgPathSyntax {
    open spec fn idx(&self) -> nat { self.index as nat }
    open spec fn len(&self) -> nat { self.data@.len() }

    fn at_command(&self) -> Result<bool> {
        self.check_not_end()?;
        let c = self
            .current()
            .ok_or(SvgdxError::ParseError("No data".to_string()))?;
        Ok("MmLlHhVvZzCcSsQqTtAa".contains(c))
    }

    fn current(&self) -> Option<char> {
        self.data.get(self.index).copied()
    }

    fn advance(&mut self) {
        self.index += 1;
    }

    fn at_end(&self) -> bool {
        self.index >= self.data.len()
    }
}

} // verus!
fn main() {}
