use vstd::prelude::*;
use std::collections::{BTreeMap, HashMap};
use std::mem;

verus! {

#[verifier::external_body]
pub struct OutputList { _p: u8 }
#[verifier::external_body]
#[derive(Clone, Copy)]
pub struct BoundingBox { _p: u8 }
#[verifier::external_body]
#[derive(Clone)]
pub struct SvgElement { _p: u8 }
#[verifier::external_body]
#[derive(Clone)]
pub struct Tag { _p: u8 }
#[verifier::external_body]
#[derive(Clone, Default)]
pub struct BoundingBoxBuilder { _p: u8 }
#[verifier::external_body]
#[derive(Clone, PartialEq, Eq, Hash, PartialOrd, Ord)]
pub struct OrderIndex { _p: u8 }

pub enum SvgdxError { MultiError(HashMap<OrderIndex, (SvgElement, SvgdxError)>), Other }
pub type Result<T> = core::result::Result<T, SvgdxError>;

pub struct TransformerContext { pub in_specs: bool }

impl TransformerContext {
    #[verifier::external_body]
    pub fn update_element(&mut self, el: &SvgElement) { unimplemented!() }
}
impl Tag {
    #[verifier::external_body]
    pub fn get_element(&self) -> Option<SvgElement> { unimplemented!() }
    #[verifier::external_body]
    pub fn generate_events(&self, context: &mut TransformerContext) -> Result<(OutputList, Option<BoundingBox>)> { unimplemented!() }
}
impl OutputList {
    #[verifier::external_body]
    pub fn is_empty(&self) -> bool { unimplemented!() }
}
impl BoundingBoxBuilder {
    #[verifier::external_body]
    pub fn extend(&mut self, bbox: BoundingBox) { unimplemented!() }
    #[verifier::external_body]
    pub fn build(self) -> Option<BoundingBox> { unimplemented!() }
}

fn process_tags(
    tags: &mut Vec<(OrderIndex, Tag)>,
    context: &mut TransformerContext,
    idx_output: &mut BTreeMap<OrderIndex, OutputList>,
    bbb: &mut BoundingBoxBuilder,
) -> Result<Option<BoundingBox>> {
    let mut element_errors: HashMap<OrderIndex, (SvgElement, SvgdxError)> = HashMap::new();
    let remain = &mut Vec::new();

    while !tags.is_empty() && remain.len() != tags.len() {
        for (idx, t) in &mut tags.iter_mut() {
            let idx = idx.clone();
            let el = if let Some(el) = t.get_element() {
                context.update_element(&el);
                Some(el.clone())
            } else {
                None
            };
            let gen_result = t.generate_events(context);
            if !context.in_specs {
                if let Ok((events, maybe_bbox)) = gen_result {
                    if let Some(bbox) = maybe_bbox {
                        bbb.extend(bbox);
                    }
                    if !events.is_empty() {
                        idx_output.insert(idx, events);
                    }
                } else {
                    if let (Some(el), Err(err)) = (el, gen_result) {
                        if let SvgdxError::MultiError(err_list) = err {
                            for (idx, (el, err)) in err_list {
                                element_errors.insert(idx, (el, err));
                            }
                        } else {
                            element_errors.insert(idx.clone(), (el, err));
                        }
                    }
                    remain.push((idx, t.clone()));
                }
            }
        }
        if tags.len() == remain.len() {
            return Err(SvgdxError::MultiError(element_errors));
        }

        mem::swap(tags, remain);
        remain.clear();
    }
    Ok(bbb.clone().build())
}

} // verus!
fn main() {}
