//@unit evalattrs
//@props C14
// U-evalattrs: attribute evaluation of one element (SvgElement::eval_attributes, src/element.rs):
// every attribute value except the raw comment `__` is handed to eval_attr exactly once, in
// attribute order, and the result is stored under the SAME key; every class likewise. Hence one
// evaluation per expression occurrence per call (random functions advance once).
//@assume eval_attr records the evaluated text on a ghost trace and returns an arbitrary result (its internals: U-expr); R-iter-vec: `for (key, value) in self.attrs.clone()` iterates the map's (key, value) pairs in order (attr_pairs); `for class in &self.classes.clone()` iterates class_items(); AttrMap::insert / ClassList::replace by their assumed contracts over the Map / Seq views; R-continue as in U-xmlsink
use vstd::prelude::*;
//@prelude fmt_macro
verus! {
//@prelude std_specs r32 attrmap

pub enum SvgdxError { Other }
pub type Result<T> = core::result::Result<T, SvgdxError>;
#[verifier::external_body] pub struct ClassList { _p: u8 }
#[verifier::external_body] pub struct OrderIndex { _p: u8 }
#[verifier::external_body] pub struct CtxRest { _p: u8 }
pub struct BoundingBox { pub x1: R32, pub y1: R32, pub x2: R32, pub y2: R32 }
/// ghost: the texts handed to eval_attr, in order
pub struct Ctx { pub evaluated: Ghost<Seq<Seq<char>>>, pub rest: CtxRest }

//@rewrite f32 strlit continue
//@item src/element.rs :: struct SvgElement
//@end

pub uninterp spec fn pairs_of(m: AttrMap) -> Seq<(Seq<char>, Seq<char>)>;      // the map's (key, value) pairs in attribute order
pub uninterp spec fn classes_of(c: ClassList) -> Seq<Seq<char>>;
#[verifier::external_body]
pub fn attr_pairs(m: &AttrMap) -> (r: Vec<(String, String)>)
    ensures r@.map(|i: int, p: (String, String)| (p.0@, p.1@)) == pairs_of(*m)
{ unimplemented!() }
#[verifier::external_body]
pub fn class_items(c: &ClassList) -> (r: Vec<String>) ensures r@.map(|i: int, s: String| s@) == classes_of(*c) { unimplemented!() }
impl ClassList {
    #[verifier::external_body]
    pub fn replace(&mut self, old_c: &String, new_c: String) { unimplemented!() }
}
#[verifier::external_body]
pub fn eval_attr(value: &String, ctx: &mut Ctx) -> (r: Result<String>)
    ensures final(ctx).evaluated@ == old(ctx).evaluated@.push(value@)
{ unimplemented!() }

/// values of all attributes except `__`, in order (what must be evaluated, once each)
pub open spec fn to_eval(ps: Seq<(Seq<char>, Seq<char>)>, n: int) -> Seq<Seq<char>> decreases n {
    if n <= 0 { Seq::<Seq<char>>::empty() } else if ps[n - 1].0 == "__"@ { to_eval(ps, n - 1) } else { to_eval(ps, n - 1).push(ps[n - 1].1) }
}
pub open spec fn firsts(cs: Seq<Seq<char>>, n: int) -> Seq<Seq<char>> { cs.subrange(0, n) }

impl SvgElement {
//@item src/element.rs :: impl SvgElement :: fn eval_attributes
//@ strlit "__"
//@ replace[R-opaque-type] <<<ctx: &impl ContextView>>> => <<<ctx: &mut Ctx>>>
//@ replace[R-iter-vec] <<<for (key, value) in self.attrs.clone() {>>> => <<<for (key, value) in attr_pairs(&self.attrs) {>>>
//@ replace[R-iter-vec] <<<for class in &self.classes.clone() {>>> => <<<for class in class_items(&self.classes) {>>>
//@ replace[R-ref] <<<self.classes.replace(class, eval_attr(class, ctx)?);>>> => <<<self.classes.replace(&class, eval_attr(&class, ctx)?);>>>
//@ before <<<for (key, value) in attr_pairs(&self.attrs) {>>>
//@ | let ghost g_ps = pairs_of(self.attrs);
//@ before <<<for class in class_items(&self.classes) {>>>
//@ | let ghost g_cs = classes_of(self.classes);
//@ | let ghost g_mid = ctx.evaluated@;
//@ after <<<self.classes.replace(&class, eval_attr(&class, ctx)?);>>>
//@ | proof {
//@ |     let k = it2.index@;
//@ |     let all = (it2.history@ + vstd::std_specs::iter::IteratorSpec::remaining(&it2.iter)).map(|i: int, s: String| s@);
//@ |     assert(all[k] == class@);
//@ |     assert(firsts(g_cs, k + 1) =~= firsts(g_cs, k).push(g_cs[k]));
//@ | }
//@ before <<<        Ok(())>>>
//@ | proof { assert(firsts(g_cs, g_cs.len() as int) =~= g_cs); }
//@ ensures
//@ - r is Ok ==> final(ctx).evaluated@ == old(ctx).evaluated@ + to_eval(pairs_of(old(self).attrs), pairs_of(old(self).attrs).len() as int) + classes_of(old(self).classes)     @@C14.attr.evaluated_once
//@ - final(self).name == old(self).name
//@ loop 1
//@ iter it
//@ invariant
//@ - self.name == old(self).name && self.classes == old(self).classes
//@ - g_ps == pairs_of(old(self).attrs)
//@ - g_ps == (it.history@ + vstd::std_specs::iter::IteratorSpec::remaining(&it.iter)).map(|i: int, p: (String, String)| (p.0@, p.1@))
//@ - it.index@ == it.history@.len()
//@ - ctx.evaluated@ == old(ctx).evaluated@ + to_eval(g_ps, it.index@)     @@C14.attr.evaluated_once.loop
//@ loop 2
//@ iter it2
//@ invariant
//@ - self.name == old(self).name
//@ - g_cs == classes_of(old(self).classes)
//@ - g_cs == (it2.history@ + vstd::std_specs::iter::IteratorSpec::remaining(&it2.iter)).map(|i: int, s: String| s@)
//@ - it2.index@ == it2.history@.len()
//@ - g_mid == old(ctx).evaluated@ + to_eval(pairs_of(old(self).attrs), pairs_of(old(self).attrs).len() as int)
//@ - ctx.evaluated@ == g_mid + firsts(g_cs, it2.index@)     @@C14.class.evaluated_once.loop
//@end
}

} // verus!
fn main() {}
