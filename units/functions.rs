//@unit functions
//@props C14 C01
// U-functions: arms of the built-in function table (src/functions.rs eval_function), each arm
// extracted mechanically as a function of its own (R-fragment; the text between `Function::X => {`
// and the next arm). Index arithmetic of the list functions (select, head, tail, in, addv, subv,
// scalev) is proved in bounds for lists of ANY length; the numeric arms are proved against the
// documented meaning in the real-number model (NaN / infinities are the Kani unit K-functions).
//@assume ExprValue::flatten meets flat_of (recursion over Vec not translated); R-slicepat: `if let [a, b] = E.as_slice() {` is `let sl_ = E; if sl_.len() == 2 { let a = &sl_[0]; let b = &sl_[1];` (slice patterns are not translated; one_number / number_pair / number_triple are proved with this rewrite); `x as usize` on a float is an arbitrary usize (as_usize_spec); `.to_owned()` on an ExprValue is `.clone()`; `&v[1..]` is slice_from(&v, 1) with the same bound check
use vstd::prelude::*;
//@prelude fmt_macro
verus! {
//@prelude std_specs r32

pub enum SvgdxError { ParseError(String), InvalidData(String), Other }
pub type Result<T> = core::result::Result<T, SvgdxError>;

//@rewrite f32 strlit
//@item src/expression.rs :: enum ExprValue
//@end
impl Clone for ExprValue { #[verifier::external_body] fn clone(&self) -> (r: Self) ensures r == *self { unimplemented!() } }
impl vstd::std_specs::convert::FromSpecImpl<R32> for ExprValue {
    open spec fn obeys_from_spec() -> bool { true }
    open spec fn from_spec(v: R32) -> Self { ExprValue::Number(v) }
}
impl From<R32> for ExprValue {
//@item src/expression.rs :: impl From<f32> for ExprValue :: fn from
//@ ensures
//@ - r == ExprValue::Number(v)
//@end
}
impl vstd::std_specs::convert::FromSpecImpl<Vec<ExprValue>> for ExprValue {
    open spec fn obeys_from_spec() -> bool { true }
    open spec fn from_spec(v: Vec<ExprValue>) -> Self { ExprValue::List(v) }
}
impl From<Vec<ExprValue>> for ExprValue {
//@item src/expression.rs :: impl From<Vec<ExprValue>> for ExprValue :: fn from
//@ ensures
//@ - r == ExprValue::List(v)
//@end
}
/// `Vec<f32>` -> ExprValue (src/expression.rs: maps every number to ExprValue::Number; iterator code, assumed)
pub open spec fn num_list(s: Seq<R32>) -> Seq<ExprValue> { s.map(|i: int, x: R32| ExprValue::Number(x)) }
impl vstd::std_specs::convert::FromSpecImpl<Vec<R32>> for ExprValue {
    open spec fn obeys_from_spec() -> bool { true }
    open spec fn from_spec(v: Vec<R32>) -> Self { arbitrary() }
}
impl From<Vec<R32>> for ExprValue {
    #[verifier::external_body]
    fn from(v: Vec<R32>) -> (r: ExprValue) ensures r is List && r->List_0@ == num_list(v@) { unimplemented!() }
}

pub open spec fn b2r(b: bool) -> real { if b { 1real } else { 0real } }
pub uninterp spec fn flat_of(e: ExprValue) -> Seq<ExprValue>;
pub uninterp spec fn as_usize_spec(x: real) -> usize;
/// the numbers of a value: a number, or a list made only of numbers
pub open spec fn nums_of(e: ExprValue) -> Option<Seq<R32>> {
    match e {
        ExprValue::Number(v) => Some(seq![v]),
        ExprValue::List(l) => if forall|i: int| 0 <= i < l@.len() ==> (#[trigger] l@[i]) is Number { Some(l@.map(|i: int, x: ExprValue| x->Number_0)) } else { None },
        _ => None,
    }
}
pub open spec fn num1(e: ExprValue) -> Option<real> { match nums_of(e) { Some(s) => if s.len() == 1 { Some(val(s[0])) } else { None }, None => None } }
pub open spec fn num2(e: ExprValue) -> Option<(real, real)> { match nums_of(e) { Some(s) => if s.len() == 2 { Some((val(s[0]), val(s[1]))) } else { None }, None => None } }
pub open spec fn num3(e: ExprValue) -> Option<(real, real, real)> { match nums_of(e) { Some(s) => if s.len() == 3 { Some((val(s[0]), val(s[1]), val(s[2]))) } else { None }, None => None } }
pub open spec fn is_num(r: Result<ExprValue>, x: real) -> bool { r is Ok && r->Ok_0 is Number && val(r->Ok_0->Number_0) == x }

#[verifier::external_body]
pub fn r32_as_usize(x: R32) -> (r: usize) ensures r == as_usize_spec(val(x)) { unimplemented!() }
#[verifier::external_body]
pub fn usize_as_r32(x: usize) -> (r: R32) ensures val(r) == x as real { unimplemented!() }
/// `&v[k..]`
#[verifier::external_body]
pub fn slice_from<T>(v: &Vec<T>, k: usize) -> (r: &[T]) requires k <= v@.len() ensures r@ == v@.subrange(k as int, v@.len() as int) { unimplemented!() }
/// `v[a..b].to_owned()`
#[verifier::external_body]
pub fn vec_range(v: &Vec<ExprValue>, a: usize, b: usize) -> (r: Vec<ExprValue>) requires a <= b <= v@.len() ensures r@ == v@.subrange(a as int, b as int) { unimplemented!() }
/// itertools `rest.iter().contains(&value)`
#[verifier::external_body]
pub fn slice_has(rest: &[ExprValue], value: &ExprValue) -> (r: bool) ensures r == rest@.contains(*value) { unimplemented!() }

pub uninterp spec fn rhypot(x: real, y: real) -> real;
pub uninterp spec fn ratan2(y: real, x: real) -> real;      // atan2 of (y, x), in radians: ARGUMENT ORDER MATTERS
/// `[a, b].as_slice().into()`: a two-element list of numbers
#[verifier::external_body]
pub fn pair_value(a: R32, b: R32) -> (r: ExprValue)
    ensures r is List && r->List_0@.len() == 2 && r->List_0@[0] == ExprValue::Number(a) && r->List_0@[1] == ExprValue::Number(b)
{ unimplemented!() }
pub open spec fn is_pair(r: Result<ExprValue>, a: real, b: real) -> bool {
    r is Ok && r->Ok_0 is List && r->Ok_0->List_0@.len() == 2 && r->Ok_0->List_0@[0] is Number && r->Ok_0->List_0@[1] is Number
    && val(r->Ok_0->List_0@[0]->Number_0) == a && val(r->Ok_0->List_0@[1]->Number_0) == b
}
impl R32 {
    #[verifier::external_body]
    pub fn hypot(self, o: R32) -> (r: R32) ensures val(r) == rhypot(val(self), val(o)) { unimplemented!() }
    #[verifier::external_body]
    pub fn atan2(self, o: R32) -> (r: R32) ensures val(r) == ratan2(val(self), val(o)) { unimplemented!() }
    #[verifier::external_body]
    pub fn signum(self) -> (r: R32) ensures val(self) > 0real ==> val(r) == 1real, val(self) < 0real ==> val(r) == -1real { unimplemented!() }
    /// f32::clamp panics unless min <= max
    #[verifier::external_body]
    pub fn clamp(self, min: R32, max: R32) -> (r: R32)
        requires val(min) <= val(max)
        ensures val(r) == (if val(self) < val(min) { val(min) } else if val(self) > val(max) { val(max) } else { val(self) })
    { unimplemented!() }
}

impl ExprValue {
//@item src/expression.rs :: impl ExprValue :: fn new
//@ ensures
//@ - r is List && r->List_0@.len() == 0
//@end
//@item src/expression.rs :: impl ExprValue :: fn len
//@ ensures
//@ - r == (match *self { ExprValue::List(v) => v@.len(), _ => 1 })
//@end
//@item src/expression.rs :: impl ExprValue :: fn is_empty
//@ ensures
//@ - r == (self is List && self->List_0@.len() == 0)
//@end
//@item src/expression.rs :: impl ExprValue :: fn number_list
//@ ensures
//@ - (match nums_of(*self) { Some(s) => r is Ok && r->Ok_0@ == s, None => r is Err })     @@C14.fn.number_list
//@ loop 1
//@ iter it
//@ invariant
//@ - *self == ExprValue::List(*v)
//@ - v@ == (it.history@ + vstd::std_specs::iter::IteratorSpec::remaining(&it.iter)).map(|i: int, e: &ExprValue| *e)
//@ - it.index@ == it.history@.len()
//@ - out@.len() == it.index@
//@ - forall|j: int| 0 <= j < it.index@ ==> (#[trigger] v@[j]) is Number && out@[j] == v@[j]->Number_0
//@end
    #[verifier::external_body]
    pub fn flatten(&self) -> (r: Vec<ExprValue>) ensures r@ == flat_of(*self) { unimplemented!() }
//@item src/expression.rs :: impl ExprValue :: fn one_number
//@ replace[R-slicepat] <<<if let [a] = self.number_list()?.as_slice() {>>> => <<<let sl_ = self.number_list()?;\n        if sl_.len() == 1 {\n            let a = &sl_[0];>>>
//@ ensures
//@ - (match num1(*self) { Some(x) => r is Ok && val(r->Ok_0) == x, None => r is Err })     @@C14.fn.one_number
//@end
//@item src/expression.rs :: impl ExprValue :: fn number_pair
//@ replace[R-slicepat] <<<if let [a, b] = self.number_list()?.as_slice() {>>> => <<<let sl_ = self.number_list()?;\n        if sl_.len() == 2 {\n            let a = &sl_[0]; let b = &sl_[1];>>>
//@ ensures
//@ - (match num2(*self) { Some(p) => r is Ok && val(r->Ok_0.0) == p.0 && val(r->Ok_0.1) == p.1, None => r is Err })     @@C14.fn.number_pair
//@end
//@item src/expression.rs :: impl ExprValue :: fn number_triple
//@ replace[R-slicepat] <<<if let [a, b, c] = self.number_list()?.as_slice() {>>> => <<<let sl_ = self.number_list()?;\n        if sl_.len() == 3 {\n            let a = &sl_[0]; let b = &sl_[1]; let c = &sl_[2];>>>
//@ ensures
//@ - (match num3(*self) { Some(p) => r is Ok && val(r->Ok_0.0) == p.0 && val(r->Ok_0.1) == p.1 && val(r->Ok_0.2) == p.2, None => r is Err })     @@C14.fn.number_triple
//@end
}

// ------------------------------------------------------------------------------ list functions: indices in bounds for every length
//@item src/functions.rs :: fn eval_function
//@ fragment-name arm_addv
//@ fragment-inner
//@ fragment-from <<<        Function::Addv => {>>>
//@ fragment-to <<<\n        }\n        Function::Subv => >>>
//@ fragment-head <<<fn arm_addv(args: &ExprValue) -> Result<ExprValue> {>>>
//@ fragment-tail <<<}>>>
//@ loop 1
//@ invariant
//@ - halflen * 2 == args@.len()
//@ - result@.len() == i
//@ - forall|j: int| 0 <= j < i ==> val(#[trigger] result@[j]) == val(args@[j]) + val(args@[j + halflen as int])
//@ fn
//@ ensures
//@ - r is Ok ==> nums_of(*args) is Some && nums_of(*args)->Some_0.len() % 2 == 0
//@ - r is Ok ==> ({ let s = nums_of(*args)->Some_0; let h = s.len() / 2; r->Ok_0 is List && r->Ok_0->List_0@.len() == h
//@       && forall|j: int| 0 <= j < h ==> (#[trigger] r->Ok_0->List_0@[j]) is Number && val(r->Ok_0->List_0@[j]->Number_0) == val(s[j]) + val(s[j + h]) })     @@C14.fn.addv
//@ - nums_of(*args) is Some && nums_of(*args)->Some_0.len() % 2 == 0 ==> r is Ok
//@end

//@item src/functions.rs :: fn eval_function
//@ fragment-name arm_subv
//@ fragment-inner
//@ fragment-from <<<        Function::Subv => {>>>
//@ fragment-to <<<\n        }\n        Function::Scalev => >>>
//@ fragment-head <<<fn arm_subv(args: &ExprValue) -> Result<ExprValue> {>>>
//@ fragment-tail <<<}>>>
//@ loop 1
//@ invariant
//@ - halflen * 2 == args@.len()
//@ - result@.len() == i
//@ - forall|j: int| 0 <= j < i ==> val(#[trigger] result@[j]) == val(args@[j]) - val(args@[j + halflen as int])
//@ fn
//@ ensures
//@ - r is Ok ==> nums_of(*args) is Some && nums_of(*args)->Some_0.len() % 2 == 0
//@ - r is Ok ==> ({ let s = nums_of(*args)->Some_0; let h = s.len() / 2; r->Ok_0 is List && r->Ok_0->List_0@.len() == h
//@       && forall|j: int| 0 <= j < h ==> (#[trigger] r->Ok_0->List_0@[j]) is Number && val(r->Ok_0->List_0@[j]->Number_0) == val(s[j]) - val(s[j + h]) })     @@C14.fn.subv
//@end

//@item src/functions.rs :: fn eval_function
//@ fragment-name arm_scalev
//@ fragment-inner
//@ fragment-from <<<        Function::Scalev => {>>>
//@ fragment-to <<<\n        }\n        Function::Head => >>>
//@ fragment-head <<<fn arm_scalev(args: &ExprValue) -> Result<ExprValue> {>>>
//@ fragment-tail <<<}>>>
//@ loop 1
//@ invariant
//@ - args@.len() >= 2
//@ - result@.len() == i - 1
//@ - forall|j: int| 0 <= j < i - 1 ==> val(#[trigger] result@[j]) == val(args@[0]) * val(args@[j + 1])
//@ fn
//@ ensures
//@ - r is Ok ==> nums_of(*args) is Some && nums_of(*args)->Some_0.len() >= 2
//@ - r is Ok ==> ({ let s = nums_of(*args)->Some_0; r->Ok_0 is List && r->Ok_0->List_0@.len() == s.len() - 1
//@       && forall|j: int| 0 <= j < s.len() - 1 ==> (#[trigger] r->Ok_0->List_0@[j]) is Number && val(r->Ok_0->List_0@[j]->Number_0) == val(s[0]) * val(s[j + 1]) })     @@C14.fn.scalev
//@end

//@item src/functions.rs :: fn eval_function
//@ fragment-name arm_head
//@ fragment-inner
//@ fragment-from <<<        Function::Head => {>>>
//@ fragment-to <<<\n        }\n        Function::Tail => >>>
//@ fragment-head <<<fn arm_head(args: &ExprValue) -> Result<ExprValue> {>>>
//@ fragment-tail <<<}>>>
//@ replace[R-to-owned] <<<args[0].to_owned()>>> => <<<args[0].clone()>>>
//@ ensures
//@ - r is Ok
//@ - flat_of(*args).len() > 0 ==> r->Ok_0 == flat_of(*args)[0]     @@C14.fn.head
//@ - flat_of(*args).len() == 0 ==> r->Ok_0 is List && r->Ok_0->List_0@.len() == 0
//@end

//@item src/functions.rs :: fn eval_function
//@ fragment-name arm_tail
//@ fragment-inner
//@ fragment-from <<<        Function::Tail => {>>>
//@ fragment-to <<<\n        }\n        Function::Empty => >>>
//@ fragment-head <<<fn arm_tail(args: &ExprValue) -> Result<ExprValue> {>>>
//@ fragment-tail <<<}>>>
//@ replace[R-range] <<<args[1..args.len()].to_owned()>>> => <<<vec_range(&args, 1, args.len())>>>
//@ ensures
//@ - r is Ok && r->Ok_0 is List
//@ - flat_of(*args).len() >= 2 ==> r->Ok_0->List_0@ == flat_of(*args).subrange(1, flat_of(*args).len() as int)     @@C14.fn.tail
//@ - flat_of(*args).len() < 2 ==> r->Ok_0->List_0@.len() == 0
//@end

//@item src/functions.rs :: fn eval_function
//@ fragment-name arm_select
//@ fragment-inner
//@ fragment-from <<<        Function::Select => {>>>
//@ fragment-to <<<\n        }\n        Function::In => >>>
//@ fragment-head <<<fn arm_select(args: &ExprValue) -> Result<ExprValue> {>>>
//@ fragment-tail <<<}>>>
//@ replace[R-cast] <<<args[0].one_number()? as usize>>> => <<<r32_as_usize(args[0].one_number()?)>>>
//@ replace[R-range] <<<&args[1..]>>> => <<<slice_from(&args, 1)>>>
//@ replace[R-to-owned] <<<rest[n].to_owned()>>> => <<<rest[n].clone()>>>
//@ ensures
//@ - r is Ok ==> flat_of(*args).len() >= 2 && num1(flat_of(*args)[0]) is Some
//@ - r is Ok ==> ({ let f = flat_of(*args); let n = as_usize_spec(num1(f[0])->Some_0); n + 1 < f.len() && r->Ok_0 == f[n + 1] })     @@C14.fn.select
//@ - flat_of(*args).len() >= 2 && num1(flat_of(*args)[0]) is Some && as_usize_spec(num1(flat_of(*args)[0])->Some_0) + 1 >= flat_of(*args).len() ==> r is Err     @@C14.fn.select.range
//@end

//@item src/functions.rs :: fn eval_function
//@ fragment-name arm_in
//@ fragment-inner
//@ fragment-from <<<        Function::In => {>>>
//@ fragment-to <<<\n        }\n        Function::Abs => >>>
//@ fragment-head <<<fn arm_in(args: &ExprValue) -> Result<ExprValue> {\n    let e = {>>>
//@ fragment-tail <<<    };\n    Ok(e.into())\n}>>>
//@ replace[R-range] <<<&args[1..]>>> => <<<slice_from(&args, 1)>>>
//@ replace[R-itertools] <<<rest.iter().contains(&value)>>> => <<<slice_has(rest, value)>>>
//@ ensures
//@ - flat_of(*args).len() == 0 ==> r is Err
//@ - flat_of(*args).len() > 0 ==> is_num(r, b2r(flat_of(*args).subrange(1, flat_of(*args).len() as int).contains(flat_of(*args)[0])))     @@C14.fn.in
//@end

//@item src/functions.rs :: fn eval_function
//@ fragment-name arm_empty
//@ fragment-inner
//@ fragment-from <<<        Function::Empty => {>>>
//@ fragment-to <<<\n        }\n        Function::Count => >>>
//@ fragment-head <<<fn arm_empty(args: &ExprValue) -> Result<ExprValue> {\n    let e = {>>>
//@ fragment-tail <<<    };\n    Ok(e.into())\n}>>>
//@ ensures
//@ - is_num(r, b2r(args is List && args->List_0@.len() == 0))     @@C14.fn.empty
//@end

// ------------------------------------------------------------------------------ numeric arms (real model)
//@item src/functions.rs :: fn eval_function
//@ fragment-name arm_rect2polar
//@ fragment-inner
//@ fragment-from <<<        Function::Rect2Polar => {>>>
//@ fragment-to <<<\n        }\n        Function::Polar2Rect => >>>
//@ fragment-head <<<fn arm_rect2polar(args: &ExprValue) -> Result<ExprValue> {>>>
//@ fragment-tail <<<}>>>
//@ replace-re[R-pair] <<<\[(.+?), (.+?)\]\.as_slice\(\)\.into\(\)>>> => <<<pair_value(\1, \2)>>>
//@ ensures
//@ - (match num2(*args) { Some(p) => is_pair(r, rhypot(p.0, p.1), rto_degrees(ratan2(p.1, p.0))), None => r is Err })     @@C14.fn.r2p
//@end

//@item src/functions.rs :: fn eval_function
//@ fragment-name arm_polar2rect
//@ fragment-inner
//@ fragment-from <<<        Function::Polar2Rect => {>>>
//@ fragment-to <<<\n        }\n        Function::Addv => >>>
//@ fragment-head <<<fn arm_polar2rect(args: &ExprValue) -> Result<ExprValue> {>>>
//@ fragment-tail <<<}>>>
//@ replace-re[R-pair] <<<\[(.+?), (.+?)\]\.as_slice\(\)\.into\(\)>>> => <<<pair_value(\1, \2)>>>
//@ ensures
//@ - (match num2(*args) { Some(p) => is_pair(r, p.0 * rcos(rto_radians(p.1)), p.0 * rsin(rto_radians(p.1))), None => r is Err })     @@C14.fn.p2r
//@end


//@item src/functions.rs :: fn eval_function
//@ fragment-name arm_sign
//@ fragment-inner
//@ fragment-from <<<        Function::Sign => {>>>
//@ fragment-to <<<\n        }\n        Function::DivMod => >>>
//@ fragment-head <<<fn arm_sign(args: &ExprValue) -> Result<ExprValue> {\n    let e = {>>>
//@ fragment-tail <<<    };\n    Ok(e.into())\n}>>>
//@ ensures
//@ - (match num1(*args) { Some(x) => is_num(r, if x < 0real { -1real } else if x == 0real { 0real } else { 1real }), None => r is Err })     @@C14.fn.sign
//@end

//@item src/functions.rs :: fn eval_function
//@ fragment-name arm_clamp
//@ fragment-inner
//@ fragment-from <<<        Function::Clamp => {>>>
//@ fragment-to <<<\n        }\n        Function::Mix => >>>
//@ fragment-head <<<fn arm_clamp(args: &ExprValue) -> Result<ExprValue> {\n    let e = {>>>
//@ fragment-tail <<<    };\n    Ok(e.into())\n}>>>
//@ ensures
//@ - (match num3(*args) { Some(p) => if p.1 > p.2 { r is Err } else { is_num(r, if p.0 < p.1 { p.1 } else if p.0 > p.2 { p.2 } else { p.0 }) }, None => r is Err })     @@C14.fn.clamp
//@end

//@item src/functions.rs :: fn eval_function
//@ fragment-name arm_mix
//@ fragment-inner
//@ fragment-from <<<        Function::Mix => {>>>
//@ fragment-to <<<\n        }\n        Function::Equal => >>>
//@ fragment-head <<<fn arm_mix(args: &ExprValue) -> Result<ExprValue> {\n    let e = {>>>
//@ fragment-tail <<<    };\n    Ok(e.into())\n}>>>
//@ ensures
//@ - (match num3(*args) { Some(p) => is_num(r, p.0 * (1real - p.2) + p.1 * p.2), None => r is Err })     @@C14.fn.mix
//@end

//@item src/functions.rs :: fn eval_function
//@ fragment-name arm_lessthan
//@ fragment-inner
//@ fragment-from <<<        Function::LessThan => {>>>
//@ fragment-to <<<\n        }\n        Function::LessThanEqual => >>>
//@ fragment-head <<<fn arm_lessthan(args: &ExprValue) -> Result<ExprValue> {\n    let e = {>>>
//@ fragment-tail <<<    };\n    Ok(e.into())\n}>>>
//@ ensures
//@ - (match num2(*args) { Some(p) => is_num(r, b2r(p.0 < p.1)), None => r is Err })     @@C14.fn.lt
//@end

//@item src/functions.rs :: fn eval_function
//@ fragment-name arm_lessthanequal
//@ fragment-inner
//@ fragment-from <<<        Function::LessThanEqual => {>>>
//@ fragment-to <<<\n        }\n        Function::GreaterThan => >>>
//@ fragment-head <<<fn arm_lessthanequal(args: &ExprValue) -> Result<ExprValue> {\n    let e = {>>>
//@ fragment-tail <<<    };\n    Ok(e.into())\n}>>>
//@ ensures
//@ - (match num2(*args) { Some(p) => is_num(r, b2r(p.0 <= p.1)), None => r is Err })     @@C14.fn.le
//@end

//@item src/functions.rs :: fn eval_function
//@ fragment-name arm_greaterthan
//@ fragment-inner
//@ fragment-from <<<        Function::GreaterThan => {>>>
//@ fragment-to <<<\n        }\n        Function::GreaterThanEqual => >>>
//@ fragment-head <<<fn arm_greaterthan(args: &ExprValue) -> Result<ExprValue> {\n    let e = {>>>
//@ fragment-tail <<<    };\n    Ok(e.into())\n}>>>
//@ ensures
//@ - (match num2(*args) { Some(p) => is_num(r, b2r(p.0 > p.1)), None => r is Err })     @@C14.fn.gt
//@end

//@item src/functions.rs :: fn eval_function
//@ fragment-name arm_greaterthanequal
//@ fragment-inner
//@ fragment-from <<<        Function::GreaterThanEqual => {>>>
//@ fragment-to <<<\n        }\n        Function::If => >>>
//@ fragment-head <<<fn arm_greaterthanequal(args: &ExprValue) -> Result<ExprValue> {\n    let e = {>>>
//@ fragment-tail <<<    };\n    Ok(e.into())\n}>>>
//@ ensures
//@ - (match num2(*args) { Some(p) => is_num(r, b2r(p.0 >= p.1)), None => r is Err })     @@C14.fn.ge
//@end

//@item src/functions.rs :: fn eval_function
//@ fragment-name arm_not
//@ fragment-inner
//@ fragment-from <<<        Function::Not => {>>>
//@ fragment-to <<<\n        }\n        Function::And => >>>
//@ fragment-head <<<fn arm_not(args: &ExprValue) -> Result<ExprValue> {\n    let e = {>>>
//@ fragment-tail <<<    };\n    Ok(e.into())\n}>>>
//@ ensures
//@ - (match num1(*args) { Some(x) => is_num(r, b2r(x == 0real)), None => r is Err })     @@C14.fn.not
//@end

//@item src/functions.rs :: fn eval_function
//@ fragment-name arm_and
//@ fragment-inner
//@ fragment-from <<<        Function::And => {>>>
//@ fragment-to <<<\n        }\n        Function::Or => >>>
//@ fragment-head <<<fn arm_and(args: &ExprValue) -> Result<ExprValue> {\n    let e = {>>>
//@ fragment-tail <<<    };\n    Ok(e.into())\n}>>>
//@ ensures
//@ - (match num2(*args) { Some(p) => is_num(r, b2r(p.0 != 0real && p.1 != 0real)), None => r is Err })     @@C14.fn.and
//@end

//@item src/functions.rs :: fn eval_function
//@ fragment-name arm_or
//@ fragment-inner
//@ fragment-from <<<        Function::Or => {>>>
//@ fragment-to <<<\n        }\n        Function::Xor => >>>
//@ fragment-head <<<fn arm_or(args: &ExprValue) -> Result<ExprValue> {\n    let e = {>>>
//@ fragment-tail <<<    };\n    Ok(e.into())\n}>>>
//@ ensures
//@ - (match num2(*args) { Some(p) => is_num(r, b2r(p.0 != 0real || p.1 != 0real)), None => r is Err })     @@C14.fn.or
//@end

// ------------------------------------------------------------------------------ random(): arity and "advances exactly once"
/// ghost view of the generator: how many values have been drawn
pub struct RngState { pub draws: Ghost<nat>, pub rest: RngRest }
#[verifier::external_body] pub struct RngRest { _p: u8 }
/// R-abstract: `eval_state.context.get_rng().borrow_mut().random::<f32>()`
#[verifier::external_body]
pub fn next_random(rng: &mut RngState) -> (r: R32) ensures final(rng).draws@ == old(rng).draws@ + 1 { unimplemented!() }
//@item src/functions.rs :: fn eval_function
//@ fragment-name arm_random
//@ fragment-inner
//@ fragment-from <<<        Function::Random => {>>>
//@ fragment-to <<<\n        }\n        Function::RandInt => >>>
//@ fragment-head <<<fn arm_random(args: &ExprValue, rng: &mut RngState) -> Result<ExprValue> {\n    let e = {>>>
//@ fragment-tail <<<    };\n    Ok(e.into())\n}>>>
//@ replace[R-abstract] <<<eval_state.context.get_rng().borrow_mut().random::<f32>()>>> => <<<next_random(rng)>>>
//@ ensures
//@ - !(*args is List && args->List_0@.len() == 0) ==> r is Err && final(rng).draws@ == old(rng).draws@     @@C14.fn.random.wrong_arity_is_error
//@ - (*args is List && args->List_0@.len() == 0) ==> r is Ok && r->Ok_0 is Number && final(rng).draws@ == old(rng).draws@ + 1     @@C14.rng.once
//@end

} // verus!
fn main() {}
