//@unit attrmap
//@props C02 C05
// U-attrmap: the REAL AttrMap methods (src/types.rs) against the map view that every other unit
// ASSUMES in vx/prelude/attrmap.rs. The data invariant is "attribute names pairwise distinct"
// (C02: no element carries the same attribute twice - the writer emits the pairs of this vector
// one by one); every public mutator keeps it, and get / contains_key / pop / insert / insert_first /
// update answer and change exactly what the map view says (whole-view postconditions: the other
// names keep their values). With this unit the prelude's contracts are no longer free-standing
// assumptions: they are consequences of the real bodies plus the std facts listed below.
//@assume std: `it.position(|(k, _)| *k == key)` / `.find(..)` / `.any(..)` / `iter_mut().find(..)` locate the FIRST pair whose name equals the key (key_index); String equality is equality of the character sequences
//@assume std: `sort_by_key` is a stable sort: the result holds exactly the same pairs (a permutation), so names stay distinct and every name keeps its value (sorted_by_priority); the ORDER it establishes is not specified here
//@assume R-find-mut: `if let Some((_, v)) = self.attrs.iter_mut().find(|(k, _)| *k == key) { *v = value; }` is `if let Some(p) = key_index(..) { set_value(&mut self.attrs, p, value); }` (closures capturing by `&mut` pattern are not translated); R-into: `impl Into<String>` arguments are taken as `String` (the conversions of &str / &String / String are the identity on the character sequence)
//@assume SvgElement::new: R-tostring (`x.to_string()` on a `&String` / `&str` is a copy of the character sequence); R-abstract: the inner `for c in value.split(' ') { classes.insert(c.to_string()); }` is add_split_classes() (string tokenizer, opaque: it only touches the class list); R-fmt: the `original` text is an arbitrary string; AttrMap::clone returns an equal value
use vstd::prelude::*;
//@prelude fmt_macro
verus! {
//@prelude std_specs vecstr

//@item src/types.rs :: struct AttrMap
//@end

pub open spec fn keys_distinct(s: Seq<(String, String)>) -> bool {
    forall|i: int, j: int| 0 <= i < j < s.len() ==> (#[trigger] s[i]).0@ != (#[trigger] s[j]).0@
}
pub open spec fn key_at(s: Seq<(String, String)>, i: int, k: Seq<char>) -> bool { 0 <= i < s.len() && s[i].0@ == k }
pub open spec fn has_key(s: Seq<(String, String)>, k: Seq<char>) -> bool { exists|i: int| key_at(s, i, k) }
pub open spec fn idx_of(s: Seq<(String, String)>, k: Seq<char>) -> int { choose|i: int| key_at(s, i, k) }
pub open spec fn as_map(s: Seq<(String, String)>) -> Map<Seq<char>, Seq<char>>
    decreases s.len()
{
    if s.len() == 0 { Map::empty() } else { as_map(s.drop_last()).insert(s.last().0@, s.last().1@) }
}
pub proof fn lemma_as_map(s: Seq<(String, String)>)
    requires keys_distinct(s),
    ensures
        forall|k: Seq<char>| #[trigger] as_map(s).dom().contains(k) <==> has_key(s, k),
        forall|i: int| 0 <= i < s.len() ==> as_map(s).dom().contains(#[trigger] s[i].0@) && as_map(s)[s[i].0@] == s[i].1@,
    decreases s.len()
{
    if s.len() == 0 {
        assert forall|k: Seq<char>| !has_key(s, k) by { if has_key(s, k) { let i = choose|i: int| key_at(s, i, k); assert(key_at(s, i, k)); } }
    } else {
        let t = s.drop_last();
        let n = s.len() - 1;
        assert forall|i: int, j: int| 0 <= i < j < t.len() implies (#[trigger] t[i]).0@ != (#[trigger] t[j]).0@ by { assert(t[i] == s[i] && t[j] == s[j]); assert(s[i].0@ != s[j].0@); }
        lemma_as_map(t);
        assert forall|k: Seq<char>| #[trigger] as_map(s).dom().contains(k) <==> has_key(s, k) by {
            if has_key(s, k) {
                let i = choose|i: int| key_at(s, i, k); assert(key_at(s, i, k));
                if i < n { assert(t[i] == s[i]); assert(key_at(t, i, k)); assert(has_key(t, k)); }
            }
            if as_map(s).dom().contains(k) {
                if k == s[n].0@ { assert(key_at(s, n, k)); } else {
                    assert(s.last() == s[n]);
                    assert(as_map(s) == as_map(t).insert(s[n].0@, s[n].1@));
                    assert(as_map(t).dom().contains(k));
                    assert(has_key(t, k));
                    let i = choose|i: int| key_at(t, i, k); assert(key_at(t, i, k)); assert(t[i] == s[i]);
                    assert(key_at(s, i, k));
                }
            }
        }
        assert forall|i: int| 0 <= i < s.len() implies as_map(s).dom().contains(#[trigger] s[i].0@) && as_map(s)[s[i].0@] == s[i].1@ by {
            if i < n { assert(t[i] == s[i]); assert(s[i].0@ != s[n].0@); assert(as_map(t)[t[i].0@] == t[i].1@); }
        }
    }
}
pub open spec fn pair_in(s: Seq<(String, String)>, k: Seq<char>, v: Seq<char>) -> bool { exists|i: int| pair_at(s, i, k, v) }
pub open spec fn pair_at(s: Seq<(String, String)>, i: int, k: Seq<char>, v: Seq<char>) -> bool { 0 <= i < s.len() && s[i].0@ == k && s[i].1@ == v }
pub proof fn lemma_same_pairs_same_map(a: Seq<(String, String)>, b: Seq<(String, String)>)
    requires
        keys_distinct(a), keys_distinct(b),
        forall|i: int| 0 <= i < a.len() ==> pair_in(b, (#[trigger] a[i]).0@, a[i].1@),
        forall|j: int| 0 <= j < b.len() ==> pair_in(a, (#[trigger] b[j]).0@, b[j].1@),
    ensures as_map(a) =~= as_map(b),
{
    lemma_as_map(a);
    lemma_as_map(b);
    assert forall|k: Seq<char>| #![trigger as_map(a).dom().contains(k)] as_map(a).dom().contains(k) implies as_map(b).dom().contains(k) && as_map(a)[k] == as_map(b)[k] by {
        let i = idx_of(a, k); assert(key_at(a, i, k));
        assert(pair_in(b, a[i].0@, a[i].1@));
        let j = choose|j: int| pair_at(b, j, a[i].0@, a[i].1@);
        assert(pair_at(b, j, a[i].0@, a[i].1@));
        assert(as_map(b)[b[j].0@] == b[j].1@);
        assert(as_map(a)[a[i].0@] == a[i].1@);
    }
    assert forall|k: Seq<char>| #![trigger as_map(b).dom().contains(k)] as_map(b).dom().contains(k) implies as_map(a).dom().contains(k) by {
        let j = idx_of(b, k); assert(key_at(b, j, k));
        assert(pair_in(a, b[j].0@, b[j].1@));
        let i = choose|i: int| pair_at(a, i, b[j].0@, b[j].1@);
        assert(pair_at(a, i, b[j].0@, b[j].1@));
        assert(as_map(a).dom().contains(a[i].0@));
    }
}
pub open spec fn replaced_at(a: Seq<(String, String)>, b: Seq<(String, String)>, p: int, k: Seq<char>, v: Seq<char>) -> bool {
    0 <= p < a.len() && a[p].0@ == k && b.len() == a.len() && b[p].0@ == k && b[p].1@ == v
        && forall|i: int| 0 <= i < a.len() && i != p ==> #[trigger] b[i] == a[i]
}
pub open spec fn appended(a: Seq<(String, String)>, b: Seq<(String, String)>, k: Seq<char>, v: Seq<char>) -> bool {
    !has_key(a, k) && b.len() == a.len() + 1 && b[a.len() as int].0@ == k && b[a.len() as int].1@ == v
        && forall|i: int| 0 <= i < a.len() ==> #[trigger] b[i] == a[i]
}
pub proof fn lemma_insert_view(a: Seq<(String, String)>, b: Seq<(String, String)>, k: Seq<char>, v: Seq<char>)
    requires
        keys_distinct(a),
        (exists|p: int| replaced_at(a, b, p, k, v)) || appended(a, b, k, v),
    ensures keys_distinct(b), as_map(b) =~= as_map(a).insert(k, v),
{
    lemma_as_map(a);
    let rep = exists|p: int| replaced_at(a, b, p, k, v);
    let p = if rep { choose|p: int| replaced_at(a, b, p, k, v) } else { a.len() as int };
    assert(b[p].0@ == k && b[p].1@ == v);
    assert forall|i: int, j: int| 0 <= i < j < b.len() implies (#[trigger] b[i]).0@ != (#[trigger] b[j]).0@ by {
        if i < a.len() && j < a.len() { assert(a[i].0@ != a[j].0@); if rep { assert(a[p].0@ == k); } }
        else { assert(j == a.len()); assert(!key_at(a, i, k)); assert(b[i] == a[i]); }
    }
    lemma_as_map(b);
    let m = as_map(a).insert(k, v);
    assert forall|x: Seq<char>| #![trigger as_map(b).dom().contains(x)] as_map(b).dom().contains(x) implies m.dom().contains(x) && as_map(b)[x] == m[x] by {
        let i = idx_of(b, x); assert(key_at(b, i, x));
        assert(as_map(b)[b[i].0@] == b[i].1@);
        if x != k { assert(i != p); assert(i < a.len()); assert(b[i] == a[i]); assert(as_map(a)[a[i].0@] == a[i].1@); }
        else { if i < p { assert(b[i].0@ != b[p].0@); } else if p < i { assert(b[p].0@ != b[i].0@); } }
    }
    assert forall|x: Seq<char>| #![trigger m.dom().contains(x)] m.dom().contains(x) implies as_map(b).dom().contains(x) by {
        if x == k { assert(as_map(b).dom().contains(b[p].0@)); }
        else { let i = idx_of(a, x); assert(key_at(a, i, x)); assert(i != p); assert(b[i] == a[i]); assert(as_map(b).dom().contains(b[i].0@)); }
    }
    assert(as_map(b).dom() =~= m.dom());
    assert(as_map(b) =~= m);
}
pub proof fn lemma_remove_view(a: Seq<(String, String)>, p: int)
    requires keys_distinct(a), 0 <= p < a.len(),
    ensures keys_distinct(a.remove(p)), as_map(a.remove(p)) =~= as_map(a).remove(a[p].0@), as_map(a).dom().contains(a[p].0@), as_map(a)[a[p].0@] == a[p].1@,
{
    let b = a.remove(p);
    lemma_as_map(a);
    assert forall|i: int, j: int| 0 <= i < j < b.len() implies (#[trigger] b[i]).0@ != (#[trigger] b[j]).0@ by {
        let i2 = if i < p { i } else { i + 1 };
        let j2 = if j < p { j } else { j + 1 };
        assert(b[i] == a[i2] && b[j] == a[j2]);
        assert(a[i2].0@ != a[j2].0@);
    }
    lemma_as_map(b);
    let k = a[p].0@;
    let m = as_map(a).remove(k);
    assert forall|x: Seq<char>| #![trigger as_map(b).dom().contains(x)] as_map(b).dom().contains(x) implies m.dom().contains(x) && as_map(b)[x] == m[x] by {
        let i = idx_of(b, x); assert(key_at(b, i, x));
        let i2 = if i < p { i } else { i + 1 };
        assert(b[i] == a[i2]);
        if i2 < p { assert(a[i2].0@ != a[p].0@); } else { assert(a[p].0@ != a[i2].0@); }
        assert(as_map(b)[b[i].0@] == b[i].1@);
        assert(as_map(a)[a[i2].0@] == a[i2].1@);
    }
    assert forall|x: Seq<char>| #![trigger m.dom().contains(x)] m.dom().contains(x) implies as_map(b).dom().contains(x) by {
        let i = idx_of(a, x); assert(key_at(a, i, x)); assert(i != p);
        let i1 = if i < p { i } else { i - 1 };
        assert(b[i1] == a[i]);
        assert(as_map(b).dom().contains(b[i1].0@));
    }
    assert(as_map(a)[a[p].0@] == a[p].1@);
}

pub proof fn lemma_remove_any(a: Seq<(String, String)>)
    requires keys_distinct(a),
    ensures forall|p: int| 0 <= p < a.len() ==> keys_distinct(#[trigger] a.remove(p)) && as_map(a.remove(p)) =~= as_map(a).remove(a[p].0@) && as_map(a).dom().contains(a[p].0@) && as_map(a)[a[p].0@] == a[p].1@,
{
    assert forall|p: int| 0 <= p < a.len() implies keys_distinct(#[trigger] a.remove(p)) && as_map(a.remove(p)) =~= as_map(a).remove(a[p].0@) && as_map(a).dom().contains(a[p].0@) && as_map(a)[a[p].0@] == a[p].1@ by { lemma_remove_view(a, p); }
}
/// std: `v.iter().position(|(k, _)| *k == key)` (and find / any / iter_mut().find with the same predicate)
#[verifier::external_body]
pub fn key_index(v: &Vec<(String, String)>, key: &String) -> (r: Option<usize>)
    ensures
        (match r {
            Some(p) => p < v@.len() && v@[p as int].0@ == key@ && forall|i: int| 0 <= i < p ==> (#[trigger] v@[i]).0@ != key@,
            None => !has_key(v@, key@),
        })
{ unimplemented!() }
/// R-find-mut: `*v = value` through the `&mut` handed out by iter_mut().find(): the value of pair p is replaced, nothing else
#[verifier::external_body]
pub fn set_value(v: &mut Vec<(String, String)>, p: usize, value: String)
    requires p < old(v)@.len(),
    ensures
        final(v)@.len() == old(v)@.len(),
        final(v)@[p as int].0@ == old(v)@[p as int].0@ && final(v)@[p as int].1@ == value@,
        forall|i: int| 0 <= i < old(v)@.len() && i != p ==> #[trigger] final(v)@[i] == old(v)@[i],
{ unimplemented!() }
/// std: `v.sort_by_key(|(k, _)| Self::priority(k))` - a permutation of the pairs
#[verifier::external_body]
pub fn sorted_by_priority(v: &mut Vec<(String, String)>)
    ensures
        final(v)@.len() == old(v)@.len(),
        forall|i: int| 0 <= i < old(v)@.len() ==> pair_in(final(v)@, (#[trigger] old(v)@[i]).0@, old(v)@[i].1@),
        forall|j: int| 0 <= j < final(v)@.len() ==> pair_in(old(v)@, (#[trigger] final(v)@[j]).0@, final(v)@[j].1@),
        keys_distinct(old(v)@) ==> keys_distinct(final(v)@),
{ unimplemented!() }

impl AttrMap {
    pub open spec fn wf(&self) -> bool { keys_distinct(self.attrs@) }
    pub open spec fn view(&self) -> Map<Seq<char>, Seq<char>> { as_map(self.attrs@) }

//@item src/types.rs :: impl AttrMap :: fn new
//@ ensures
//@ - r.wf() && r@ =~= Map::<Seq<char>, Seq<char>>::empty()     @@C02.attrmap.new_empty
//@end

//@item src/types.rs :: impl AttrMap :: fn reorder
//@ replace[R-abstract] <<<self.attrs.sort_by_key(|(k, _)| Self::priority(k));>>> => <<<sorted_by_priority(&mut self.attrs);>>>
//@ requires
//@ - old(self).wf()
//@ ensures
//@ - final(self).wf()     @@C02.attrmap.reorder_keeps_names_distinct
//@ - final(self)@ =~= old(self)@     @@C02.attrmap.reorder_keeps_map
//@ before <<<}>>>
//@ | proof { lemma_same_pairs_same_map(old(self).attrs@, self.attrs@); }
//@end

//@item src/types.rs :: impl AttrMap :: fn insert
//@ replace[R-into] <<<key: impl Into<String>, value: impl Into<String>>>> => <<<key: String, value: String>>>
//@ replace[R-into] <<<let key = key.into();>>> => <<<let key: String = key;>>>
//@ replace[R-into] <<<let value = value.into();>>> => <<<let value: String = value;>>>
//@ replace[R-find-mut] <<<if let Some((_, v)) = self.attrs.iter_mut().find(|(k, _)| *k == key) {>>> => <<<let ghost key_g = key@; let ghost value_g = value@; let ghost mut gp_: int = -1;\n        if let Some(p_) = key_index(&self.attrs, &key) {>>>
//@ replace?[R-find-mut] <<<*v = value;>>> => <<<set_value(&mut self.attrs, p_, value); proof { gp_ = p_ as int; }>>>
//@ requires
//@ - old(self).wf()
//@ ensures
//@ - final(self).wf()     @@C02.attrmap.insert_keeps_names_distinct @@C05.attrmap.insert_keeps_names_distinct
//@ - final(self)@ =~= old(self)@.insert(key@, value@)     @@C02.attrmap.insert_is_map_insert
//@ before <<<self.reorder();>>>
//@ | proof {
//@ |     let a_ = old(self).attrs@; let b_ = self.attrs@; let n_ = a_.len() as int;
//@ |     if gp_ >= 0 {
//@ |         assert(replaced_at(a_, b_, gp_, key_g, value_g)); // a name already present keeps its single pair: the value is replaced in place @C02.attrmap.insert_keeps_names_distinct @C02.attrmap.insert_is_map_insert
//@ |     } else {
//@ |         assert(!has_key(a_, key_g)); // a pair is appended only for a name that is not there yet @C02.attrmap.insert_keeps_names_distinct
//@ |         assert(b_.len() == n_ + 1 && b_[n_].0@ == key_g && b_[n_].1@ == value_g); // the appended pair is the given one @C02.attrmap.insert_is_map_insert
//@ |         assert forall|i: int| 0 <= i < n_ implies #[trigger] b_[i] == a_[i] by { } // the other pairs are untouched @C02.attrmap.insert_is_map_insert
//@ |         assert(appended(a_, b_, key_g, value_g));
//@ |     }
//@ |     lemma_insert_view(a_, b_, key_g, value_g);
//@ | }
//@end

//@item src/types.rs :: impl AttrMap :: fn contains_key
//@ replace[R-into] <<<key: impl Into<String>>>> => <<<key: String>>>
//@ replace[R-into] <<<let key = key.into();>>> => <<<let key: String = key;>>>
//@ replace[R-abstract] <<<self.attrs.iter().any(|(k, _)| *k == key)>>> => <<<key_index(&self.attrs, &key).is_some()>>>
//@ requires
//@ - self.wf()
//@ ensures
//@ - r == self@.dom().contains(key@)     @@C02.attrmap.contains_key_is_domain
//@ before <<<let key: String = key;>>>
//@ | proof { lemma_as_map(self.attrs@); }
//@end

//@item src/types.rs :: impl AttrMap :: fn get
//@ replace[R-into] <<<key: impl Into<String>>>> => <<<key: String>>>
//@ replace[R-into] <<<let key = key.into();>>> => <<<let key: String = key;>>>
//@ replace[R-abstract] <<<self.attrs.iter().find(|(k, _)| *k == key).map(|(_, v)| v)>>> => <<<match key_index(&self.attrs, &key) { Some(p_) => Some(&self.attrs[p_].1), None => None }>>>
//@ requires
//@ - self.wf()
//@ ensures
//@ - (match r { Some(v) => self@.dom().contains(key@) && self@[key@] == v@, None => !self@.dom().contains(key@) })     @@C02.attrmap.get_is_map_lookup
//@ before <<<let key: String = key;>>>
//@ | proof { lemma_as_map(self.attrs@); }
//@end

//@item src/types.rs :: impl AttrMap :: fn pop
//@ replace[R-into] <<<key: impl Into<String>>>> => <<<key: String>>>
//@ replace[R-into] <<<let key = key.into();>>> => <<<let key: String = key;>>>
//@ replace[R-abstract] <<<self.attrs.iter().position(|(k, _)| *k == key)>>> => <<<key_index(&self.attrs, &key)>>>
//@ requires
//@ - old(self).wf()
//@ ensures
//@ - final(self).wf()     @@C02.attrmap.pop_keeps_names_distinct
//@ - (match r { Some(v) => old(self)@.dom().contains(key@) && old(self)@[key@] == v@, None => !old(self)@.dom().contains(key@) })     @@C02.attrmap.pop_returns_value
//@ - final(self)@ =~= old(self)@.remove(key@)     @@C02.attrmap.pop_is_map_remove
//@ before <<<let key: String = key;>>>
//@ | proof { lemma_as_map(self.attrs@); lemma_remove_any(self.attrs@); }
//@end

//@item src/types.rs :: impl AttrMap :: fn insert_first
//@ replace[R-into] <<<key: impl Into<String>, value: impl Into<String>>>> => <<<key: String, value: String>>>
//@ replace[R-into] <<<let key = key.into();>>> => <<<let key: String = key;>>>
//@ replace[R-into] <<<value.into()>>> => <<<value>>>
//@ replace?[R-clone] <<<self.contains_key(&key)>>> => <<<self.contains_key(key.clone())>>>
//@ requires
//@ - old(self).wf()
//@ ensures
//@ - final(self).wf()     @@C02.attrmap.insert_first_keeps_names_distinct
//@ - final(self)@ =~= (if old(self)@.dom().contains(key@) { old(self)@ } else { old(self)@.insert(key@, value@) })     @@C02.attrmap.insert_first_never_overwrites
//@end

//@item src/types.rs :: impl AttrMap :: fn update
//@ requires
//@ - old(self).wf()
//@ - other.wf()
//@ ensures
//@ - final(self).wf()     @@C02.attrmap.update_keeps_names_distinct
//@ - forall|i: int| 0 <= i < other.attrs@.len() ==> final(self)@.dom().contains(#[trigger] other.attrs@[i].0@) && final(self)@[other.attrs@[i].0@] == other.attrs@[i].1@     @@C02.attrmap.update_takes_every_pair
//@ - forall|k: Seq<char>| !has_key(other.attrs@, k) ==> (#[trigger] final(self)@.dom().contains(k) == old(self)@.dom().contains(k)) && (old(self)@.dom().contains(k) ==> final(self)@[k] == old(self)@[k])     @@C02.attrmap.update_frame
//@ before? <<<            self.insert(k.clone(), v.clone());>>>
//@ | proof { assert(key_at(other.attrs@, it.index@ as int, k@)); assert(has_key(other.attrs@, k@));
//@ |     assert(other.attrs@[it.index@ as int].0@ == k@ && other.attrs@[it.index@ as int].1@ == v@);
//@ |     assert forall|j: int| 0 <= j < it.index@ implies (#[trigger] other.attrs@[j]).0@ != k@ by { assert(other.attrs@[j].0@ != other.attrs@[it.index@ as int].0@); } }
//@ loop 1
//@ iter it
//@ invariant
//@ - other.wf()
//@ - self.wf()     @@C02.attrmap.update_keeps_names_distinct
//@ - forall|i: int| 0 <= i < it.index@ ==> self@.dom().contains(#[trigger] other.attrs@[i].0@) && self@[other.attrs@[i].0@] == other.attrs@[i].1@     @@C02.attrmap.update_takes_every_pair
//@ - forall|k: Seq<char>| !has_key(other.attrs@, k) ==> (#[trigger] self@.dom().contains(k) == old(self)@.dom().contains(k)) && (old(self)@.dom().contains(k) ==> self@[k] == old(self)@[k])     @@C02.attrmap.update_frame
//@end
}


// ------------------------------------------------------------------------------ SvgElement::new: where every element's attribute map is born
#[verifier::external_body] pub struct ClassList { _p: u8 }
#[verifier::external_body] pub struct OrderIndex { _p: u8 }
#[verifier::external_body] pub struct BoundingBox { _p: u8 }
impl ClassList { #[verifier::external_body] pub fn new() -> ClassList { unimplemented!() } }
impl OrderIndex { #[verifier::external_body] pub fn default() -> OrderIndex { unimplemented!() } }
impl Clone for AttrMap { #[verifier::external_body] fn clone(&self) -> (r: Self) ensures r == *self { unimplemented!() } }
/// R-abstract: `for c in value.split(' ') { classes.insert(c.to_string()); }`
#[verifier::external_body]
pub fn add_split_classes(classes: &mut ClassList, value: &String) { unimplemented!() }
/// R-tostring
#[verifier::external_body]
pub fn str_to_string(s: &str) -> (r: String) ensures r@ == s@ { unimplemented!() }

//@item src/element.rs :: struct SvgElement
//@end

/// the pairs of the input that are attributes (everything but `class`)
pub open spec fn attr_pair(s: Seq<(String, String)>, i: int) -> bool { 0 <= i < s.len() && s[i].0@ != "class"@ }
pub proof fn lemma_take_step(s: Seq<(String, String)>, n: int)
    requires 0 <= n < s.len(),
    ensures forall|k: Seq<char>| #[trigger] has_key(s.take(n + 1), k) <==> (has_key(s.take(n), k) || s[n].0@ == k),
{
    let a = s.take(n); let b = s.take(n + 1);
    assert forall|k: Seq<char>| #[trigger] has_key(b, k) <==> (has_key(a, k) || s[n].0@ == k) by {
        if has_key(b, k) { let i = choose|i: int| key_at(b, i, k); assert(key_at(b, i, k)); if i < n { assert(a[i] == b[i]); assert(key_at(a, i, k)); } }
        if has_key(a, k) { let i = choose|i: int| key_at(a, i, k); assert(key_at(a, i, k)); assert(a[i] == b[i]); assert(key_at(b, i, k)); }
        if s[n].0@ == k { assert(b[n] == s[n]); assert(key_at(b, n, k)); }
    }
}
/// no later pair of the input carries the same name (the LAST occurrence of a name decides its value: insert-or-update)
pub open spec fn last_of_its_name(s: Seq<(String, String)>, i: int) -> bool { forall|j: int| i < j < s.len() ==> (#[trigger] s[j]).0@ != s[i].0@ }

impl SvgElement {
//@rewrite strlit
//@item src/element.rs :: impl SvgElement :: fn new
//@ strlit "class"
//@ replace[R-strcmp] <<<if key == "class" {>>> => <<<if str_eq_lit(key, "class") {>>>
//@ cut[R-abstract] <<<                for c in value.split(' ') {>>> .. <<<                    classes.insert(c.to_string());\n                }>>> => <<<                add_split_classes(&mut classes, value);>>>
//@ replace[R-tostring] <<<attr_map.insert(key.to_string(), value.to_string());>>> => <<<attr_map.insert(key.clone(), value.clone());>>>
//@ replace[R-tostring] <<<name: name.to_string(),>>> => <<<name: str_to_string(name),>>>
//@ ensures
//@ - r.attrs.wf()     @@C02.attrmap.element_names_distinct @@C05.attrmap.element_names_distinct
//@ - !r.attrs@.dom().contains("class"@)     @@C02.class.never_an_attribute @@C05.class.never_an_attribute
//@ - forall|k: Seq<char>| #[trigger] r.attrs@.dom().contains(k) <==> (k != "class"@ && has_key(attrs@, k))     @@C02.attrmap.element_has_exactly_the_given_names
//@ - forall|i: int| attr_pair(attrs@, i) && last_of_its_name(attrs@, i) ==> r.attrs@[(#[trigger] attrs@[i]).0@] == attrs@[i].1@     @@C02.attrmap.element_values_as_given
//@ - r.name@ == name@
//@ before <<<        Self {>>>
//@ | proof { assert(attrs@.take(attrs@.len() as int) =~= attrs@); }
//@ loop 1
//@ iter it
//@ body-start
//@ | proof { lemma_take_step(attrs@, it.index@ as int); assert(attrs@.take(0).len() == 0); }
//@ invariant
//@ - attr_map.wf()     @@C02.attrmap.element_names_distinct
//@ - !attr_map@.dom().contains("class"@)     @@C02.class.never_an_attribute
//@ - forall|k: Seq<char>| #[trigger] attr_map@.dom().contains(k) <==> (k != "class"@ && has_key(attrs@.take(it.index@ as int), k))     @@C02.attrmap.element_has_exactly_the_given_names
//@ - forall|i: int| 0 <= i < it.index@ && attrs@[i].0@ != "class"@ && (forall|j: int| i < j < it.index@ ==> (#[trigger] attrs@[j]).0@ != attrs@[i].0@) ==> attr_map@[(#[trigger] attrs@[i]).0@] == attrs@[i].1@     @@C02.attrmap.element_values_as_given
//@end
//@rewrite -strlit
}
/// `key == "class"` with `key: &String` (String / str equality is equality of the character sequences)
#[verifier::external_body]
pub fn str_eq_lit(a: &String, b: &str) -> (r: bool) ensures r == (a@ == b@) { unimplemented!() }
} // verus!
fn main() {}
