//@unit other
//@props C09 C08
// U-other: the generator of ordinary shapes (OtherElement::generate_events, src/transform.rs):
// the element is registered after positioning, it becomes the "previous element" (the target of `^`)
// exactly when it has a bounding box - whatever its kind, points included - and a <point>
// contributes no box of its own to the enclosing extent.
//@assume resolve_position / transmute / element_events are opaque (their own contracts are in U-relpos, U-posattrs, U-text); get_element_bbox is a deterministic function of the registered elements and the element; R-abstract: the event adaptation loop (AttrMap iteration, class copying, data-src-line) is adapt_events()
use vstd::prelude::*;
//@prelude fmt_macro
verus! {
//@prelude std_specs r32 attrmap seqlemmas

pub enum SvgdxError { Other }
pub type Result<T> = core::result::Result<T, SvgdxError>;
#[verifier::external_body] pub struct ClassList { _p: u8 }
#[verifier::external_body] pub struct OrderIndex { _p: u8 }
#[verifier::external_body] pub struct OutputList { _p: u8 }
#[verifier::external_body] pub struct EventVec { _p: u8 }
#[verifier::external_body] pub struct CtxRest { _p: u8 }

//@rewrite f32 strlit strmatch
//@item src/position.rs :: struct BoundingBox
//@ keep-derive Clone Copy
//@end
//@item src/element.rs :: struct SvgElement
//@end
impl Clone for SvgElement { #[verifier::external_body] fn clone(&self) -> (r: Self) ensures r == *self { unimplemented!() } }
//@item src/transform.rs :: struct OtherElement
//@end

/// ghost: `registered` = elements passed to update_element, in order; `prev` = argument of the last set_prev_element
pub struct TransformerContext { pub registered: Ghost<Seq<SvgElement>>, pub prev: Ghost<Option<SvgElement>>, pub rest: CtxRest }
pub uninterp spec fn bbox_of(registered: Seq<SvgElement>, e: SvgElement) -> Option<BoundingBox>;

impl TransformerContext {
    #[verifier::external_body]
    pub fn update_element(&mut self, el: &SvgElement)
        ensures final(self).registered@ == old(self).registered@.push(*el), final(self).prev == old(self).prev
    { unimplemented!() }
    #[verifier::external_body]
    pub fn set_prev_element(&mut self, el: &SvgElement)
        ensures final(self).prev@ == Some(*el), final(self).registered == old(self).registered
    { unimplemented!() }
    #[verifier::external_body]
    pub fn get_element_bbox(&self, el: &SvgElement) -> (r: Result<Option<BoundingBox>>)
        ensures r is Ok ==> r->Ok_0 == bbox_of(self.registered@, *el)
    { unimplemented!() }
}
impl SvgElement {
    #[verifier::external_body]
    pub fn resolve_position(&mut self, context: &TransformerContext) -> (r: Result<()>) ensures final(self).name == old(self).name { unimplemented!() }
    #[verifier::external_body]
    pub fn transmute(&mut self, context: &TransformerContext) -> (r: Result<()>) ensures final(self).name == old(self).name { unimplemented!() }
    #[verifier::external_body]
    pub fn element_events(&self, context: &mut TransformerContext) -> (r: Result<EventVec>)
        ensures final(context).registered == old(context).registered, final(context).prev == old(context).prev
    { unimplemented!() }
}
impl OutputList { #[verifier::external_body] pub fn new() -> OutputList { unimplemented!() } }
/// R-abstract: the loop turning the element's events into output events
#[verifier::external_body]
pub fn adapt_events(output: &mut OutputList, events: EventVec, context: &TransformerContext) { unimplemented!() }

impl OtherElement {
//@item src/transform.rs :: impl EventGen for OtherElement :: fn generate_events
//@ strlit "point"
//@ cut[R-abstract] <<<        for svg_ev in events {>>> .. <<<            output.push(adapted);\n        }>>> => <<<        adapt_events(&mut output, events, context);>>>
//@ ensures
//@ - r is Ok ==> final(context).registered@.len() == old(context).registered@.len() + 1
//@       && final(context).registered@.drop_last() == old(context).registered@ && final(context).registered@.last().name == self.0.name     @@C09.prev.registered_once
//@ - r is Ok ==> ({ let e = final(context).registered@.last();
//@       if bbox_of(final(context).registered@, e) is Some { final(context).prev@ == Some(e) } else { final(context).prev == old(context).prev } })     @@C09.prev.tracked
//@ - r is Ok ==> r->Ok_0.1 == (if self.0.name@ == "point"@ { None } else { bbox_of(final(context).registered@, final(context).registered@.last()) })     @@C08.point.no_box
//@end
}

} // verus!
fn main() {}
