//@unit lookup
//@props C14 C01
// U-lookup: variable lookup with cycle detection (EvalState::lookup, src/expression.rs): a variable
// that is already being evaluated is an error (no unbounded recursion through `$a -> $b -> $a`),
// and the list of variables under evaluation is a stack: restored after a successful lookup
// (so `$v + $v` works and U-expr's assumption about lookup holds); the nested evaluation inherits the
// nesting depth, so that the bound of U-expr (C01.expr.nesting_bounded) covers chains of variable references.
//@assume tokenize / EvalState::new / expr_list / get_var are opaque here (expr_list is proved in U-expr); `xs.iter().contains(&String::from(v))` (itertools) is membership of v in xs
use vstd::prelude::*;
//@prelude fmt_macro
verus! {
//@prelude std_specs r32 seqlemmas

pub enum SvgdxError { ParseError(String), CircularRefError(String), Other }
pub type Result<T> = core::result::Result<T, SvgdxError>;
#[verifier::external_body] pub struct Ctx { _p: u8 }
#[verifier::external_body] pub struct Token { _p: u8 }

//@rewrite f32 strlit
//@item src/expression.rs :: enum ExprValue
//@end
//@item src/expression.rs :: struct EvalState
//@ replace[R-opaque-type] <<<&'a dyn ContextView>>> => <<<&'a Ctx>>>
//@end

pub open spec fn names(v: Seq<String>) -> Seq<Seq<char>> { v.map(|i: int, s: String| s@) }
pub uninterp spec fn var_of(ctx: Ctx, v: Seq<char>) -> Option<Seq<char>>;
impl Ctx {
    #[verifier::external_body]
    pub fn get_var(&self, v: &str) -> (r: Option<String>) ensures opt_sv(r) == var_of(*self, v@) { unimplemented!() }
}
pub open spec fn opt_sv(o: Option<String>) -> Option<Seq<char>> { match o { Some(s) => Some(s@), None => None } }
#[verifier::external_body] pub fn tokenize(s: &String) -> Result<Vec<Token>> { unimplemented!() }
/// itertools: `xs.iter().contains(&String::from(v))`
#[verifier::external_body]
pub fn vec_has(xs: &Vec<String>, v: &str) -> (r: bool) ensures r == names(xs@).contains(v@) { unimplemented!() }
#[verifier::external_body]
pub fn expr_list(es: &mut EvalState) -> (r: Result<ExprValue>) { unimplemented!() }

impl<'a> EvalState<'a> {
    /// the nested evaluation starts from the variables under evaluation INCLUDING the current one
    #[verifier::external_body]
    fn new(tokens: Vec<Token>, context: &'a Ctx, checked_vars: &Vec<String>) -> (r: EvalState<'a>)
        ensures r.checked_vars@ == checked_vars@, r.depth == 0
    { unimplemented!() }
    #[verifier::external_body]
    fn peek(&self) -> Option<&Token> { unimplemented!() }

//@item src/expression.rs :: impl<'a> EvalState<'a> :: fn lookup
//@ replace[R-itertools] <<<self.checked_vars.iter().contains(&String::from(v))>>> => <<<vec_has(&self.checked_vars, v)>>>
//@ before <<<let e = expr_list(&mut es)?;>>>
//@ | assert(es.depth == self.depth); // the nested evaluation continues the caller's nesting count (a chain of variable references is bounded like nested parentheses) @C01.expr.nested_eval_inherits_depth
//@ ensures
//@ - final(self).depth == old(self).depth     @@C01.expr.depth_restored
//@ - names(old(self).checked_vars@).contains(v@) ==> r is Err && r->Err_0 is CircularRefError     @@C14.var.circular_is_error @@C01.var.cycle_detected
//@ - var_of(*old(self).context, v@) is None ==> r is Err     @@C14.var.undefined_is_error
//@ - r is Ok ==> final(self).checked_vars@ == old(self).checked_vars@ && final(self).index == old(self).index && final(self).tokens == old(self).tokens     @@C14.var.checked_restored
//@end
}

} // verus!
fn main() {}
