//@unit polybox
//@props C08 C10
// U-polybox: the bounding box of a polyline / polygon (the "polyline" | "polygon" arm of
// SvgElement::bbox_raw, src/element.rs, extracted as a fragment): the numbers of `points` in order of
// appearance alternate x, y ACROSS the whole attribute (whatever mixture of blanks and commas separates
// them), the box is min / max per parity, at least one x and one y are needed, and a token that is
// not a number (e.g. a still unresolved `#a@c`) is an ERROR - so the element is retried - never skipped.
//@assume `points.split_whitespace()`, `group.split(',')` and `str::trim` are deterministic functions (ws_split / comma_split / trim_of, uninterpreted); the attribute holds fewer than i32::MAX numbers (the counter `idx` is an i32: precondition); real-number model; f32::MAX / f32::MIN are just two constants
use vstd::prelude::*;
//@prelude fmt_macro
verus! {
//@prelude std_specs r32 attrmap

pub enum SvgdxError { ParseError(String), Other }
pub type Result<T> = core::result::Result<T, SvgdxError>;
#[verifier::external_body] pub struct ClassList { _p: u8 }
#[verifier::external_body] pub struct OrderIndex { _p: u8 }

//@rewrite f32 strlit continue
//@item src/position.rs :: struct BoundingBox
//@ keep-derive Clone Copy
//@end
//@item src/element.rs :: struct SvgElement
//@end
impl BoundingBox {
//@item src/position.rs :: impl BoundingBox :: fn new
//@ ensures
//@ - r.x1 == x1 && r.y1 == y1 && r.x2 == x2 && r.y2 == y2
//@end
}

pub type S = Seq<char>;
pub uninterp spec fn ws_split(s: S) -> Seq<S>;
pub uninterp spec fn comma_split(s: S) -> Seq<S>;
pub uninterp spec fn trim_of(s: S) -> S;
pub uninterp spec fn strp_spec(s: S) -> Option<real>;
pub uninterp spec fn max_val() -> real;
pub uninterp spec fn min_val() -> real;
#[verifier::external_body] pub fn r32_max() -> (r: R32) ensures val(r) == max_val() { unimplemented!() }
#[verifier::external_body] pub fn r32_min() -> (r: R32) ensures val(r) == min_val() { unimplemented!() }
#[verifier::external_body]
pub fn strp(s: &str) -> (r: Result<R32>) ensures (match strp_spec(s@) { Some(x) => r is Ok && val(r->Ok_0) == x, None => r is Err }) { unimplemented!() }
#[verifier::external_body]
pub fn ws_tokens(s: &String) -> (r: Vec<String>) ensures r@.map(|i: int, x: String| x@) == ws_split(s@) { unimplemented!() }
#[verifier::external_body]
pub fn comma_tokens(s: &String) -> (r: Vec<String>) ensures r@.map(|i: int, x: String| x@) == comma_split(s@) { unimplemented!() }
#[verifier::external_body]
pub fn trim_str(s: &String) -> (r: String) ensures r@ == trim_of(s@) { unimplemented!() }
#[verifier::external_body]
pub fn str_is_empty(s: &String) -> (r: bool) ensures r == (s@.len() == 0) { unimplemented!() }

/// the non-empty trimmed tokens of the first m comma-separated pieces of one blank-separated group
pub open spec fn group_tokens(cs: Seq<S>, m: int) -> Seq<S> decreases m {
    if m <= 0 { Seq::<S>::empty() } else { let t = trim_of(cs[m - 1]); if t.len() == 0 { group_tokens(cs, m - 1) } else { group_tokens(cs, m - 1).push(t) } }
}
/// ... of the first n groups: the numbers of the attribute in order of appearance
pub open spec fn tokens_upto(gs: Seq<S>, n: int) -> Seq<S> decreases n {
    if n <= 0 { Seq::<S>::empty() } else { tokens_upto(gs, n - 1) + group_tokens(comma_split(gs[n - 1]), comma_split(gs[n - 1]).len() as int) }
}
pub open spec fn tokens(points: S) -> Seq<S> { tokens_upto(ws_split(points), ws_split(points).len() as int) }
pub open spec fn all_numbers(ts: Seq<S>) -> bool { forall|i: int| 0 <= i < ts.len() ==> strp_spec(#[trigger] ts[i]) is Some }
pub open spec fn num_at(ts: Seq<S>, i: int) -> real { strp_spec(ts[i])->Some_0 }
/// running min / max over the positions of one parity among the first n tokens, starting from `init`
pub open spec fn fold_min(ts: Seq<S>, par: int, n: int, init: real) -> real decreases n {
    if n <= 0 { init } else if (n - 1) % 2 == par { rmin(fold_min(ts, par, n - 1, init), num_at(ts, n - 1)) } else { fold_min(ts, par, n - 1, init) }
}
pub open spec fn fold_max(ts: Seq<S>, par: int, n: int, init: real) -> real decreases n {
    if n <= 0 { init } else if (n - 1) % 2 == par { rmax(fold_max(ts, par, n - 1, init), num_at(ts, n - 1)) } else { fold_max(ts, par, n - 1, init) }
}


// ---- lemmas: the token sequence only grows, folds only look at the tokens they have seen
pub proof fn lemma_gt_prefix(cs: Seq<S>, k: int, m: int)
    requires 0 <= k <= m
    ensures group_tokens(cs, k).is_prefix_of(group_tokens(cs, m))
    decreases m - k
{
    if k < m {
        lemma_gt_prefix(cs, k, m - 1);
        let a = group_tokens(cs, k); let b = group_tokens(cs, m - 1); let c = group_tokens(cs, m);
        assert(b.is_prefix_of(c)) by { if trim_of(cs[m - 1]).len() != 0 { assert(c == b.push(trim_of(cs[m - 1]))); } };
        assert(a.is_prefix_of(c)) by { assert(a.len() <= c.len()); assert forall|i: int| 0 <= i < a.len() implies a[i] == c[i] by { assert(a[i] == b[i]); assert(b[i] == c[i]); } };
    }
}
pub proof fn lemma_tu_prefix(gs: Seq<S>, n: int, m: int)
    requires 0 <= n <= m
    ensures tokens_upto(gs, n).is_prefix_of(tokens_upto(gs, m))
    decreases m - n
{
    if n < m {
        lemma_tu_prefix(gs, n, m - 1);
        let a = tokens_upto(gs, n); let b = tokens_upto(gs, m - 1); let c = tokens_upto(gs, m);
        assert(b.is_prefix_of(c));
        assert(a.is_prefix_of(c)) by { assert forall|i: int| 0 <= i < a.len() implies a[i] == c[i] by { assert(a[i] == b[i]); assert(b[i] == c[i]); } };
    }
}
/// everything read so far (complete groups + part of the current one) is a prefix of all the tokens
pub proof fn lemma_progress_prefix(points: S, gi: int, k: int)
    requires 0 <= gi < ws_split(points).len(), 0 <= k <= comma_split(ws_split(points)[gi]).len()
    ensures (tokens_upto(ws_split(points), gi) + group_tokens(comma_split(ws_split(points)[gi]), k)).is_prefix_of(tokens(points))
{
    let gs = ws_split(points); let cs = comma_split(gs[gi]);
    lemma_gt_prefix(cs, k, cs.len() as int);
    lemma_tu_prefix(gs, gi + 1, gs.len() as int);
    let a = tokens_upto(gs, gi); let part = group_tokens(cs, k); let full = group_tokens(cs, cs.len() as int);
    let b = tokens_upto(gs, gi + 1); let t = tokens(points);
    assert(b == a + full);
    assert((a + part).is_prefix_of(b)) by { assert forall|i: int| 0 <= i < (a + part).len() implies (a + part)[i] == b[i] by { if i >= a.len() { assert(part[i - a.len()] == full[i - a.len()]); } } };
    assert((a + part).is_prefix_of(t)) by { assert forall|i: int| 0 <= i < (a + part).len() implies (a + part)[i] == t[i] by { assert((a + part)[i] == b[i]); assert(b[i] == t[i]); } };
}
pub proof fn lemma_fold_push(ts: Seq<S>, x: S, par: int, n: int, init: real)
    requires 0 <= n <= ts.len()
    ensures fold_min(ts.push(x), par, n, init) == fold_min(ts, par, n, init), fold_max(ts.push(x), par, n, init) == fold_max(ts, par, n, init)
    decreases n
{
    if n > 0 { lemma_fold_push(ts, x, par, n - 1, init); assert(ts.push(x)[n - 1] == ts[n - 1]); }
}

impl SvgElement {
//@item src/element.rs :: impl SvgElement :: fn bbox_raw
//@ strlit "points"
//@ fragment-name polyline_box
//@ fragment-from <<<                let mut min_x = f32::MAX;>>>
//@ fragment-to <<<                        None // Insufficient points for bbox\n                    }\n                } else {\n                    None\n                }>>>
//@ fragment-head <<<fn polyline_box(&self) -> Result<Option<BoundingBox>> {\n    let r_ = {>>>
//@ fragment-tail <<<    };\n    Ok(r_)\n}>>>
//@ replace-all[R-const] <<<f32::MAX>>> => <<<r32_max()>>>
//@ replace-all[R-const] <<<f32::MIN>>> => <<<r32_min()>>>
//@ replace[R-typeann] <<<let mut idx = 0;>>> => <<<let mut idx: i32 = 0;>>>
//@ replace[R-tokens] <<<for point_ws in points.split_whitespace() {>>> => <<<let groups_ = ws_tokens(points);\n                    for point_ws in groups_ {>>>
//@ replace[R-tokens] <<<for point in point_ws.split(',') {>>> => <<<let pieces_ = comma_tokens(&point_ws);\n                        for point in pieces_ {>>>
//@ replace[R-tokens] <<<let point = point.trim();>>> => <<<let point = trim_str(&point);>>>
//@ replace[R-tokens] <<<if point.is_empty() {>>> => <<<if str_is_empty(&point) {>>>
//@ replace-re[R-tokens] <<<strp\(point\)>>> => <<<strp(point.as_str())>>>
//@ before <<<let groups_ = ws_tokens(points);>>>
//@ | let ghost g_pts = points@;
//@ before <<<for point_ws in groups_ {>>>
//@ | let ghost g_gs = ws_split(g_pts);
//@ | let ghost mut g_ts: Seq<S> = Seq::empty();
//@ | let ghost g_hi = max_val();
//@ | let ghost g_lo = min_val();
//@ before <<<for point in pieces_ {>>>
//@ | let ghost g_cs = comma_split(point_ws@);
//@ | let ghost g_t0 = g_ts;
//@ | let ghost g_gi = it.index@;
//@ | proof {
//@ |     let allg = (it.history@ + vstd::std_specs::iter::IteratorSpec::remaining(&it.iter)).map(|i: int, x: String| x@);
//@ |     assert(allg[it.index@] == point_ws@);
//@ |     assert(g_gs[g_gi] == point_ws@);
//@ |     assert(g_t0 + group_tokens(g_cs, 0) =~= g_t0);
//@ |     lemma_progress_prefix(g_pts, g_gi, 0);
//@ | }
//@ after <<<let point = trim_str(&point);>>>
//@ | let ghost g_tok = point@;
//@ | proof {
//@ |     let allc = (it2.history@ + vstd::std_specs::iter::IteratorSpec::remaining(&it2.iter)).map(|i: int, x: String| x@);
//@ |     assert(allc[it2.index@] == g_cs[it2.index@]);
//@ |     assert(g_tok == trim_of(g_cs[it2.index@]));
//@ |     lemma_progress_prefix(g_pts, g_gi, it2.index@ + 1);
//@ |     if g_tok.len() == 0 { assert(group_tokens(g_cs, it2.index@ + 1) == group_tokens(g_cs, it2.index@)); }
//@ |     else {
//@ |         // the token about to be parsed is token number g_ts.len() of the attribute
//@ |         let all = tokens(g_pts);
//@ |         let pre = g_t0 + group_tokens(g_cs, it2.index@ + 1);
//@ |         assert(group_tokens(g_cs, it2.index@ + 1) == group_tokens(g_cs, it2.index@).push(g_tok));
//@ |         assert(pre =~= g_ts.push(g_tok));
//@ |         assert(pre[g_ts.len() as int] == all[g_ts.len() as int]);
//@ |         assert(all[g_ts.len() as int] == g_tok);
//@ |     }
//@ | }
//@ after <<<                            idx += 1;>>>
//@ | proof {
//@ |     let old_ts = g_ts;
//@ |     g_ts = g_ts.push(g_tok);
//@ |     assert(g_ts =~= g_t0 + group_tokens(g_cs, it2.index@ + 1));
//@ |     lemma_fold_push(old_ts, g_tok, 0, old_ts.len() as int, g_hi); lemma_fold_push(old_ts, g_tok, 1, old_ts.len() as int, g_hi);
//@ |     lemma_fold_push(old_ts, g_tok, 0, old_ts.len() as int, g_lo); lemma_fold_push(old_ts, g_tok, 1, old_ts.len() as int, g_lo);
//@ |     assert(g_ts[old_ts.len() as int] == g_tok);
//@ |     assert(all_numbers(g_ts)) by { assert forall|i: int| 0 <= i < g_ts.len() implies strp_spec(#[trigger] g_ts[i]) is Some by { if i < old_ts.len() { assert(g_ts[i] == old_ts[i]); } } };
//@ | }
//@ requires
//@ - self.attrs@.dom().contains("points"@) ==> tokens(self.attrs@["points"@]).len() < i32::MAX
//@ ensures
//@ - !self.attrs@.dom().contains("points"@) ==> r is Ok && r->Ok_0 is None
//@ - self.attrs@.dom().contains("points"@) && !all_numbers(tokens(self.attrs@["points"@])) ==> r is Err     @@C10.polyline.unresolved_is_error @@C08.polyline.unresolved_is_error
//@ - self.attrs@.dom().contains("points"@) && all_numbers(tokens(self.attrs@["points"@])) ==> r is Ok && ({
//@       let ts = tokens(self.attrs@["points"@]); let n = ts.len() as int;
//@       if n < 2 { r->Ok_0 is None } else { r->Ok_0 is Some && ({ let b = r->Ok_0->Some_0;
//@           val(b.x1) == fold_min(ts, 0, n, max_val()) && val(b.y1) == fold_min(ts, 1, n, max_val())
//@           && val(b.x2) == fold_max(ts, 0, n, min_val()) && val(b.y2) == fold_max(ts, 1, n, min_val()) }) } })     @@C08.polyline.extent
//@ loop 1
//@ iter it
//@ invariant
//@ - self.attrs@.dom().contains("points"@)
//@ - g_pts == self.attrs@["points"@] && g_gs == ws_split(g_pts) && g_hi == max_val() && g_lo == min_val()
//@ - tokens(g_pts).len() < i32::MAX
//@ - g_gs == (it.history@ + vstd::std_specs::iter::IteratorSpec::remaining(&it.iter)).map(|i: int, x: String| x@)
//@ - it.index@ == it.history@.len() && it.index@ <= g_gs.len()
//@ - g_ts == tokens_upto(g_gs, it.index@)
//@ - all_numbers(g_ts)
//@ - idx == g_ts.len()
//@ - has_x == (idx >= 1) && has_y == (idx >= 2)
//@ - val(min_x) == fold_min(g_ts, 0, idx as int, g_hi) && val(min_y) == fold_min(g_ts, 1, idx as int, g_hi)
//@ - val(max_x) == fold_max(g_ts, 0, idx as int, g_lo) && val(max_y) == fold_max(g_ts, 1, idx as int, g_lo)
//@ loop 2
//@ iter it2
//@ invariant
//@ - self.attrs@.dom().contains("points"@) && g_pts == self.attrs@["points"@]
//@ - g_hi == max_val() && g_lo == min_val()
//@ - g_cs == (it2.history@ + vstd::std_specs::iter::IteratorSpec::remaining(&it2.iter)).map(|i: int, x: String| x@)
//@ - it2.index@ == it2.history@.len() && it2.index@ <= g_cs.len()
//@ - g_ts == g_t0 + group_tokens(g_cs, it2.index@)
//@ - 0 <= g_gi < ws_split(g_pts).len() && g_cs == comma_split(ws_split(g_pts)[g_gi]) && g_t0 == tokens_upto(ws_split(g_pts), g_gi)
//@ - g_ts.is_prefix_of(tokens(g_pts)) && tokens(g_pts).len() < i32::MAX
//@ - all_numbers(g_ts)
//@ - idx == g_ts.len()
//@ - has_x == (idx >= 1) && has_y == (idx >= 2)
//@ - val(min_x) == fold_min(g_ts, 0, idx as int, g_hi) && val(min_y) == fold_min(g_ts, 1, idx as int, g_hi)
//@ - val(max_x) == fold_max(g_ts, 0, idx as int, g_lo) && val(max_y) == fold_max(g_ts, 1, idx as int, g_lo)
//@end
}

} // verus!
fn main() {}
