//@unit config
//@props C17 C14
// U-config: the <config> element (ConfigElement::generate_events, src/transform.rs) starts from the
// configuration IN FORCE and changes only the settings it names: a loop / var / depth limit given on
// the command line or by an earlier <config> keeps applying unless this element sets it again.
//@assume str::parse results are arbitrary (R-parse: `value.parse()?` is parse_any(value)?); `x.clone_from(value)` is `x = value.clone()`; R-iter-vec: `for (key, value) in &self.0.attrs` iterates the map's pairs (attr_pairs); set_config stores the configuration it is given (its other effects: U-themeorder)
use vstd::prelude::*;
//@prelude fmt_macro
verus! {
//@prelude std_specs r32 attrmap

pub enum SvgdxError { InvalidData(String), ParseError(String), Other }
pub type Result<T> = core::result::Result<T, SvgdxError>;
#[verifier::external_body] pub struct ClassList { _p: u8 }
#[verifier::external_body] pub struct OrderIndex { _p: u8 }
#[verifier::external_body] pub struct OutputList { _p: u8 }
#[verifier::external_body] pub struct CtxRest { _p: u8 }
pub struct BoundingBox { pub x1: R32, pub y1: R32, pub x2: R32, pub y2: R32 }

//@rewrite f32 strlit strmatch
//@item src/themes.rs :: enum ThemeType
//@ keep-derive Clone Copy
//@end
//@item src/lib.rs :: struct TransformConfig
//@end
impl TransformConfig {
    /// the built-in defaults (loop-limit 1000, var-limit 1024, depth-limit 100, ...): just some configuration here
    #[verifier::external_body] pub fn default() -> TransformConfig { unimplemented!() }
}
impl Clone for TransformConfig { #[verifier::external_body] fn clone(&self) -> (r: Self) ensures r == *self { unimplemented!() } }
//@item src/element.rs :: struct SvgElement
//@end
//@item src/transform.rs :: struct ConfigElement
//@end
pub struct TransformerContext { pub config: TransformConfig, pub rest: CtxRest }
/// the state of the context's random generator (what the next random() / randint() draws depend on)
pub uninterp spec fn rng_state(c: CtxRest) -> int;
pub uninterp spec fn fresh_rng(seed: u64) -> int;
impl TransformerContext {
    /// (proved in U-themeorder: C06.rng.seeded_from_config)
    #[verifier::external_body]
    pub fn set_config(&mut self, config: TransformConfig) ensures final(self).config == config, rng_state(final(self).rest) == fresh_rng(config.seed) { unimplemented!() }
    /// (proved in U-themeorder: C14.config.update_keeps_random_sequence)
    #[verifier::external_body]
    pub fn update_config(&mut self, config: TransformConfig, reseed: bool)
        ensures final(self).config == config, rng_state(final(self).rest) == (if reseed { fresh_rng(config.seed) } else { rng_state(old(self).rest) })
    { unimplemented!() }
}
impl SvgElement {
    #[verifier::external_body] pub fn has_attr(&self, key: &str) -> (r: bool) ensures r == self.attrs@.dom().contains(key@) { unimplemented!() }
}
impl OutputList { #[verifier::external_body] pub fn new() -> OutputList { unimplemented!() } }
#[verifier::external_body]
pub fn attr_pairs(m: &AttrMap) -> (r: Vec<(String, String)>)
    ensures forall|i: int| 0 <= i < r@.len() ==> m@.dom().contains((#[trigger] r@[i]).0@)
{ unimplemented!() }
/// R-parse: `value.parse()?` with the error converted by `?`
#[verifier::external_body]
pub fn parse_any<T>(s: &String) -> (r: Result<T>) { unimplemented!() }

/// one of the first n pairs names the setting k
pub open spec fn named(ps: Seq<(String, String)>, n: int, k: Seq<char>) -> bool { exists|i: int| 0 <= i < n && (#[trigger] ps[i]).0@ == k }

impl ConfigElement {
//@item src/transform.rs :: impl EventGen for ConfigElement :: fn generate_events
//@ replace[R-iter-vec] <<<for (key, value) in &self.0.attrs {>>> => <<<let pairs_ = attr_pairs(&self.0.attrs);\n        for (key, value) in pairs_ {>>>
//@ replace-re[R-parse] <<<value\.parse\(\)\?>>> => <<<parse_any(&value)?>>>
//@ replace-re[R-clonefrom] <<<new_config\.(\w+)\.clone_from\(value\)>>> => <<<new_config.\1 = value.clone()>>>
//@ before <<<for (key, value) in pairs_ {>>>
//@ | let ghost g_old = context.config;
//@ | let ghost g_all = pairs_@;
//@ ensures
//@ - r is Ok && !self.0.attrs@.dom().contains("loop-limit"@) ==> final(context).config.loop_limit == old(context).config.loop_limit     @@C17.config.loop_limit_persists
//@ - r is Ok && !self.0.attrs@.dom().contains("var-limit"@) ==> final(context).config.var_limit == old(context).config.var_limit     @@C17.config.var_limit_persists
//@ - r is Ok && !self.0.attrs@.dom().contains("depth-limit"@) ==> final(context).config.depth_limit == old(context).config.depth_limit     @@C17.config.depth_limit_persists
//@ - r is Err ==> final(context).config == old(context).config     @@C17.config.error_changes_nothing
//@ - r is Ok && !self.0.attrs@.dom().contains("seed"@) ==> rng_state(final(context).rest) == rng_state(old(context).rest)     @@C14.config.random_sequence_continues
//@ - r is Ok && self.0.attrs@.dom().contains("seed"@) ==> rng_state(final(context).rest) == fresh_rng(final(context).config.seed)     @@C14.config.seed_restarts_sequence
//@ - r is Err ==> rng_state(final(context).rest) == rng_state(old(context).rest)     @@C14.config.error_changes_nothing
//@ loop 1
//@ iter it
//@ body-start
//@ | proof {
//@ |     assert(g_all[it.index@] == (key, value));
//@ |     assert(self.0.attrs@.dom().contains(key@));
//@ | }
//@ invariant
//@ - context.config == g_old && g_old == old(context).config
//@ - g_all == it.history@ + vstd::std_specs::iter::IteratorSpec::remaining(&it.iter)
//@ - forall|i: int| 0 <= i < g_all.len() ==> self.0.attrs@.dom().contains((#[trigger] g_all[i]).0@)
//@ - it.index@ == it.history@.len()
//@ - !self.0.attrs@.dom().contains("loop-limit"@) ==> new_config.loop_limit == g_old.loop_limit
//@ - !self.0.attrs@.dom().contains("var-limit"@) ==> new_config.var_limit == g_old.var_limit
//@ - !self.0.attrs@.dom().contains("depth-limit"@) ==> new_config.depth_limit == g_old.depth_limit
//@end
}

} // verus!
fn main() {}
