//@unit relpos
//@props C09 C11 C10
// U-relpos: direction-relative placement (`|h |H |v |V`), the order of the positioning pipeline
// (an element's own size is FINAL before it is placed beside another one), shorthand expansion
// (wh/rxy/dwh, xy/cxy/xy1/xy2/dxy, xy-loc anchor table) and dw/dh application.
// src/element.rs: eval_rel_position (placement fragment), place_at, expand_compound_size,
// expand_compound_pos, resolve_size_delta, resolve_position. Real-number model.
//@assume fstr/strp/strp_length/split_compound_attr are deterministic functions of their string (uninterpreted); BoundingBox::locspec meets loc_point and Length::adjust meets adjust_len (both proved in U-geom); eval_rel_attributes rewrites only the VALUES of attributes already present (iterates a clone of the attribute map and inserts under the same key); eval_text_anchor only adds a default text-loc
//@assume R-abstract in resolve_size_delta: `self.get_attr(a).and_then(|v| strp(&v).ok()).map(|v| v * scale)` is scaled_num(); `strp_length(..).map(|dw| w.map(|x| dw.adjust(x)))` is adjusted() with the meaning written in adjust_spec
//@assume pos_attr_helper / eval_size_attr: `split_once(' ')`, `strip_prefix(SEP)`, `str::parse`, extract_dx_dy and the reference lookup (split_relspec + get_element_bbox) are deterministic partial functions of their string (uninterpreted); BoundingBox::scalarspec meets scalar_of (proved in U-geom)
//@assume R-abstract in resolve_position: points/d relspec expansion and the `use` target-size adjustment are opaque helpers that leave the attribute map / Position otherwise unconstrained
use vstd::prelude::*;
//@prelude fmt_macro
verus! {
//@prelude std_specs r32 attrmap pending

pub enum SvgdxError { InvalidData(String), MissingBoundingBox(String), ParseError(String), ReferenceError(String), Other }
pub type Result<T> = core::result::Result<T, SvgdxError>;
#[verifier::external_body] pub struct ClassList { _p: u8 }
#[verifier::external_body] pub struct OrderIndex { _p: u8 }
#[verifier::external_body] pub struct Ctx { _p: u8 }
#[verifier::external_body] pub struct Position { _p: u8 }

//@rewrite f32 strlit strmatch
//@item src/position.rs :: enum Length
//@ keep-derive Clone Copy
//@end
//@item src/position.rs :: enum LocSpec
//@ keep-derive Clone Copy
//@end
//@item src/position.rs :: enum DirSpec
//@ keep-derive Clone Copy
//@end
//@item src/position.rs :: struct BoundingBox
//@ keep-derive Clone Copy
//@end
//@item src/position.rs :: enum ScalarSpec
//@ keep-derive Clone Copy
//@end
//@item src/position.rs :: struct Size
//@ keep-derive Clone Copy
//@end
//@item src/element.rs :: struct SvgElement
//@end

pub assume_specification<T> [std::option::Option::<T>::or] (_0: std::option::Option<T>, _1: std::option::Option<T>) -> (r: std::option::Option<T>)
    ensures r == (if _0 is Some { _0 } else { _1 });
pub type M = Map<Seq<char>, Seq<char>>;
pub open spec fn bx(b: BoundingBox) -> (real, real, real, real) { (val(b.x1), val(b.y1), val(b.x2), val(b.y2)) }
pub open spec fn len_offset(l: Length, start: real, end: real) -> real {
    match l {
        Length::Absolute(a) => { let m = if end < start { -1real } else { 1real }; if val(a) < 0real { end + val(a) * m } else { start + val(a) * m } },
        Length::Ratio(r) => start + (end - start) * val(r),
    }
}
pub open spec fn loc_point(b: BoundingBox, ls: LocSpec) -> (real, real) {
    let (x1, y1, x2, y2) = bx(b);
    let mx = (x1 + x2) / 2real;
    let my = (y1 + y2) / 2real;
    match ls {
        LocSpec::TopLeft => (x1, y1), LocSpec::Top => (mx, y1), LocSpec::TopRight => (x2, y1), LocSpec::Right => (x2, my),
        LocSpec::BottomRight => (x2, y2), LocSpec::Bottom => (mx, y2), LocSpec::BottomLeft => (x1, y2), LocSpec::Left => (x1, my),
        LocSpec::Center => (mx, my),
        LocSpec::TopEdge(l) => (len_offset(l, x1, x2), y1), LocSpec::RightEdge(l) => (x2, len_offset(l, y1, y2)),
        LocSpec::BottomEdge(l) => (len_offset(l, x1, x2), y2), LocSpec::LeftEdge(l) => (x1, len_offset(l, y1, y2)),
    }
}
pub uninterp spec fn fstr_spec(x: real) -> Seq<char>;
pub uninterp spec fn strp_spec(s: Seq<char>) -> Option<real>;
pub uninterp spec fn length_parse(s: Seq<char>) -> Option<Length>;
pub uninterp spec fn split_x(s: Seq<char>) -> Seq<char>;
pub uninterp spec fn split_y(s: Seq<char>) -> Seq<char>;
pub uninterp spec fn target_bbox(e: SvgElement, ctx: Ctx) -> Option<Option<BoundingBox>>;
/// the element a use / reuse refers to, as registered (a function of the element and the element tables)
pub uninterp spec fn target_el_of(e: SvgElement, ctx: Ctx) -> Option<SvgElement>;
pub open spec fn written(m: M, k: Seq<char>, x: real) -> bool { m.dom().contains(k) && m[k] == fstr_spec(x) }
pub open spec fn lacks(m: M, ks: Seq<Seq<char>>) -> bool { forall|i: int| 0 <= i < ks.len() ==> !m.dom().contains(#[trigger] ks[i]) }
pub open spec fn adjust_len(l: Length, x: real) -> real { match l { Length::Absolute(a) => x + val(a), Length::Ratio(r) => x * val(r) } }
/// the new extent when a dw / dh string is applied to a known extent
pub open spec fn adjust_spec(d: Seq<char>, basis: Option<real>) -> Option<real> {
    match (length_parse(d), basis) { (Some(l), Some(x)) => Some(adjust_len(l, x)), _ => None }
}
pub open spec fn num(m: M, k: Seq<char>) -> Option<real> { if m.dom().contains(k) { strp_spec(m[k]) } else { None } }
pub open spec fn twice(o: Option<real>) -> Option<real> { match o { Some(x) => Some(2real * x), None => None } }
/// the (width, height) a dw / dh is applied to
pub open spec fn basis_of(name: Seq<char>, m: M) -> (Option<real>, Option<real>) {
    if name == "circle"@ {
        let d = if m.dom().contains("r"@) { Some(2real * (match strp_spec(m["r"@]) { Some(x) => x, None => 0real })) } else { None };
        (d, d)
    } else if name == "ellipse"@ { (twice(num(m, "rx"@)), twice(num(m, "ry"@))) }
    else { (num(m, "width"@), num(m, "height"@)) }
}
/// the width / height `Position::from` reads off an element (U-posattrs: C11.harvest.length): a round shape given by a
/// radius is measured by it, anything else by width / height
pub open spec fn is_round(n: Seq<char>) -> bool { n == "circle"@ || n == "ellipse"@ }
pub open spec fn w_slot(n: Seq<char>, m: M) -> Seq<char> { if is_round(n) && m.dom().contains("rx"@) { "rx"@ } else if is_round(n) && m.dom().contains("r"@) { "r"@ } else { "width"@ } }
pub open spec fn h_slot(n: Seq<char>, m: M) -> Seq<char> { if is_round(n) && m.dom().contains("ry"@) { "ry"@ } else if is_round(n) && m.dom().contains("r"@) { "r"@ } else { "height"@ } }
pub open spec fn size_w(n: Seq<char>, m: M) -> Option<real> { if w_slot(n, m) == "width"@ { num(m, "width"@) } else { twice(num(m, w_slot(n, m))) } }
pub open spec fn size_h(n: Seq<char>, m: M) -> Option<real> { if h_slot(n, m) == "height"@ { num(m, "height"@) } else { twice(num(m, h_slot(n, m))) } }
/// the element's width / height attribute (the one Position::from reads) says x
pub open spec fn sized_w(n: Seq<char>, m: M, x: real) -> bool {
    if is_round(n) && (m.dom().contains("rx"@) || m.dom().contains("r"@)) { written(m, w_slot(n, m), x / 2real) } else { written(m, "width"@, x) }
}
pub open spec fn sized_h(n: Seq<char>, m: M, x: real) -> bool {
    if is_round(n) && (m.dom().contains("ry"@) || m.dom().contains("r"@)) { written(m, h_slot(n, m), x / 2real) } else { written(m, "height"@, x) }
}
/// R-abstract (resolve_size_delta): `self.get_attr(a).and_then(|v| strp(&v).ok()).map(|v| v * scale)`
#[verifier::external_body]
pub fn scaled_num(e: &SvgElement, attr: &str, scale: R32) -> (r: Option<R32>)
    ensures (r is Some) == (num(e.attrs@, attr@) is Some), r is Some ==> val(r->Some_0) == num(e.attrs@, attr@)->Some_0 * val(scale)
{ unimplemented!() }
pub open spec fn first_wins(o: M, k: Seq<char>, v: Seq<char>) -> Seq<char> { if o.dom().contains(k) { o[k] } else { v } }

#[verifier::external_body]
pub fn fstr(x: R32) -> (r: String) ensures r@ == fstr_spec(val(x)) { unimplemented!() }
/// `opt.map(|n| strp(n)).transpose()`
#[verifier::external_body]
pub fn opt_strp_ref(o: Option<&String>) -> (r: Result<Option<R32>>)
    ensures (match o { None => r is Ok && r->Ok_0 is None,
                      Some(s) => (match strp_spec(s@) { Some(x) => r is Ok && r->Ok_0 is Some && val(r->Ok_0->Some_0) == x, None => r is Err }) })
{ unimplemented!() }
#[verifier::external_body]
pub fn strp(s: &str) -> (r: Result<R32>) ensures (match strp_spec(s@) { Some(x) => r is Ok && val(r->Ok_0) == x, None => r is Err }) { unimplemented!() }
/// R-abstract (resolve_size_delta): the Option-combinator expression computing the basis
#[verifier::external_body]
pub fn size_basis(e: &SvgElement) -> (r: (Option<R32>, Option<R32>))
    ensures ({ let b = basis_of(e.name@, e.attrs@);
        (r.0 is Some) == (b.0 is Some) && (r.0 is Some ==> val(r.0->Some_0) == b.0->Some_0)
        && (r.1 is Some) == (b.1 is Some) && (r.1 is Some ==> val(r.1->Some_0) == b.1->Some_0) })
{ unimplemented!() }
/// R-abstract (resolve_size_delta): strp_length(&d).map(|d| w.map(|x| d.adjust(x)))
#[verifier::external_body]
pub fn adjusted(d: &String, w: Option<R32>) -> (r: Result<Option<R32>>)
    ensures ({ let a = adjust_spec(d@, match w { Some(x) => Some(val(x)), None => None });
        (r is Ok && r->Ok_0 is Some) == (a is Some) && (a is Some ==> val(r->Ok_0->Some_0) == a->Some_0) })
{ unimplemented!() }


// ------------------------------------------------------------------------------ '@loc' / '~scalar' attribute values
pub open spec fn rabs_(x: real) -> real { if x < 0real { -x } else { x } }
pub open spec fn scalar_of(b: BoundingBox, ss: ScalarSpec) -> real {
    let (x1, y1, x2, y2) = bx(b);
    match ss {
        ScalarSpec::Minx => x1, ScalarSpec::Maxx => x2, ScalarSpec::Miny => y1, ScalarSpec::Maxy => y2,
        ScalarSpec::Width => rabs_(x2 - x1), ScalarSpec::Height => rabs_(y2 - y1),
        ScalarSpec::Cx => (x1 + x2) / 2real, ScalarSpec::Cy => (y1 + y2) / 2real,
        ScalarSpec::Radius => if rabs_(x2 - x1) / 2real >= rabs_(y2 - y1) / 2real { rabs_(x2 - x1) / 2real } else { rabs_(y2 - y1) / 2real },
        ScalarSpec::Rx => rabs_(x2 - x1) / 2real, ScalarSpec::Ry => rabs_(y2 - y1) / 2real,
    }
}
pub uninterp spec fn split_head(s: Seq<char>) -> Seq<char>;      // split_once(' '): before the first blank (all of it if none)
pub uninterp spec fn split_rest(s: Seq<char>) -> Seq<char>;      // after it ("" if none)
pub uninterp spec fn strip_sep(s: Seq<char>, sep: char) -> Option<Seq<char>>;
pub uninterp spec fn scalar_parse(s: Seq<char>) -> Option<ScalarSpec>;
pub uninterp spec fn loc_parse(s: Seq<char>) -> Option<LocSpec>;
pub uninterp spec fn dxdy_parse(s: Seq<char>) -> Option<(real, real)>;
pub open spec fn is_x_scalar(ss: ScalarSpec) -> bool { ss is Minx || ss is Maxx || ss is Cx }
pub open spec fn is_y_scalar(ss: ScalarSpec) -> bool { ss is Miny || ss is Maxy || ss is Cy }
/// the side an attribute anchors on when no @loc is given: x2="#a" means a's right edge
pub open spec fn default_loc(ss: ScalarSpec) -> LocSpec {
    match ss {
        ScalarSpec::Minx => LocSpec::Left, ScalarSpec::Maxx => LocSpec::Right, ScalarSpec::Cx => LocSpec::Center,
        ScalarSpec::Miny => LocSpec::Top, ScalarSpec::Maxy => LocSpec::Bottom, ScalarSpec::Cy => LocSpec::Center,
        ScalarSpec::Width => LocSpec::Right, ScalarSpec::Radius => LocSpec::Right, ScalarSpec::Rx => LocSpec::Right,
        ScalarSpec::Height => LocSpec::Bottom, ScalarSpec::Ry => LocSpec::Bottom,
    }
}
pub const SCALARSPEC_SEP: char = '~';
pub const LOCSPEC_SEP: char = '@';
#[verifier::external_body]
pub fn split_once_blank<'a>(s: &'a str) -> (r: (&'a str, &'a str)) ensures r.0@ == split_head(s@), r.1@ == split_rest(s@) { unimplemented!() }
#[verifier::external_body]
pub fn strip_prefix_char<'a>(s: &'a str, sep: char) -> (r: Option<&'a str>) ensures (match strip_sep(s@, sep) { Some(t) => r is Some && r->Some_0@ == t, None => r is None }) { unimplemented!() }
#[verifier::external_body]
pub fn parse_scalarspec(s: &str) -> (r: Result<ScalarSpec>) ensures (match scalar_parse(s@) { Some(x) => r == Ok::<ScalarSpec, SvgdxError>(x), None => r is Err }) { unimplemented!() }
#[verifier::external_body]
pub fn parse_locspec(s: &str) -> (r: Result<LocSpec>) ensures (match loc_parse(s@) { Some(x) => r == Ok::<LocSpec, SvgdxError>(x), None => r is Err }) { unimplemented!() }
#[verifier::external_body]
pub fn strp_length(s: &str) -> (r: Result<Length>) ensures (match length_parse(s@) { Some(x) => r == Ok::<Length, SvgdxError>(x), None => r is Err }) { unimplemented!() }
impl Length {
    /// proved in U-geom
    #[verifier::external_body]
    pub fn adjust(&self, x: R32) -> (r: R32) ensures val(r) == adjust_len(*self, val(x)) { unimplemented!() }
}
impl vstd::std_specs::convert::FromSpecImpl<ScalarSpec> for LocSpec {
    open spec fn obeys_from_spec() -> bool { true }
    open spec fn from_spec(v: ScalarSpec) -> Self { default_loc(v) }
}
impl From<ScalarSpec> for LocSpec {
//@item src/position.rs :: impl From<ScalarSpec> for LocSpec :: fn from
//@ ensures
//@ - r == default_loc(value)     @@C09.loc.default_side
//@end
}
impl ScalarSpec {
//@item src/position.rs :: impl FromStr for ScalarSpec :: fn from_str
//@ ensures
//@ - (value@ == "x"@ || value@ == "x1"@) ==> r == Ok::<ScalarSpec, SvgdxError>(ScalarSpec::Minx)
//@ - (value@ == "y"@ || value@ == "y1"@) ==> r == Ok::<ScalarSpec, SvgdxError>(ScalarSpec::Miny)
//@ - value@ == "x2"@ ==> r == Ok::<ScalarSpec, SvgdxError>(ScalarSpec::Maxx)
//@ - value@ == "y2"@ ==> r == Ok::<ScalarSpec, SvgdxError>(ScalarSpec::Maxy)
//@ - value@ == "cx"@ ==> r == Ok::<ScalarSpec, SvgdxError>(ScalarSpec::Cx)
//@ - value@ == "cy"@ ==> r == Ok::<ScalarSpec, SvgdxError>(ScalarSpec::Cy)
//@ - (value@ == "w"@ || value@ == "width"@) ==> r == Ok::<ScalarSpec, SvgdxError>(ScalarSpec::Width)
//@ - (value@ == "h"@ || value@ == "height"@) ==> r == Ok::<ScalarSpec, SvgdxError>(ScalarSpec::Height)
//@ - value@ == "r"@ ==> r == Ok::<ScalarSpec, SvgdxError>(ScalarSpec::Radius)
//@ - value@ == "rx"@ ==> r == Ok::<ScalarSpec, SvgdxError>(ScalarSpec::Rx)
//@ - value@ == "ry"@ ==> r == Ok::<ScalarSpec, SvgdxError>(ScalarSpec::Ry)     @@C09.scalar.names
//@end
}
/// split_relspec: None = error (unknown id, ...); Some((element?, rest))
pub uninterp spec fn relspec_of(ctx: Ctx, value: Seq<char>) -> Option<(Option<SvgElement>, Seq<char>)>;
/// the context's bounding box of an element: None = error, Some(None) = no box (yet)
pub uninterp spec fn ctx_bbox(ctx: Ctx, e: SvgElement) -> Option<Option<BoundingBox>>;
#[verifier::external_body]
pub fn split_relspec<'a>(value: &'a str, ctx: &'a Ctx) -> (r: Result<(Option<&'a SvgElement>, &'a str)>)
    ensures (match relspec_of(*ctx, value@) {
        Some(p) => r is Ok && (r->Ok_0.0 is Some) == (p.0 is Some) && (p.0 is Some ==> *(r->Ok_0.0->Some_0) == p.0->Some_0) && r->Ok_0.1@ == p.1,
        None => r is Err })
{ unimplemented!() }
impl Ctx {
    #[verifier::external_body]
    pub fn get_element_bbox(&self, el: &SvgElement) -> (r: Result<Option<BoundingBox>>)
        ensures (match ctx_bbox(*self, *el) { Some(b) => r == Ok::<Option<BoundingBox>, SvgdxError>(b), None => r is Err })
    { unimplemented!() }
}
impl DirSpec {
//@item src/position.rs :: impl DirSpec :: fn to_locspec
//@ ensures
//@ - self is InFront ==> r is Right
//@ - self is Behind ==> r is Left
//@ - self is Below ==> r is Bottom
//@ - self is Above ==> r is Top     @@C09.dir.side
//@end
}
impl BoundingBox {
    #[verifier::external_body]
    pub fn locspec(&self, ls: LocSpec) -> (r: (R32, R32)) ensures (val(r.0), val(r.1)) == loc_point(*self, ls) { unimplemented!() }
    #[verifier::external_body]
    pub fn scalarspec(&self, ss: ScalarSpec) -> (r: R32) ensures val(r) == scalar_of(*self, ss) { unimplemented!() }
    #[verifier::external_body] pub fn width(&self) -> (r: R32) ensures val(r) == val(self.x2) - val(self.x1) { unimplemented!() }
    #[verifier::external_body] pub fn height(&self) -> (r: R32) ensures val(r) == val(self.y2) - val(self.y1) { unimplemented!() }
}
/// opaque pieces of resolve_position
#[verifier::external_body]
pub fn expand_points_and_path(e: &mut SvgElement, ctx: &Ctx) ensures final(e).name == old(e).name { unimplemented!() }
#[verifier::external_body]
pub fn position_of(e: &SvgElement) -> Position { unimplemented!() }
#[verifier::external_body]
pub fn use_size_adjust(e: &SvgElement, ctx: &Ctx, p: &mut Position) -> Result<()> { unimplemented!() }
impl Position {
    #[verifier::external_body]
    pub fn set_position_attrs(&self, e: &mut SvgElement) ensures final(e).name == old(e).name { unimplemented!() }
}

impl SvgElement {
//@item src/element.rs :: impl SvgElement :: fn get_attr
//@ replace[R-optmap] <<<self.attrs.get(key).map(|x| x.to_owned())>>> => <<<match self.attrs.get(key) { Some(x) => Some(x.clone()), None => None }>>>
//@ ensures
//@ - opt_sv(r) == map_get(self.attrs@, key@)
//@end
//@item src/element.rs :: impl SvgElement :: fn has_attr
//@ ensures
//@ - r == self.attrs@.dom().contains(key@)
//@end
//@item src/element.rs :: impl SvgElement :: fn set_attr
//@ ensures
//@ - final(self).attrs@ == old(self).attrs@.insert(key@, value@) && final(self).name == old(self).name
//@end
//@item src/element.rs :: impl SvgElement :: fn pop_attr
//@ ensures
//@ - opt_sv(r) == map_get(old(self).attrs@, key@)
//@ - final(self).attrs@ == old(self).attrs@.remove(key@) && final(self).name == old(self).name
//@end
//@item src/element.rs :: impl SvgElement :: fn is_size_attr
//@ strlit "text" "point" "width" "height" "circle" "ellipse" "r" "rx" "ry"
//@ ensures
//@ - r == (!(self.name@ == "text"@ || self.name@ == "point"@) && (name@ == "width"@ || name@ == "height"@
//@        || ((self.name@ == "circle"@ || self.name@ == "ellipse"@) && (name@ == "r"@ || name@ == "rx"@ || name@ == "ry"@))))     @@C09.size_attr.every_radius_spelling @@C11.size_attr.every_radius_spelling
//@end
//@item src/element.rs :: impl SvgElement :: fn set_default_attr
//@ ensures
//@ - final(self).attrs@ == (if old(self).attrs@.dom().contains(key@) { old(self).attrs@ } else { old(self).attrs@.insert(key@, value@) }) && final(self).name == old(self).name
//@end
    /// R-abstract: string splitting (attr_split_cycle, splitn, join)
    #[verifier::external_body]
    pub fn split_compound_attr(value: &str) -> (r: (String, String)) ensures r.0@ == split_x(value@), r.1@ == split_y(value@) { unimplemented!() }
    /// get_target_element(ctx)?.bbox()? as one opaque step
    #[verifier::external_body]
    pub fn target_element_bbox(&self, ctx: &Ctx) -> (r: Result<Option<BoundingBox>>)
        ensures (match target_bbox(*self, *ctx) { Some(b) => r == Ok::<Option<BoundingBox>, SvgdxError>(b), None => r is Err })
    { unimplemented!() }

    #[verifier::external_body]
    pub fn to_string(&self) -> String { unimplemented!() }
    #[verifier::external_body]
    pub fn extract_dx_dy(&self, input: &str) -> (r: Result<(R32, R32)>)
        ensures (match dxdy_parse(input@) { Some(p) => r is Ok && val(r->Ok_0.0) == p.0 && val(r->Ok_0.1) == p.1, None => r is Err })
    { unimplemented!() }
//@item src/element.rs :: impl SvgElement :: fn pos_attr_helper
//@ strlit "text" "text-loc" "c"
//@ replace[R-splitonce] <<<remain.split_once(' ').unwrap_or((remain, ""))>>> => <<<split_once_blank(remain)>>>
//@ replace[R-strip] <<<loc_str.strip_prefix(SCALARSPEC_SEP)>>> => <<<strip_prefix_char(loc_str, SCALARSPEC_SEP)>>>
//@ replace[R-strip] <<<loc_str.strip_prefix(LOCSPEC_SEP)>>> => <<<strip_prefix_char(loc_str, LOCSPEC_SEP)>>>
//@ replace[R-parse] <<<v = bbox.scalarspec(ss.parse()?);>>> => <<<v = bbox.scalarspec(parse_scalarspec(ss)?);>>>
//@ replace[R-parse] <<<loc = ls.parse()?;>>> => <<<loc = parse_locspec(ls)?;>>>
//@ replace[R-parse] <<<LocSpec::from_str(&self.get_attr("text-loc").unwrap_or("c".to_owned()))?>>> => <<<parse_locspec(&self.get_attr("text-loc").unwrap_or("c".to_string()))?>>>
//@ replace[R-use] <<<            use ScalarSpec::*;\n>>> => <<<>>>
//@ replace-re[R-use] <<<\b(Minx|Maxx|Cx|Miny|Maxy|Cy) (\||=>)>>> => <<<ScalarSpec::\1 \2>>>
//@ replace[R-tostring] <<<Ok(fstr(v).to_string())>>> => <<<Ok(fstr(v))>>>
//@ ensures
//@ - strip_sep(split_head(remain@), '~') is Some ==> (match scalar_parse(strip_sep(split_head(remain@), '~')->Some_0) {
//@       Some(ss) => r is Ok && r->Ok_0@ == fstr_spec(match length_parse(split_rest(remain@)) { Some(l) => adjust_len(l, scalar_of(*bbox, ss)), None => scalar_of(*bbox, ss) }),
//@       None => r is Err })     @@C09.scalar.value
//@ - strip_sep(split_head(remain@), '~') is None && r is Ok ==> ({
//@       let explicit = strip_sep(split_head(remain@), '@');
//@       let dflt = if self.name@ == "text"@ { loc_parse(match map_get(self.attrs@, "text-loc"@) { Some(t) => t, None => "c"@ }) } else { Some(default_loc(attr_ss)) };
//@       let loc = if explicit is Some { loc_parse(explicit->Some_0) } else { dflt };
//@       loc is Some && dxdy_parse(split_rest(remain@)) is Some && ({
//@           let p = loc_point(*bbox, loc->Some_0); let d = dxdy_parse(split_rest(remain@))->Some_0;
//@           r->Ok_0@ == fstr_spec(if is_x_scalar(attr_ss) { p.0 + d.0 } else if is_y_scalar(attr_ss) { p.1 + d.1 } else { scalar_of(*bbox, attr_ss) }) }) })     @@C09.loc.value
//@ - strip_sep(split_head(remain@), '~') is None && strip_sep(split_head(remain@), '@') is None && split_head(remain@).len() > 0 ==> r is Err     @@C09.loc.junk_rejected
//@end

    // ---- the element's own size (what direction placement centres and steps back by)
    #[verifier::external_body]
    pub fn get_target_element(&self, ctx: &Ctx) -> (r: Result<SvgElement>)
        ensures (match target_el_of(*self, *ctx) { Some(t) => r == Ok::<SvgElement, SvgdxError>(t), None => r is Err }) { unimplemented!() }
    /// U-ctxbbox: C10.pending.spec (proved there)
    #[verifier::external_body]
    pub fn has_pending_geometry(&self) -> (r: bool) ensures r == unresolved(self.name@, self.attrs@) { unimplemented!() }
    /// recursive call of size() on the target of a use / reuse (opaque: the target is another element)
    #[verifier::external_body]
    pub fn target_size(&self, ctx: &Ctx) -> (r: Result<Option<Size>>) { unimplemented!() }
//@item src/element.rs :: impl SvgElement :: fn size
//@ strlit "use" "reuse" "g" "symbol" "point" "text" "circle" "ellipse" "line"
//@ replace[R-opaque-type] <<<ctx: &impl ElementMap>>> => <<<ctx: &Ctx>>>
//@ replace[R-recursion] <<<target_el.size(ctx)?>>> => <<<target_el.target_size(ctx)?>>>
//@ replace-re[R-optmap] <<<self\.attrs\.get\("(\w+)"\)\.map\(\|n\| strp\(n\)\)\.transpose\(\)\?>>> => <<<opt_strp_ref(self.attrs.get("\1"))?>>>
//@ ensures
//@ - self.name@ == "circle"@ && r is Ok && !self.attrs@.dom().contains("rx"@) && !self.attrs@.dom().contains("ry"@) ==> (match num(self.attrs@, "r"@) { Some(rr) => r->Ok_0 is Some && val(r->Ok_0->Some_0.0) == rr * 2real && val(r->Ok_0->Some_0.1) == rr * 2real,
//@       None => (r->Ok_0 is Some) == (self.attrs@.dom().contains("width"@) || self.attrs@.dom().contains("height"@)) })     @@C09.size.circle
//@ - (self.name@ == "circle"@ || self.name@ == "ellipse"@) && r is Ok && num(self.attrs@, "rx"@) is Some && num(self.attrs@, "ry"@) is Some ==>
//@       r->Ok_0 is Some && val(r->Ok_0->Some_0.0) == num(self.attrs@, "rx"@)->Some_0 * 2real && val(r->Ok_0->Some_0.1) == num(self.attrs@, "ry"@)->Some_0 * 2real     @@C09.size.radius_spellings @@C11.size.radius_spellings
//@ - self.name@ == "ellipse"@ && r is Ok && num(self.attrs@, "r"@) is Some && !self.attrs@.dom().contains("rx"@) && !self.attrs@.dom().contains("ry"@) ==>
//@       r->Ok_0 is Some && val(r->Ok_0->Some_0.0) == num(self.attrs@, "r"@)->Some_0 * 2real && val(r->Ok_0->Some_0.1) == num(self.attrs@, "r"@)->Some_0 * 2real     @@C09.size.radius_spellings @@C11.size.radius_spellings
//@ - self.name@ == "circle"@ && r is Ok && !self.attrs@.dom().contains("r"@) && !self.attrs@.dom().contains("rx"@) && !self.attrs@.dom().contains("ry"@) && self.attrs@.dom().contains("width"@) && !self.attrs@.dom().contains("height"@) ==>
//@       r->Ok_0 is Some && val(r->Ok_0->Some_0.0) == num(self.attrs@, "width"@)->Some_0 && val(r->Ok_0->Some_0.1) == num(self.attrs@, "width"@)->Some_0     @@C09.size.circle_one_dimension
//@ - self.name@ == "circle"@ && r is Ok && !self.attrs@.dom().contains("r"@) && !self.attrs@.dom().contains("rx"@) && !self.attrs@.dom().contains("ry"@) && self.attrs@.dom().contains("height"@) && !self.attrs@.dom().contains("width"@) ==>
//@       r->Ok_0 is Some && val(r->Ok_0->Some_0.0) == num(self.attrs@, "height"@)->Some_0 && val(r->Ok_0->Some_0.1) == num(self.attrs@, "height"@)->Some_0     @@C09.size.circle_one_dimension
//@ - self.name@ == "line"@ && r is Ok && self.attrs@.dom().contains("width"@) && !self.attrs@.dom().contains("height"@)
//@     && !self.attrs@.dom().contains("x1"@) && !self.attrs@.dom().contains("x2"@) && !self.attrs@.dom().contains("y1"@) && !self.attrs@.dom().contains("y2"@) ==>
//@       r->Ok_0 is Some && val(r->Ok_0->Some_0.0) == num(self.attrs@, "width"@)->Some_0 && val(r->Ok_0->Some_0.1) == 0real     @@C09.size.line_one_extent
//@ - self.name@ == "line"@ && r is Ok && self.attrs@.dom().contains("height"@) && !self.attrs@.dom().contains("width"@)
//@     && !self.attrs@.dom().contains("x1"@) && !self.attrs@.dom().contains("x2"@) && !self.attrs@.dom().contains("y1"@) && !self.attrs@.dom().contains("y2"@) ==>
//@       r->Ok_0 is Some && val(r->Ok_0->Some_0.0) == 0real && val(r->Ok_0->Some_0.1) == num(self.attrs@, "height"@)->Some_0     @@C09.size.line_one_extent
//@ - self.name@ == "ellipse"@ && r is Ok && num(self.attrs@, "rx"@) is Some && num(self.attrs@, "ry"@) is Some ==>
//@       r->Ok_0 is Some && val(r->Ok_0->Some_0.0) == num(self.attrs@, "rx"@)->Some_0 * 2real && val(r->Ok_0->Some_0.1) == num(self.attrs@, "ry"@)->Some_0 * 2real     @@C09.size.ellipse
//@ - (self.name@ == "point"@ || self.name@ == "text"@) && r is Ok ==> r->Ok_0 is Some && val(r->Ok_0->Some_0.0) == 0real && val(r->Ok_0->Some_0.1) == 0real     @@C09.size.point
//@ - (self.name@ == "rect"@ || self.name@ == "image"@ || self.name@ == ""@) && r is Ok ==> (match (num(self.attrs@, "width"@), num(self.attrs@, "height"@)) {
//@       (Some(w), Some(h)) => r->Ok_0 is Some && val(r->Ok_0->Some_0.0) == w && val(r->Ok_0->Some_0.1) == h, _ => r->Ok_0 is None })     @@C09.size.rect
//@ - self.name@ == "line"@ && r is Ok && num(self.attrs@, "x1"@) is Some && num(self.attrs@, "x2"@) is Some && num(self.attrs@, "y1"@) is Some && num(self.attrs@, "y2"@) is Some ==>
//@       r->Ok_0 is Some && val(r->Ok_0->Some_0.0) == rabs_(num(self.attrs@, "x2"@)->Some_0 - num(self.attrs@, "x1"@)->Some_0)
//@       && val(r->Ok_0->Some_0.1) == rabs_(num(self.attrs@, "y2"@)->Some_0 - num(self.attrs@, "y1"@)->Some_0)     @@C09.size.line
//@ - self.attrs@.dom().contains("width"@) && strp_spec(self.attrs@["width"@]) is None ==> r is Err     @@C09.size.unresolved_is_error
//@ - (self.name@ == "use"@ || self.name@ == "reuse"@) && r is Ok && target_el_of(*self, *ctx) is Some ==> !unresolved(target_el_of(*self, *ctx)->Some_0.name@, target_el_of(*self, *ctx)->Some_0.attrs@)     @@C10.size.pending_target_is_error @@C09.size.pending_target_is_error
//@end

    // ---- element-relative attribute values: the reference must be resolvable NOW or the element must fail (and be retried)
//@item src/element.rs :: impl SvgElement :: fn eval_pos_attr
//@ replace[R-opaque-type] <<<ctx: &impl ElementMap>>> => <<<ctx: &Ctx>>>
//@ replace[R-fromstr] <<<ScalarSpec::from_str(name)>>> => <<<parse_scalarspec(name)>>>
//@ ensures
//@ - scalar_parse(name@) is Some && relspec_of(*ctx, value@) is Some && relspec_of(*ctx, value@)->Some_0.0 is Some
//@       && !(ctx_bbox(*ctx, relspec_of(*ctx, value@)->Some_0.0->Some_0) is Some && ctx_bbox(*ctx, relspec_of(*ctx, value@)->Some_0.0->Some_0)->Some_0 is Some) ==> r is Err     @@C10.ref.unavailable_is_error.pos
//@ - scalar_parse(name@) is Some && relspec_of(*ctx, value@) is None ==> r is Err     @@C10.ref.unknown_is_error.pos
//@ - (scalar_parse(name@) is None || (relspec_of(*ctx, value@) is Some && relspec_of(*ctx, value@)->Some_0.0 is None)) ==> r is Ok && r->Ok_0@ == value@     @@C09.attr.literal_kept
//@end
//@item src/element.rs :: impl SvgElement :: fn eval_size_attr
//@ replace[R-opaque-type] <<<ctx: &impl ElementMap>>> => <<<ctx: &Ctx>>>
//@ replace[R-fromstr] <<<ScalarSpec::from_str(name)>>> => <<<parse_scalarspec(name)>>>
//@ replace[R-splitonce] <<<remain.split_once(' ').unwrap_or((remain, ""))>>> => <<<split_once_blank(remain)>>>
//@ replace[R-strip] <<<ss_str.strip_prefix(SCALARSPEC_SEP)>>> => <<<strip_prefix_char(ss_str, SCALARSPEC_SEP)>>>
//@ replace[R-parse] <<<v = bbox.scalarspec(ss.parse()?);>>> => <<<v = bbox.scalarspec(parse_scalarspec(ss)?);>>>
//@ ensures
//@ - scalar_parse(name@) is Some && relspec_of(*ctx, value@) is Some && relspec_of(*ctx, value@)->Some_0.0 is Some
//@       && !(ctx_bbox(*ctx, relspec_of(*ctx, value@)->Some_0.0->Some_0) is Some && ctx_bbox(*ctx, relspec_of(*ctx, value@)->Some_0.0->Some_0)->Some_0 is Some) ==> r is Err     @@C10.ref.unavailable_is_error.size
//@ - scalar_parse(name@) is Some && relspec_of(*ctx, value@) is Some && relspec_of(*ctx, value@)->Some_0.0 is Some
//@       && ctx_bbox(*ctx, relspec_of(*ctx, value@)->Some_0.0->Some_0) is Some && ctx_bbox(*ctx, relspec_of(*ctx, value@)->Some_0.0->Some_0)->Some_0 is Some
//@       && strip_sep(split_head(relspec_of(*ctx, value@)->Some_0.1), '~') is None && r is Ok ==> ({
//@           let b = ctx_bbox(*ctx, relspec_of(*ctx, value@)->Some_0.0->Some_0)->Some_0->Some_0; let rest = split_rest(relspec_of(*ctx, value@)->Some_0.1);
//@           let v0 = scalar_of(b, scalar_parse(name@)->Some_0);
//@           r->Ok_0@ == fstr_spec(match length_parse(rest) { Some(l) => adjust_len(l, v0), None => v0 }) })     @@C09.size.relative_value
//@end

//@item src/element.rs :: impl SvgElement :: fn place_at
//@ replace[R-opaque-type] <<<ctx: &impl ContextView>>> => <<<ctx: &Ctx>>>
//@ replace-re[R-abstract] <<<self\s*\.get_target_element\(ctx\)\?\s*\.bbox\(\)\?>>> => <<<self.target_element_bbox(ctx)?>>>
//@ ensures
//@ - final(self).name == old(self).name
//@ - old(self).name@ != "use"@ ==> r is Ok && final(self).attrs@ == old(self).attrs@.insert("x"@, fstr_spec(val(x))).insert("y"@, fstr_spec(val(y)))     @@C09.dir.place_at
//@ - old(self).name@ == "use"@ && r is Ok && target_bbox(*old(self), *ctx)->Some_0 is Some ==> ({ let tb = target_bbox(*old(self), *ctx)->Some_0->Some_0;
//@       final(self).attrs@ == old(self).attrs@.insert("x"@, fstr_spec(val(x) - val(tb.x1))).insert("y"@, fstr_spec(val(y) - val(tb.y1))) })     @@C09.dir.place_at.use
//@ - old(self).name@ == "use"@ && target_bbox(*old(self), *ctx) is Some && target_bbox(*old(self), *ctx)->Some_0 is None ==> r is Err     @@C10.use.placement_needs_target_box @@C09.use.placement_needs_target_box
//@end

// the placement arithmetic of eval_rel_position: from the referenced box, the direction, the
// element's own size and the gap to the written x / y
//@item src/element.rs :: impl SvgElement :: fn eval_rel_position
//@ fragment-name rel_placement
//@ fragment-from <<<                let (x, y) = bbox.locspec(rel.to_locspec());>>>
//@ fragment-to <<<self.place_at(ctx, x + dx, y + dy)?;>>>
//@ fragment-head <<<fn rel_placement(&mut self, ctx: &Ctx, bbox: BoundingBox, rel: DirSpec, this_width: f32, this_height: f32, gap: f32) -> Result<()> {>>>
//@ fragment-tail <<<    Ok(())\n}>>>
//@ ensures
//@ - old(self).name@ != "use"@ ==> r is Ok && !final(self).attrs@.dom().contains("xy"@)     @@C09.dir.xy_consumed
//@ - old(self).name@ != "use"@ && rel is InFront ==> written(final(self).attrs@, "x"@, val(bbox.x2) + val(gap))
//@       && written(final(self).attrs@, "y"@, (val(bbox.y1) + val(bbox.y2)) / 2real - val(this_height) / 2real)     @@C09.dir.h
//@ - old(self).name@ != "use"@ && rel is Behind ==> written(final(self).attrs@, "x"@, val(bbox.x1) - val(gap) - val(this_width))
//@       && written(final(self).attrs@, "y"@, (val(bbox.y1) + val(bbox.y2)) / 2real - val(this_height) / 2real)     @@C09.dir.H
//@ - old(self).name@ != "use"@ && rel is Below ==> written(final(self).attrs@, "y"@, val(bbox.y2) + val(gap))
//@       && written(final(self).attrs@, "x"@, (val(bbox.x1) + val(bbox.x2)) / 2real - val(this_width) / 2real)     @@C09.dir.v
//@ - old(self).name@ != "use"@ && rel is Above ==> written(final(self).attrs@, "y"@, val(bbox.y1) - val(gap) - val(this_height))
//@       && written(final(self).attrs@, "x"@, (val(bbox.x1) + val(bbox.x2)) / 2real - val(this_width) / 2real)     @@C09.dir.V
//@end

//@item src/element.rs :: impl SvgElement :: fn expand_compound_size
//@ replace?[R-strmatch] <<<if let ("ellipse", Some(rxy)) = (self.name.as_str(), self.attrs.pop("rxy")) {>>> => <<<let t_ = (self.name.as_str() == "ellipse", self.attrs.pop("rxy"));\n        if let (true, Some(rxy)) = t_ {>>>
//@ ensures
//@ - final(self).name == old(self).name
//@ - lacks(final(self).attrs@, seq!["wh"@, "dwh"@, "rxy"@])     @@C11.shorthand.size.removed
//@ - !final(self).attrs@.dom().contains("wh"@) && !final(self).attrs@.dom().contains("dwh"@) && !final(self).attrs@.dom().contains("rxy"@)     @@C11.shorthand.size.removed
//@ - old(self).attrs@.dom().contains("wh"@) ==> final(self).attrs@.dom().contains("width"@) && final(self).attrs@.dom().contains("height"@)
//@       && final(self).attrs@["width"@] == first_wins(old(self).attrs@, "width"@, split_x(old(self).attrs@["wh"@]))
//@       && final(self).attrs@["height"@] == first_wins(old(self).attrs@, "height"@, split_y(old(self).attrs@["wh"@]))     @@C11.shorthand.wh
//@ - old(self).attrs@.dom().contains("dwh"@) ==> final(self).attrs@.dom().contains("dw"@) && final(self).attrs@.dom().contains("dh"@)
//@       && final(self).attrs@["dw"@] == first_wins(old(self).attrs@, "dw"@, split_x(old(self).attrs@["dwh"@]))
//@       && final(self).attrs@["dh"@] == first_wins(old(self).attrs@, "dh"@, split_y(old(self).attrs@["dwh"@]))     @@C11.shorthand.dwh
//@ - old(self).attrs@.dom().contains("rxy"@) ==> final(self).attrs@.dom().contains("rx"@) && final(self).attrs@.dom().contains("ry"@)
//@       && final(self).attrs@["rx"@] == first_wins(old(self).attrs@, "rx"@, split_x(old(self).attrs@["rxy"@]))
//@       && final(self).attrs@["ry"@] == first_wins(old(self).attrs@, "ry"@, split_y(old(self).attrs@["rxy"@]))     @@C11.shorthand.rxy
//@ - forall|k: Seq<char>| k != "wh"@ && k != "dwh"@ && k != "rxy"@ && k != "width"@ && k != "height"@ && k != "dw"@ && k != "dh"@ && k != "rx"@ && k != "ry"@
//@       ==> map_get(final(self).attrs@, k) == map_get(old(self).attrs@, k)     @@C11.shorthand.size.frame
//@ - !old(self).attrs@.dom().contains("wh"@) ==> map_get(final(self).attrs@, "width"@) == map_get(old(self).attrs@, "width"@) && map_get(final(self).attrs@, "height"@) == map_get(old(self).attrs@, "height"@)
//@ - !old(self).attrs@.dom().contains("dwh"@) ==> map_get(final(self).attrs@, "dw"@) == map_get(old(self).attrs@, "dw"@) && map_get(final(self).attrs@, "dh"@) == map_get(old(self).attrs@, "dh"@)
//@end

//@item src/element.rs :: impl SvgElement :: fn resolve_size_delta
//@ strlit "circle" "ellipse" "rx" "ry" "r" "width" "height" "dw" "dh"
//@ replace[R-matches] <<<matches!(self.name.as_str(), "circle" | "ellipse")>>> => <<<(self.name.as_str() == "circle" || self.name.as_str() == "ellipse")>>>
//@ replace[R-abstract] <<<let w = self\n            .get_attr(w_attr)\n            .and_then(|w| strp(&w).ok())\n            .map(|w| w * w_scale);>>> => <<<let w = scaled_num(self, w_attr, w_scale);>>>
//@ replace[R-abstract] <<<let h = self\n            .get_attr(h_attr)\n            .and_then(|h| strp(&h).ok())\n            .map(|h| h * h_scale);>>> => <<<let h = scaled_num(self, h_attr, h_scale);>>>
//@ replace[R-abstract] <<<strp_length(&dw).map(|dw| w.map(|x| dw.adjust(x)))>>> => <<<adjusted(&dw, w)>>>
//@ replace[R-abstract] <<<strp_length(&dh).map(|dh| h.map(|x| dh.adjust(x)))>>> => <<<adjusted(&dh, h)>>>
//@ ensures
//@ - final(self).name == old(self).name
//@ - !final(self).attrs@.dom().contains("dw"@) && !final(self).attrs@.dom().contains("dh"@)     @@C09.delta.consumed
//@ - old(self).attrs@.dom().contains("dw"@) && !old(self).attrs@.dom().contains("dh"@) && adjust_spec(old(self).attrs@["dw"@], size_w(old(self).name@, old(self).attrs@)) is Some
//@       ==> sized_w(final(self).name@, final(self).attrs@, adjust_spec(old(self).attrs@["dw"@], size_w(old(self).name@, old(self).attrs@))->Some_0)     @@C09.delta.dw
//@ - old(self).attrs@.dom().contains("dh"@) && adjust_spec(old(self).attrs@["dh"@], size_h(old(self).name@, old(self).attrs@)) is Some
//@       ==> sized_h(final(self).name@, final(self).attrs@, adjust_spec(old(self).attrs@["dh"@], size_h(old(self).name@, old(self).attrs@))->Some_0)     @@C09.delta.dh
//@ - old(self).name@ != "circle"@ && old(self).attrs@.dom().contains("dw"@) && !old(self).attrs@.dom().contains("dh"@)
//@       ==> size_h(final(self).name@, final(self).attrs@) == size_h(old(self).name@, old(self).attrs@)     @@C11.delta.dw_changes_width_only @@C09.delta.dw_changes_width_only
//@ - old(self).name@ != "circle"@ && old(self).attrs@.dom().contains("dh"@) && !old(self).attrs@.dom().contains("dw"@)
//@       ==> size_w(final(self).name@, final(self).attrs@) == size_w(old(self).name@, old(self).attrs@)     @@C11.delta.dh_changes_height_only @@C09.delta.dh_changes_height_only
//@ - old(self).name@ != "circle"@ && old(self).attrs@.dom().contains("dw"@) && old(self).attrs@.dom().contains("dh"@)
//@       && adjust_spec(old(self).attrs@["dw"@], size_w(old(self).name@, old(self).attrs@)) is Some && adjust_spec(old(self).attrs@["dh"@], size_h(old(self).name@, old(self).attrs@)) is Some
//@       ==> sized_w(final(self).name@, final(self).attrs@, adjust_spec(old(self).attrs@["dw"@], size_w(old(self).name@, old(self).attrs@))->Some_0)     @@C11.delta.both @@C09.delta.both
//@ - forall|k: Seq<char>| k != "dw"@ && k != "dh"@ && k != "width"@ && k != "height"@ && k != "r"@ && k != "rx"@ && k != "ry"@ ==> map_get(final(self).attrs@, k) == map_get(old(self).attrs@, k)     @@C09.delta.frame
//@ - final(self).attrs@.dom().contains("wh"@) == old(self).attrs@.dom().contains("wh"@) && final(self).attrs@.dom().contains("dwh"@) == old(self).attrs@.dom().contains("dwh"@)     @@C09.delta.frame
//@ - !old(self).attrs@.dom().contains("dw"@) && !old(self).attrs@.dom().contains("dh"@) ==> final(self).attrs@ == old(self).attrs@     @@C09.delta.frame
//@end

//@item src/element.rs :: impl SvgElement :: fn expand_compound_pos
//@ replace[R-asderef] <<<let (x_attr, y_attr) = match xy_loc.as_deref() {>>> => <<<let (x_attr, y_attr) = match opt_as_str(&xy_loc) {>>>
//@ ensures
//@ - final(self).name == old(self).name
//@ - lacks(final(self).attrs@, seq!["xy"@, "cxy"@, "xy1"@, "xy2"@, "dxy"@])     @@C11.shorthand.pos.removed
//@ - !final(self).attrs@.dom().contains("xy-loc"@)     @@C11.shorthand.xyloc.removed @@C09.loc.xyloc_never_left_behind
//@ - old(self).attrs@.dom().contains("xy"@) && !old(self).attrs@.dom().contains("cxy"@) && !old(self).attrs@.dom().contains("xy1"@) && !old(self).attrs@.dom().contains("xy2"@) ==> ({
//@       let o = old(self).attrs@; let m = final(self).attrs@;
//@       let l = map_get(o, "xy-loc"@);
//@       let xk = if l == Some("t"@) || l == Some("b"@) || l == Some("c"@) { "cx"@ } else if l == Some("tr"@) || l == Some("r"@) || l == Some("br"@) { "x2"@ }
//@                else if l == Some("bl"@) || l == Some("l"@) { "x1"@ } else { "x"@ };
//@       let yk = if l == Some("t"@) || l == Some("tr"@) { "y1"@ } else if l == Some("r"@) || l == Some("l"@) || l == Some("c"@) { "cy"@ }
//@                else if l == Some("br"@) || l == Some("b"@) || l == Some("bl"@) { "y2"@ } else { "y"@ };
//@       m.dom().contains(xk) && m.dom().contains(yk)
//@       && m[xk] == first_wins(o, xk, split_x(o["xy"@])) && m[yk] == first_wins(o, yk, split_y(o["xy"@])) })     @@C09.loc.anchor     @@C11.shorthand.xy
//@ - old(self).attrs@.dom().contains("cxy"@) && !old(self).attrs@.dom().contains("xy"@) ==> ({ let o = old(self).attrs@; let m = final(self).attrs@;
//@       m.dom().contains("cx"@) && m.dom().contains("cy"@) && m["cx"@] == first_wins(o, "cx"@, split_x(o["cxy"@])) && m["cy"@] == first_wins(o, "cy"@, split_y(o["cxy"@])) })     @@C11.shorthand.cxy
//@ - old(self).attrs@.dom().contains("xy1"@) && !old(self).attrs@.dom().contains("xy"@) ==> ({ let o = old(self).attrs@; let m = final(self).attrs@;
//@       m.dom().contains("x1"@) && m.dom().contains("y1"@) && m["x1"@] == first_wins(o, "x1"@, split_x(o["xy1"@])) && m["y1"@] == first_wins(o, "y1"@, split_y(o["xy1"@])) })     @@C11.shorthand.xy1
//@ - old(self).attrs@.dom().contains("xy2"@) && !old(self).attrs@.dom().contains("xy"@) ==> ({ let o = old(self).attrs@; let m = final(self).attrs@;
//@       m.dom().contains("x2"@) && m.dom().contains("y2"@) && m["x2"@] == first_wins(o, "x2"@, split_x(o["xy2"@])) && m["y2"@] == first_wins(o, "y2"@, split_y(o["xy2"@])) })     @@C11.shorthand.xy2
//@ - old(self).attrs@.dom().contains("dxy"@) ==> ({ let o = old(self).attrs@; let m = final(self).attrs@;
//@       m.dom().contains("dx"@) && m.dom().contains("dy"@) && m["dx"@] == first_wins(o, "dx"@, split_x(o["dxy"@])) && m["dy"@] == first_wins(o, "dy"@, split_y(o["dxy"@])) })     @@C11.shorthand.dxy
//@end

    // ---- opaque steps of the positioning pipeline (contracts ASSUMED, see //@assume)
    #[verifier::external_body]
    pub fn eval_attributes(&mut self, ctx: &Ctx) -> (r: Result<()>) ensures final(self).name == old(self).name { unimplemented!() }
    #[verifier::external_body]
    pub fn handle_containment(&mut self, ctx: &Ctx) -> (r: Result<()>) ensures final(self).name == old(self).name { unimplemented!() }
    #[verifier::external_body]
    pub fn eval_rel_attributes(&mut self, ctx: &Ctx) -> (r: Result<()>)
        ensures final(self).name == old(self).name, final(self).attrs@.dom() == old(self).attrs@.dom()
    { unimplemented!() }
    #[verifier::external_body]
    pub fn eval_text_anchor(&mut self, ctx: &Ctx) -> (r: Result<()>)
        ensures final(self).name == old(self).name,
            forall|k: Seq<char>| #![trigger final(self).attrs@.dom().contains(k)] k != "text-loc"@ ==> final(self).attrs@.dom().contains(k) == old(self).attrs@.dom().contains(k)
    { unimplemented!() }
    /// the element is placed beside the referenced box using ITS OWN SIZE as it stands now:
    /// every size-changing attribute must have been resolved before
    #[verifier::external_body]
    pub fn eval_rel_position(&mut self, ctx: &Ctx) -> (r: Result<()>)
        requires
            !old(self).attrs@.dom().contains("wh"@) && !old(self).attrs@.dom().contains("dwh"@)
                && !old(self).attrs@.dom().contains("dw"@) && !old(self).attrs@.dom().contains("dh"@),     // own size is final when placed beside the reference @C09.dir.size_final
        ensures final(self).name == old(self).name
    { unimplemented!() }

//@item src/element.rs :: impl SvgElement :: fn resolve_position
//@ strlit "wh" "dwh" "dw" "dh" "rxy" "text-loc" "text"
//@ replace[R-opaque-type] <<<ctx: &impl ContextView>>> => <<<ctx: &Ctx>>>
//@ cut[R-abstract] <<<        if let ("polyline" | "polygon", Some(points)) =>>> .. <<<            self.set_attr("d", &expand_relspec(&d, ctx));\n        }>>> => <<<        expand_points_and_path(self, ctx);>>>
//@ replace[R-abstract] <<<Position::from(self as &SvgElement)>>> => <<<position_of(self)>>>
//@ cut[R-abstract] <<<        if self.name == "use" {\n            if let Some(href) = self.get_attr("href") {>>> .. <<<                }\n            }\n        }\n>>> => <<<        use_size_adjust(self, ctx, &mut p)?;\n>>>
//@ ensures
//@ - final(self).name == old(self).name
//@end
}

} // verus!
fn main() {}
