//@unit ctxbbox
//@props C08 C01
// U-ctxbbox: the bounding box of an element as seen through the context
// (impl ElementMap for TransformerContext :: get_element_bbox, src/context.rs): use/reuse
// instances are the target's box translated by the instance's x / y (a missing one counts as 0),
// and a clip-path intersects the box with the clipPath's own box.
//@assume get_target_element / SvgElement::bbox / extract_urlref / strp are deterministic functions; BoundingBox::translated / intersect meet the U-geom contracts
use vstd::prelude::*;
//@prelude fmt_macro
verus! {
//@prelude std_specs r32 attrmap pending

pub enum SvgdxError { InvalidData(String), ReferenceError(ElRef), ParseError(String), DepthLimitExceeded(u32, u32), CircularRefError(String), MissingBoundingBox(String), Other }
pub type Result<T> = core::result::Result<T, SvgdxError>;
#[verifier::external_body] pub struct ClassList { _p: u8 }
#[verifier::external_body] pub struct OrderIndex { _p: u8 }
#[verifier::external_body] pub struct RngCell { _p: u8 }
#[verifier::external_body] pub struct ElemTable { _p: u8 }
impl ElemTable {
    pub uninterp spec fn count(&self) -> nat;
    #[verifier::external_body] pub fn len(&self) -> (r: usize) ensures r == self.count(), r < usize::MAX { unimplemented!() }     // (a table cannot hold usize::MAX entries)
}
#[verifier::external_body] pub struct Scope { _p: u8 }
#[verifier::external_body] pub struct InputEvent { _p: u8 }
#[verifier::external_body] pub struct ConfigRest { _p: u8 }
pub struct TransformConfig { pub depth_limit: u32, pub rest: ConfigRest }

//@rewrite f32 strlit strmatch
//@item src/types.rs :: enum ElRef
//@end
//@item src/position.rs :: struct BoundingBox
//@ keep-derive Clone Copy
//@end
//@item src/element.rs :: struct SvgElement
//@end
//@item src/context.rs :: struct TransformerContext
//@ replace[R-opaque-type] <<<RefCell<Pcg32>>>> => <<<RngCell>>>
//@ replace-all[R-opaque-type] <<<HashMap<String, SvgElement>>>> => <<<ElemTable>>>
//@end

//@item src/context.rs :: const MAX_CLIP_CHAIN
//@end
pub open spec fn bx(b: BoundingBox) -> (real, real, real, real) { (val(b.x1), val(b.y1), val(b.x2), val(b.y2)) }
pub uninterp spec fn strp_spec(s: Seq<char>) -> Option<real>;
pub uninterp spec fn target_of(ctx: TransformerContext, e: SvgElement) -> Option<SvgElement>;
pub uninterp spec fn own_bbox(e: SvgElement) -> Option<Option<BoundingBox>>;      // None = error
pub uninterp spec fn urlref_of(s: Seq<char>) -> Option<ElRef>;
pub uninterp spec fn lookup(ctx: TransformerContext, r: ElRef) -> Option<SvgElement>;

#[verifier::external_body]
pub fn strp(s: &str) -> (r: Result<R32>) ensures (match strp_spec(s@) { Some(x) => r is Ok && val(r->Ok_0) == x, None => r is Err }) { unimplemented!() }
#[verifier::external_body]
pub fn extract_urlref(s: &str) -> (r: Option<ElRef>) ensures r == urlref_of(s@) { unimplemented!() }
/// the element's `transform` attribute as a function on boxes (TransformAttr::from_str + apply: U-bbox, C08.transform.*)
#[verifier::external_body] pub struct TransformAttr { _p: u8 }
pub uninterp spec fn xf_parse(s: Seq<char>) -> Option<TransformAttr>;
pub uninterp spec fn xf_apply(t: TransformAttr, b: (real, real, real, real)) -> (real, real, real, real);
#[verifier::external_body]
pub fn parse_transform(s: &String) -> (r: Result<TransformAttr>) ensures (match xf_parse(s@) { Some(t) => r == Ok::<TransformAttr, SvgdxError>(t), None => r is Err }) { unimplemented!() }
impl TransformAttr {
    #[verifier::external_body]
    pub fn apply(&self, b: &BoundingBox) -> (r: BoundingBox) ensures bx(r) == xf_apply(*self, bx(*b)) { unimplemented!() }
}
impl BoundingBox {
    #[verifier::external_body]
    pub fn translated(&self, dx: R32, dy: R32) -> (r: BoundingBox)
        ensures bx(r) == (val(self.x1) + val(dx), val(self.y1) + val(dy), val(self.x2) + val(dx), val(self.y2) + val(dy)) { unimplemented!() }
    pub uninterp spec fn isect(a: BoundingBox, b: BoundingBox) -> Option<BoundingBox>;
    #[verifier::external_body]
    pub fn intersect(&self, other: &BoundingBox) -> (r: Option<BoundingBox>) ensures r == BoundingBox::isect(*self, *other) { unimplemented!() }
}
/// one of the first n names is an attribute of the element
pub open spec fn has_any(m: Map<Seq<char>, Seq<char>>, ks: Seq<&str>, n: int) -> bool decreases n {
    if n <= 0 { false } else { has_any(m, ks, n - 1) || m.dom().contains(ks[n - 1]@) }
}
/// R-any: `names.iter().any(|a| self.has_attr(a))`
#[verifier::external_body]
pub fn any_attr(e: &SvgElement, names: &[&str]) -> (r: bool) ensures r == has_any(e.attrs@, names@, names@.len() as int) { unimplemented!() }
impl SvgElement {
    #[verifier::external_body] pub fn to_string(&self) -> String { unimplemented!() }
//@item src/element.rs :: impl SvgElement :: fn get_attr
//@ replace[R-optmap] <<<self.attrs.get(key).map(|x| x.to_owned())>>> => <<<match self.attrs.get(key) { Some(x) => Some(x.clone()), None => None }>>>
//@ ensures
//@ - opt_sv(r) == map_get(self.attrs@, key@)
//@end
//@item src/element.rs :: impl SvgElement :: fn has_attr
//@ ensures
//@ - r == self.attrs@.dom().contains(key@)
//@end
//@item src/element.rs :: impl SvgElement :: fn has_foreign_position
//@ strlit "rect" "box" "point" "text" "use" "reuse" "image" "svg" "foreignObject" "circle" "ellipse" "line" "polyline" "polygon" "path" "cx" "cy" "x1" "y1" "x2" "y2" "x" "y" "width" "height"
//@ replace[R-any] <<<foreign.iter().any(|a| self.has_attr(a))>>> => <<<any_attr(self, foreign)>>>
//@ body-start
//@ | proof { reveal_with_fuel(has_any, 10); }
//@ ensures
//@ - r == foreign_pos(self.name@, self.attrs@)     @@C10.pending.foreign_spec
//@end
//@item src/element.rs :: impl SvgElement :: fn is_connector
//@ strlit "start" "end" "line" "polyline"
//@ ensures
//@ - r == connector_pending(self.name@, self.attrs@)     @@C10.pending.connector_spec
//@end
//@item src/element.rs :: impl SvgElement :: fn has_pending_offset
//@ strlit "text" "tspan" "feOffset" "dx" "dy"
//@ replace[R-matches] <<<!matches!(self.name.as_str(), "text" | "tspan" | "feOffset")>>> => <<<!(self.name.as_str() == "text" || self.name.as_str() == "tspan" || self.name.as_str() == "feOffset")>>>
//@ ensures
//@ - r == offset_pending(self.name@, self.attrs@)     @@C10.pending.offset_spec
//@end
//@item src/element.rs :: impl SvgElement :: fn has_pending_geometry
//@ ensures
//@ - r == unresolved(self.name@, self.attrs@)     @@C10.pending.spec
//@end
    #[verifier::external_body]
    pub fn get_target_element(&self, ctx: &TransformerContext) -> (r: Result<SvgElement>)
        ensures (match target_of(*ctx, *self) { Some(t) => r == Ok::<SvgElement, SvgdxError>(t), None => r is Err }) { unimplemented!() }
    #[verifier::external_body]
    pub fn bbox(&self) -> (r: Result<Option<BoundingBox>>)
        ensures (match own_bbox(*self) { Some(b) => r == Ok::<Option<BoundingBox>, SvgdxError>(b), None => r is Err }) { unimplemented!() }
}

pub open spec fn off(m: Map<Seq<char>, Seq<char>>, k: Seq<char>) -> Option<real> { if m.dom().contains(k) { strp_spec(m[k]) } else { Some(0real) } }

impl TransformerContext {
    #[verifier::external_body]
    pub fn get_element(&self, elref: &ElRef) -> (r: Option<&SvgElement>)
        ensures (match lookup(*self, *elref) { Some(e) => r is Some && *r->Some_0 == e, None => r is None }) { unimplemented!() }

//@item src/context.rs :: impl ElementMap for TransformerContext :: fn get_element_bbox
//@ ensures
//@ - r is Ok && (el.name@ == "use"@ || el.name@ == "reuse"@) && !unresolved(el.name@, el.attrs@) && !el.attrs@.dom().contains("clip-path"@)
//@     && target_of(*self, *el) is Some && own_bbox(target_of(*self, *el)->Some_0) is Some && own_bbox(target_of(*self, *el)->Some_0)->Some_0 is Some ==> ({
//@       let b0 = own_bbox(target_of(*self, *el)->Some_0)->Some_0->Some_0;
//@       let dx = off(el.attrs@, "x"@)->Some_0; let dy = off(el.attrs@, "y"@)->Some_0;
//@       let moved = (val(b0.x1) + dx, val(b0.y1) + dy, val(b0.x2) + dx, val(b0.y2) + dy);
//@       r->Ok_0 is Some && bx(r->Ok_0->Some_0) == (if el.attrs@.dom().contains("transform"@) { xf_apply(xf_parse(el.attrs@["transform"@])->Some_0, moved) } else { moved }) })     @@C08.use.translated.api
//@ decreases
//@ - MAX_CLIP_CHAIN + 2     @@C01.clip.terminates.api
//@end

//@item src/context.rs :: impl TransformerContext :: fn element_bbox_at_depth
//@ implicit C01
//@ replace?[R-optmap] <<<translate_x.map(|tx| strp(&tx)).unwrap_or(Ok(0.))?>>> => <<<(match translate_x { Some(tx) => strp(&tx), None => Ok(0.) })?>>>
//@ replace?[R-optmap] <<<translate_y.map(|ty| strp(&ty)).unwrap_or(Ok(0.))?>>> => <<<(match translate_y { Some(ty) => strp(&ty), None => Ok(0.) })?>>>
//@ replace?[R-refmut] <<<if let Some(ref mut bbox) = &mut el_bbox {\n                    el_bbox = Some(bbox.translated(>>> => <<<if let Some(bbox) = el_bbox {\n                    el_bbox = Some(bbox.translated(>>>
//@ replace[R-refmut] <<<if let (Some(clip_path), Some(ref mut bbox)) = (el.get_attr("clip-path"), &mut el_bbox) {>>> => <<<if let (Some(clip_path), Some(bbox)) = (el.get_attr("clip-path"), el_bbox) {>>>
//@ replace[R-parse] <<<let transform: TransformAttr = transform.parse()?;>>> => <<<let transform: TransformAttr = parse_transform(&transform)?;>>>
//@ ensures
//@ - r is Ok && (el.name@ == "use"@ || el.name@ == "reuse"@) && !unresolved(el.name@, el.attrs@) && !el.attrs@.dom().contains("clip-path"@)
//@     && target_of(*self, *el) is Some && own_bbox(target_of(*self, *el)->Some_0) is Some && own_bbox(target_of(*self, *el)->Some_0)->Some_0 is Some ==> ({
//@       let b0 = own_bbox(target_of(*self, *el)->Some_0)->Some_0->Some_0;
//@       let dx = off(el.attrs@, "x"@)->Some_0; let dy = off(el.attrs@, "y"@)->Some_0;
//@       let moved = (val(b0.x1) + dx, val(b0.y1) + dy, val(b0.x2) + dx, val(b0.y2) + dy);
//@       r->Ok_0 is Some && bx(r->Ok_0->Some_0) == (if el.attrs@.dom().contains("transform"@) { xf_apply(xf_parse(el.attrs@["transform"@])->Some_0, moved) } else { moved }) })     @@C08.use.translated @@C08.use.own_transform
//@ - r is Ok && (el.name@ == "use"@ || el.name@ == "reuse"@) && target_of(*self, *el) is Some
//@     && unresolved(target_of(*self, *el)->Some_0.name@, target_of(*self, *el)->Some_0.attrs@) ==> false     @@C08.use.pending_target_is_error @@C10.use.pending_target_is_error
//@ - (el.name@ == "use"@ || el.name@ == "reuse"@) && !unresolved(el.name@, el.attrs@) && target_of(*self, *el) is Some && own_bbox(target_of(*self, *el)->Some_0) is Some && own_bbox(target_of(*self, *el)->Some_0)->Some_0 is Some
//@     && ((el.attrs@.dom().contains("x"@) && strp_spec(el.attrs@["x"@]) is None) || (el.attrs@.dom().contains("y"@) && strp_spec(el.attrs@["y"@]) is None)) ==> r is Err     @@C10.use.unresolved_offset_is_error @@C08.use.unresolved_offset_is_error
//@ - r is Ok && (el.name@ == "use"@ || el.name@ == "reuse"@) && unresolved(el.name@, el.attrs@) ==> r->Ok_0 is None     @@C10.pending.use_instance
//@ - r is Ok && !(el.name@ == "use"@ || el.name@ == "reuse"@) && !el.attrs@.dom().contains("clip-path"@)
//@     && target_of(*self, *el) is Some ==> own_bbox(target_of(*self, *el)->Some_0) == Some(r->Ok_0)     @@C08.plain.own_box
//@ decreases
//@ - MAX_CLIP_CHAIN + 1 - depth     @@C01.clip.terminates @@C01.clip.chain_depth_bounded_by_a_constant
//@end
}

} // verus!
fn main() {}
