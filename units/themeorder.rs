//@unit themeorder
//@props C06 C14
// U-themeorder: the one place where generated output depends on a hash set (src/themes.rs,
// append_pattern_styles): the sequence of pattern definitions must be a FUNCTION OF THE SET of
// classes in use. A HashSet's iteration order is arbitrary (the trusted contract of the collecting
// statement only promises some duplicate-free enumeration), so the function must not let that
// order reach the output.
//@assume R-abstract: `tb.classes.iter().filter(..).cloned().collect()` returns SOME duplicate-free enumeration of the matching classes (HashSet order is unspecified); `[..table..]` iteration is read as `for pk in 0..6` over pattern_entry(pk)
//@assume Vec<String>::sort on distinct strings yields the unique sorted sequence of the set (sorted_seq)
use vstd::prelude::*;
//@prelude fmt_macro
verus! {
//@prelude std_specs seqlemmas

#[verifier::external_body] pub struct ThemeBuilder { _p: u8 }
//@item src/themes.rs :: enum PatternType
//@ keep-derive Clone Copy
//@end

pub type S = Set<Seq<char>>;
pub uninterp spec fn entry_class(pk: int) -> Seq<char>;
pub uninterp spec fn dash(c: Seq<char>) -> Seq<char>;                       // format!("{}-", c)
pub uninterp spec fn starts_with(c: Seq<char>, p: Seq<char>) -> bool;
pub uninterp spec fn spacing_of(prefix: Seq<char>, c: Seq<char>) -> Option<u32>;
/// THE canonical enumeration of a finite set of strings (ascending); any function of it is a function of the set
pub uninterp spec fn sorted_seq(s: S) -> Seq<Seq<char>>;
pub open spec fn matching(s: S, prefix: Seq<char>) -> S { s.filter(|c: Seq<char>| starts_with(c, prefix)) }
pub open spec fn strs(v: Seq<String>) -> Seq<Seq<char>> { v.map(|i: int, x: String| x@) }

pub struct PatCall { pub class: Seq<char>, pub spacing: u32 }

/// calls produced for the first n entries of an enumeration
pub open spec fn sized_calls(prefix: Seq<char>, en: Seq<Seq<char>>, n: int) -> Seq<PatCall>
    decreases n
{
    if n <= 0 { Seq::<PatCall>::empty() } else {
        let p = sized_calls(prefix, en, n - 1);
        match spacing_of(prefix, en[n - 1]) { Some(g) => p.push(PatCall { class: en[n - 1], spacing: g }), None => p }
    }
}
pub open spec fn kind_calls(s: S, pk: int) -> Seq<PatCall> {
    (if s.contains(entry_class(pk)) { seq![PatCall { class: entry_class(pk), spacing: 1 }] } else { Seq::<PatCall>::empty() })
    + ({ let en = sorted_seq(matching(s, dash(entry_class(pk)))); sized_calls(dash(entry_class(pk)), en, en.len() as int) })
}
pub open spec fn all_calls(s: S, n: int) -> Seq<PatCall> decreases n {
    if n <= 0 { Seq::<PatCall>::empty() } else { all_calls(s, n - 1) + kind_calls(s, n - 1) }
}

impl ThemeBuilder {
    pub uninterp spec fn classes(&self) -> S;
    pub uninterp spec fn calls(&self) -> Seq<PatCall>;
    #[verifier::external_body]
    fn has_class(&self, s: &str) -> (r: bool) ensures r == self.classes().contains(s@) { unimplemented!() }
}
#[verifier::external_body]
fn pattern_defs(tb: &mut ThemeBuilder, t_stroke: &str, class: &str, spacing: u32, direction: PatternType, rotate: Option<i32>)
    ensures final(tb).classes() == old(tb).classes(), final(tb).calls() == old(tb).calls().push(PatCall { class: class@, spacing: spacing })
{ unimplemented!() }
#[verifier::external_body]
fn pattern_entry(pk: usize) -> (r: (&'static str, PatternType, Option<i32>)) ensures r.0@ == entry_class(pk as int) { unimplemented!() }
#[verifier::external_body]
fn get_spacing(prefix: &str, c: &str) -> (r: Option<u32>) ensures r == spacing_of(prefix@, c@) { unimplemented!() }
#[verifier::external_body]
fn dash_of(c: &str) -> (r: String) ensures r@ == dash(c@) { unimplemented!() }
/// the HashSet-ordered collecting statement: SOME duplicate-free enumeration of the matching classes
#[verifier::external_body]
fn matching_classes(tb: &ThemeBuilder, prefix: &String) -> (r: Vec<String>)
    ensures strs(r@).no_duplicates(), strs(r@).to_set() == matching(tb.classes(), prefix@)
{ unimplemented!() }
/// Vec<String>::sort (assumed): for distinct strings the result is the canonical enumeration of the set
#[verifier::external_body]
fn sort_strings(v: &mut Vec<String>)
    requires strs(old(v)@).no_duplicates()
    ensures strs(final(v)@) == sorted_seq(strs(old(v)@).to_set())
{ unimplemented!() }

//@rewrite strlit
//@item src/themes.rs :: fn append_pattern_styles
//@ cut[R-abstract] <<<    for (ptn_class, ptn_type, ptn_rotate) in [>>> .. <<<    ] {>>> => <<<    for pk in 0..6usize {\n        let (ptn_class, ptn_type, ptn_rotate) = pattern_entry(pk);>>>
//@ cut[R-abstract] <<<        fn get_spacing(prefix: &str, c: &str) -> Option<u32> {>>> .. <<<                None\n            }\n        }>>> => <<<>>>
//@ replace[R-fmt-tag] <<<let spec_class = format!("{}-", ptn_class);>>> => <<<let spec_class = dash_of(ptn_class);>>>
//@ cut?[R-abstract] <<<        let classes: Vec<_> = tb>>> .. <<<            .collect();>>> => <<<        let classes: Vec<String> = matching_classes(tb, &spec_class);>>>
//@ cut?[R-abstract] <<<        let mut classes: Vec<_> = tb>>> .. <<<            .collect();>>> => <<<        let mut classes: Vec<String> = matching_classes(tb, &spec_class);>>>
//@ replace?[R-sort] <<<classes.sort();>>> => <<<sort_strings(&mut classes);>>>
//@ before <<<for class in classes {>>>
//@ | let ghost g_en = strs(classes@);
//@ | let ghost g_pre = tb.calls();
//@ after <<<                pattern_defs(tb, t_stroke, &class, grid_size, ptn_type, ptn_rotate);\n            }\n        }>>>
//@ | proof {
//@ |     assert(tb.calls() =~= old(tb).calls() + all_calls(old(tb).classes(), pk as int + 1));
//@ | }
//@ ensures
//@ - final(tb).classes() == old(tb).classes()
//@ - final(tb).calls() == old(tb).calls() + all_calls(old(tb).classes(), 6)     @@C06.patterns.setfn
//@ loop 1
//@ iter oit
//@ invariant
//@ - tb.classes() == old(tb).classes()
//@ - tb.calls() == old(tb).calls() + all_calls(old(tb).classes(), pk as int)     @@C06.patterns.setfn.outer
//@ loop 2
//@ iter it
//@ invariant
//@ - tb.classes() == old(tb).classes()
//@ - spec_class@ == dash(entry_class(pk as int))
//@ - g_en == strs(it.history@ + vstd::std_specs::iter::IteratorSpec::remaining(&it.iter))
//@ - g_en == sorted_seq(matching(old(tb).classes(), spec_class@))     @@C06.patterns.order_is_canonical
//@ - tb.calls() == g_pre + sized_calls(spec_class@, g_en, it.index@)
//@end


// ------------------------------------------------------------------------------ the clock
#[verifier::external_body] pub struct RestOfConfig { _p: u8 }
#[verifier::external_body] pub struct RestOfContext { _p: u8 }
/// RefCell<Pcg32>: the random generator; `state` is what the next draws depend on, `fresh_rng(seed)` the state
/// Pcg32::seed_from_u64(seed) starts in (assumed deterministic)
#[verifier::external_body] pub struct RngCell { _p: u8 }
impl RngCell { pub uninterp spec fn state(&self) -> int; }
impl Clone for RngCell { #[verifier::external_body] fn clone(&self) -> (r: Self) ensures r == *self { unimplemented!() } }
pub uninterp spec fn fresh_rng(seed: u64) -> int;
pub struct TransformConfig { pub seed: u64, pub use_local_styles: bool, pub rest: RestOfConfig }
pub struct TransformerContext { pub local_style_id: Option<String>, pub config: TransformConfig, pub rng: RngCell, pub rest: RestOfContext }
/// R-abstract: the statements that read SystemTime::now() and format the randomised id
#[verifier::external_body]
fn clock_derived_id() -> String { unimplemented!() }
impl TransformerContext {
    #[verifier::external_body]
    pub fn seed_rng(&mut self, seed: u64)
        ensures final(self).local_style_id == old(self).local_style_id, final(self).config == old(self).config, final(self).rest == old(self).rest, final(self).rng.state() == fresh_rng(seed)
    { unimplemented!() }
//@item src/context.rs :: impl TransformerContext :: fn set_config
//@ cut[R-abstract] <<<            let now_seed = SystemTime::now()>>> .. <<<self.local_style_id = Some(format!("svgdx-{:08x}", rng.random::<u32>()))>>> => <<<            self.local_style_id = Some(clock_derived_id())>>>
//@ ensures
//@ - !config.use_local_styles ==> final(self).local_style_id is None     @@C06.clock.local_only
//@ - final(self).config == config
//@ - final(self).rng.state() == fresh_rng(config.seed)     @@C06.rng.seeded_from_config
//@end
//@item src/context.rs :: impl TransformerContext :: fn update_config
//@ ensures
//@ - final(self).config == config
//@ - final(self).rng.state() == (if reseed { fresh_rng(config.seed) } else { old(self).rng.state() })     @@C14.config.update_keeps_random_sequence @@C06.rng.seeded_from_config
//@end
}
} // verus!
fn main() {}
