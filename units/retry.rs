//@unit retry
//@props C10 C17 C08 C01 C15 C09 C16
// U-retry: the forward-reference retry loop `process_tags` (src/transform.rs).
// Every call of Tag::generate_events appends one ghost step Gen(tag, outcome) to the context.
// Proved: the loop terminates; on Ok every tag of the list has a successful step (no failing tag is
// ever dropped) unless inside <specs>; a pass without progress is an error; a limit error is final;
// the builder receives exactly the boxes of the successful steps.
//@assume Tag::generate_events preserves in_specs (scope_frame, proved for the scoping generators in U-scope) and records exactly one ghost step
//@assume the tags handed to process_tags carry pairwise distinct order indices (process_events: `.enumerate().map(|(idx, el)| (OrderIndex::new(idx), ..))`, abstracted in U-passthru as tagify_indexed); the variable bindings are an abstract ghost value `bind` which generate_events may change and update_element does not
//@assume R-itermut-ro: `for (idx, t) in &mut tags.iter_mut()` is read as `tags.iter()`: the body uses `t` only through `&self` methods (get_element, generate_events, clone)
use vstd::prelude::*;
use std::mem;
//@prelude fmt_macro
verus! {
//@prelude std_specs seqlemmas

#[verifier::external_body] pub struct OutputList { _p: u8 }
#[verifier::external_body] pub struct BoundingBox { _p: u8 }
impl Clone for BoundingBox { #[verifier::external_body] fn clone(&self) -> (r: Self) ensures r == *self { unimplemented!() } }
impl Copy for BoundingBox {}
#[verifier::external_body] pub struct BoundingBoxBuilder { _p: u8 }
#[verifier::external_body] pub struct SvgElement { _p: u8 }
impl Clone for SvgElement { #[verifier::external_body] fn clone(&self) -> (r: Self) ensures r == *self { unimplemented!() } }
#[verifier::external_body] pub struct Tag { _p: u8 }
impl Clone for Tag { #[verifier::external_body] fn clone(&self) -> (r: Self) ensures r == *self { unimplemented!() } }
#[verifier::external_body] pub struct OrderIndex { _p: u8 }
impl Clone for OrderIndex { #[verifier::external_body] fn clone(&self) -> (r: Self) ensures r == *self { unimplemented!() } }
#[verifier::external_body] pub struct ErrMap { _p: u8 }
#[verifier::external_body] pub struct OutMap { _p: u8 }
#[verifier::external_body] pub struct CtxRest { _p: u8 }

pub enum SvgdxError {
    VarLimitError(String, usize, u32),
    LoopLimitError(u32, u32),
    DepthLimitExceeded(u32, u32),
    MultiError(ErrMap),
    ParseError(String),
    Other,
}
pub type Result<T> = core::result::Result<T, SvgdxError>;

pub open spec fn is_limit(e: SvgdxError) -> bool {
    e is VarLimitError || e is LoopLimitError || e is DepthLimitExceeded
}
/// outcome of one generate_events call
pub enum Outcome { Done(Option<BoundingBox>), LimitErr, OtherErr }
pub struct Gen { pub tag: Tag, pub outcome: Outcome }
/// ghost: `tr` = generate_events calls in order; `registered` = elements passed to update_element, in order
/// ghost: `bind` = the lexical context an element is evaluated in: the variable bindings in force (the scope
/// stack's content) and the previous element (what `^` refers to), abstract
#[verifier::external_body] pub struct Bind { _p: u8 }
pub struct TransformerContext { pub in_specs: bool, pub tr: Ghost<Seq<Gen>>, pub registered: Ghost<Seq<SvgElement>>, pub bind: Ghost<Bind>, pub rest: CtxRest }
pub uninterp spec fn tag_el(t: Tag) -> Option<SvgElement>;

pub uninterp spec fn union_spec(s: Seq<BoundingBox>) -> Option<BoundingBox>;

impl Tag {
    #[verifier::external_body]
    pub fn get_element(&self) -> (r: Option<SvgElement>) ensures r == tag_el(*self) { unimplemented!() }
    #[verifier::external_body]
    pub fn generate_events(&self, context: &mut TransformerContext) -> (r: Result<(OutputList, Option<BoundingBox>)>)
        requires
            tag_el(*self) is Some ==> old(context).registered@.len() > 0
                && old(context).registered@.last() == tag_el(*self)->Some_0,     // the element AS WRITTEN is registered (first registration = template for reuse) before it is evaluated, inside and outside <specs> @C18.template.registered_as_written
        ensures
            final(context).in_specs == old(context).in_specs,
            final(context).tr@ == old(context).tr@.push(Gen { tag: *self, outcome: match r {
                Ok((_, bb)) => Outcome::Done(bb),
                Err(e) => if is_limit(e) { Outcome::LimitErr } else { Outcome::OtherErr } } }),
    { unimplemented!() }
}
impl TransformerContext {
    #[verifier::external_body]
    pub fn update_element(&mut self, el: &SvgElement)
        ensures final(self).in_specs == old(self).in_specs, final(self).tr == old(self).tr, final(self).registered@ == old(self).registered@.push(*el), final(self).bind == old(self).bind
    { unimplemented!() }
}
impl OutputList { #[verifier::external_body] pub fn is_empty(&self) -> bool { unimplemented!() } }
impl OutMap { #[verifier::external_body] pub fn insert(&mut self, k: OrderIndex, v: OutputList) -> Option<OutputList> { unimplemented!() } }
impl ErrMap {
    #[verifier::external_body] pub fn new() -> ErrMap { unimplemented!() }
    #[verifier::external_body] pub fn insert(&mut self, k: OrderIndex, v: (SvgElement, SvgdxError)) -> Option<(SvgElement, SvgdxError)> { unimplemented!() }
}
/// R-abstract: `for (idx, (el, err)) in err_list { element_errors.insert(idx, (el, err)); }` (HashMap iteration)
#[verifier::external_body]
pub fn merge_errors(into: &mut ErrMap, from: ErrMap) { unimplemented!() }
impl BoundingBoxBuilder {
    pub uninterp spec fn boxes(&self) -> Seq<BoundingBox>;
    #[verifier::external_body] pub fn extend(&mut self, b: BoundingBox) ensures final(self).boxes() == old(self).boxes().push(b) { unimplemented!() }
    #[verifier::external_body] pub fn clone(&self) -> (r: BoundingBoxBuilder) ensures r.boxes() == self.boxes() { unimplemented!() }
    #[verifier::external_body] pub fn build(self) -> (r: Option<BoundingBox>) ensures r == union_spec(self.boxes()) { unimplemented!() }
}

// ------------------------------------------------------------------------------ trace vocabulary
pub open spec fn succeeded(tr: Seq<Gen>, from: int, t: Tag) -> bool {
    exists|k: int| from <= k < tr.len() && (#[trigger] tr[k]).tag == t && tr[k].outcome is Done
}
pub open spec fn no_limit_err(tr: Seq<Gen>, from: int) -> bool {
    forall|k: int| from <= k < tr.len() ==> !((#[trigger] tr[k]).outcome is LimitErr)
}
pub open spec fn ok_boxes(tr: Seq<Gen>, from: int, to: int) -> Seq<BoundingBox>
    decreases to - from
{
    if to <= from { Seq::<BoundingBox>::empty() } else {
        let p = ok_boxes(tr, from, to - 1);
        match tr[to - 1].outcome { Outcome::Done(Some(b)) => p.push(b), _ => p }
    }
}
pub open spec fn pending_covers(orig: Seq<(OrderIndex, Tag)>, pending: Seq<(OrderIndex, Tag)>, tr: Seq<Gen>, from: int) -> bool {
    forall|i: int| 0 <= i < orig.len() ==>
        succeeded(tr, from, (#[trigger] orig[i]).1) || exists|j: int| 0 <= j < pending.len() && (#[trigger] pending[j]).1 == orig[i].1
}

/// every entry of the list carries its own order index (process_events numbers the tags 0, 1, 2, ...)
pub open spec fn distinct_idx(tags: Seq<(OrderIndex, Tag)>) -> bool {
    forall|i: int, j: int| 0 <= i < j < tags.len() ==> (#[trigger] tags[i]).0 != (#[trigger] tags[j]).0
}
/// the retry loop gave up because a COMPLETE pass over everything still pending made no progress:
/// from some point k on, no step succeeded, and every tag that never succeeded was tried after k
pub open spec fn stalled(orig: Seq<(OrderIndex, Tag)>, tr: Seq<Gen>, from: int) -> bool {
    exists|k: int| #![trigger tr.subrange(k, tr.len() as int)] from <= k <= tr.len()
        && (forall|j: int| k <= j < tr.len() ==> !((#[trigger] tr[j]).outcome is Done))
        && (forall|i: int| 0 <= i < orig.len() ==> succeeded(tr, from, (#[trigger] orig[i]).1) || exists|j: int| k <= j < tr.len() && (#[trigger] tr[j]).tag == orig[i].1)
}
pub proof fn lemma_succ_push(tr: Seq<Gen>, g: Gen, from: int, t: Tag)
    requires succeeded(tr, from, t)
    ensures succeeded(tr.push(g), from, t)
{
    let k = choose|k: int| from <= k < tr.len() && (#[trigger] tr[k]).tag == t && tr[k].outcome is Done;
    assert(tr.push(g)[k] == tr[k]);
}
pub proof fn lemma_covers_push(orig: Seq<(OrderIndex, Tag)>, pending: Seq<(OrderIndex, Tag)>, tr: Seq<Gen>, g: Gen, from: int)
    requires pending_covers(orig, pending, tr, from)
    ensures pending_covers(orig, pending, tr.push(g), from)
{
    assert forall|i: int| 0 <= i < orig.len() implies
        succeeded(tr.push(g), from, (#[trigger] orig[i]).1) || exists|j: int| 0 <= j < pending.len() && (#[trigger] pending[j]).1 == orig[i].1 by {
        if succeeded(tr, from, orig[i].1) { lemma_succ_push(tr, g, from, orig[i].1); }
    }
}
pub proof fn lemma_boxes_prefix(tr: Seq<Gen>, g: Gen, from: int, to: int)
    requires to <= tr.len(), 0 <= from
    ensures ok_boxes(tr.push(g), from, to) == ok_boxes(tr, from, to)
    decreases to - from
{
    if to > from {
        lemma_boxes_prefix(tr, g, from, to - 1);
        assert(tr.push(g)[to - 1] == tr[to - 1]);
    }
}
pub proof fn lemma_boxes_push(tr: Seq<Gen>, g: Gen, from: int, pre: Seq<BoundingBox>)
    requires 0 <= from <= tr.len()
    ensures
        pre + ok_boxes(tr.push(g), from, (tr.len() + 1) as int) == (match g.outcome {
            Outcome::Done(Some(b)) => (pre + ok_boxes(tr, from, tr.len() as int)).push(b),
            _ => pre + ok_boxes(tr, from, tr.len() as int) }),
{
    lemma_boxes_prefix(tr, g, from, tr.len() as int);
    assert(tr.push(g)[tr.len() as int] == g);
    match g.outcome {
        Outcome::Done(Some(b)) => { assert(pre + ok_boxes(tr, from, tr.len() as int).push(b) =~= (pre + ok_boxes(tr, from, tr.len() as int)).push(b)); },
        _ => {},
    }
}
pub proof fn lemma_no_limit_push(tr: Seq<Gen>, g: Gen, from: int)
    requires no_limit_err(tr, from),
        !(g.outcome is LimitErr),     // a limit error must end the retry loop: queued, it is retried at every nesting level (exponential time)  @C17.limit.final @C01.retry.limit_final
    ensures no_limit_err(tr.push(g), from)
{
    assert forall|k: int| from <= k < tr.push(g).len() implies !((#[trigger] tr.push(g)[k]).outcome is LimitErr) by {
        if k < tr.len() { assert(tr.push(g)[k] == tr[k]); }
    }
}

//@rewrite strlit
//@item src/transform.rs :: fn process_tags
//@ replace[R-opaque-type] <<<idx_output: &mut BTreeMap<OrderIndex, OutputList>,>>> => <<<idx_output: &mut OutMap,>>>
//@ replace[R-opaque-type] <<<let mut element_errors: HashMap<OrderIndex, (SvgElement, SvgdxError)> = HashMap::new();>>> => <<<let mut element_errors: ErrMap = ErrMap::new();>>>
//@ replace[R-typeann] <<<let remain = &mut Vec::new();>>> => <<<let remain: &mut Vec<(OrderIndex, Tag)> = &mut Vec::new();>>>
//@ replace?[R-closure-param] <<<gen_result.map(|_| None)>>> => <<<gen_result.map(|_u| None)>>>
//@ replace[R-itermut-ro] <<<for (idx, t) in &mut tags.iter_mut() {>>> => <<<for pair in tags.iter() {\n            let (idx, t) = pair;>>>
//@ replace[R-abstract] <<<                            for (idx, (el, err)) in err_list {\n                                element_errors.insert(idx, (el, err));\n                            }>>> => <<<                            merge_errors(&mut element_errors, err_list);>>>
//@ before <<<while !tags.is_empty() && remain.len() != tags.len() {>>>
//@ | let ghost g_orig = tags@;
//@ | let ghost g_from = context.tr@.len() as int;
//@ | let ghost mut g_first: Map<OrderIndex, Bind> = Map::empty();
//@ | let ghost mut g_pass_no: nat = 0;
//@ before <<<for pair in tags.iter() {>>>
//@ | let ghost g_pass = context.tr@.len() as int;
//@ | let ghost mut g_done: nat = 0;
//@ before <<<let gen_result = t.generate_events(context);>>>
//@ | proof { if !g_first.dom().contains(idx) { g_first = g_first.insert(idx, context.bind@); } }
//@ | assert(g_first[idx] == context.bind@); // every evaluation of an element, first or repeated, sees the lexical context (variable bindings, previous element '^') of its place in the document @C15.retry.same_bindings @C10.retry.same_context @C09.retry.same_context @C16.retry.same_context
//@ after <<<let (idx, t) = pair;>>>
//@ | let ghost tr0 = context.tr@;
//@ | let ghost rem0 = remain@;
//@ | let ghost bx0 = bbb.boxes();
//@ after <<<                    remain.push((idx, t.clone()));\n                }\n            }\n>>>
//@ | proof {
//@ |     let g = context.tr@.last();
//@ |     let cur = it.index@;
//@ |     assert(*pair == tags@[cur]);
//@ |     assert(context.tr@ == tr0.push(g));
//@ |     assert(g.tag == tags@[cur].1);
//@ |     if g.outcome is Done { g_done = g_done + 1; }
//@ |     lemma_no_limit_push(tr0, g, g_from);
//@ |     if !context.in_specs {
//@ |         lemma_covers_push(g_orig, tags@, tr0, g, g_from);
//@ |         lemma_boxes_push(tr0, g, g_from, old(bbb).boxes());
//@ |         assert forall|j: int| 0 <= j < cur + 1 implies succeeded(context.tr@, g_from, (#[trigger] tags@[j]).1)
//@ |             || exists|m: int| 0 <= m < remain@.len() && (#[trigger] remain@[m]).1 == tags@[j].1 by {
//@ |             if j < cur {
//@ |                 if succeeded(tr0, g_from, tags@[j].1) { lemma_succ_push(tr0, g, g_from, tags@[j].1); }
//@ |                 else {
//@ |                     let m = choose|m: int| 0 <= m < rem0.len() && (#[trigger] rem0[m]).1 == tags@[j].1;
//@ |                     assert(remain@[m] == rem0[m]);
//@ |                 }
//@ |             } else {
//@ |                 if g.outcome is Done { assert(context.tr@[tr0.len() as int] == g); }
//@ |                 else { assert(remain@[rem0.len() as int].1 == tags@[cur].1); }
//@ |             }
//@ |         }
//@ |     }
//@ | }
//@ before? <<<return gen_result.map(>>>
//@ | proof {
//@ |     let tr = context.tr@;
//@ |     assert(tr[tr.len() - 1].outcome is LimitErr);     // only a limit error may end the pass early  @C10.retry.gives_up_only_when_stalled
//@ |     assert(!no_limit_err(tr, g_from));
//@ | }
//@ after <<<remain.clear();>>>
//@ | proof { g_pass_no = g_pass_no + 1; }
//@ after <<<if tags.len() == remain.len() {>>>
//@ | proof {
//@ |     if !context.in_specs {
//@ |         let tr = context.tr@;
//@ |         assert(g_done == 0);
//@ |         assert(tr.subrange(g_pass, tr.len() as int).len() >= 0);
//@ |         assert forall|i: int| 0 <= i < g_orig.len() implies succeeded(tr, g_from, (#[trigger] g_orig[i]).1)
//@ |             || exists|j: int| g_pass <= j < tr.len() && (#[trigger] tr[j]).tag == g_orig[i].1 by {
//@ |             if !succeeded(tr, g_from, g_orig[i].1) {
//@ |                 let m = choose|m: int| 0 <= m < tags@.len() && (#[trigger] tags@[m]).1 == g_orig[i].1;
//@ |                 assert(tr[g_pass + m].tag == tags@[m].1);
//@ |             }
//@ |         }
//@ |         assert(stalled(g_orig, tr, g_from));
//@ |     }
//@ | }
//@ requires
//@ - distinct_idx(old(tags)@)
//@ ensures
//@ - r is Err && !old(context).in_specs && no_limit_err(final(context).tr@, old(context).tr@.len() as int) ==> stalled(old(tags)@, final(context).tr@, old(context).tr@.len() as int)     @@C10.retry.gives_up_only_when_stalled
//@ - final(context).in_specs == old(context).in_specs
//@ - r is Ok && !old(context).in_specs ==> forall|i: int| 0 <= i < old(tags)@.len() ==>
//@       succeeded(final(context).tr@, old(context).tr@.len() as int, (#[trigger] old(tags)@[i]).1)     @@C10.retry.complete
//@ - r is Ok ==> no_limit_err(final(context).tr@, old(context).tr@.len() as int)     @@C17.limit.final @@C01.retry.limit_final
//@ - !no_limit_err(final(context).tr@, old(context).tr@.len() as int) ==> r is Err && is_limit(r->Err_0)     @@C17.limit.propagated @@C17.limit.propagated_in_specs
//@ - r is Ok ==> r->Ok_0 == union_spec(final(bbb).boxes())     @@C08.union.result
//@ - r is Ok && !old(context).in_specs ==> final(bbb).boxes() == old(bbb).boxes() + ok_boxes(final(context).tr@, old(context).tr@.len() as int, final(context).tr@.len() as int)     @@C08.union.all
//@ - r is Ok && old(context).in_specs ==> final(bbb).boxes() == old(bbb).boxes()     @@C08.union.specs_silent @@C18.specs.silent
//@ loop 1
//@ invariant
//@ - context.in_specs == old(context).in_specs
//@ - remain@.len() == 0
//@ - context.tr@.len() >= g_from
//@ - g_from == old(context).tr@.len()
//@ - g_orig == old(tags)@
//@ - g_pass_no == 0 ==> g_first =~= Map::<OrderIndex, Bind>::empty() && tags@ == g_orig
//@ - distinct_idx(g_orig)
//@ - !context.in_specs ==> pending_covers(g_orig, tags@, context.tr@, g_from)
//@ - no_limit_err(context.tr@, g_from)
//@ - !context.in_specs ==> bbb.boxes() == old(bbb).boxes() + ok_boxes(context.tr@, g_from, context.tr@.len() as int)
//@ - context.in_specs ==> bbb.boxes() == old(bbb).boxes()
//@ decreases
//@ - tags@.len()     @@C01.retry.terminates
//@ loop 2
//@ iter it
//@ invariant
//@ - 0 <= g_from
//@ - context.in_specs == old(context).in_specs
//@ - context.tr@.len() >= g_from
//@ - remain@.len() <= it.index@
//@ - context.in_specs ==> remain@.len() == 0
//@ - !context.in_specs ==> pending_covers(g_orig, tags@, context.tr@, g_from)
//@ - !context.in_specs ==> forall|j: int| 0 <= j < it.index@ ==> succeeded(context.tr@, g_from, (#[trigger] tags@[j]).1)
//@       || exists|m: int| 0 <= m < remain@.len() && (#[trigger] remain@[m]).1 == tags@[j].1
//@ - no_limit_err(context.tr@, g_from)     @@C17.limit.final.loop @@C01.retry.limit_final.loop
//@ - g_from == old(context).tr@.len() && g_orig == old(tags)@
//@ - g_pass_no == 0 ==> tags@ == g_orig && distinct_idx(g_orig)
//@ - g_pass_no == 0 ==> forall|k: int| it.index@ <= k < tags@.len() ==> !g_first.dom().contains((#[trigger] tags@[k]).0)
//@ - g_from <= g_pass && context.tr@.len() == g_pass + it.index@
//@ - forall|j: int| 0 <= j < it.index@ ==> (#[trigger] context.tr@[g_pass + j]).tag == tags@[j].1
//@ - !context.in_specs ==> remain@.len() + g_done == it.index@
//@ - g_done == 0 ==> forall|j: int| g_pass <= j < context.tr@.len() ==> !((#[trigger] context.tr@[j]).outcome is Done)
//@ - !context.in_specs ==> bbb.boxes() == old(bbb).boxes() + ok_boxes(context.tr@, g_from, context.tr@.len() as int)
//@ - context.in_specs ==> bbb.boxes() == old(bbb).boxes()
//@end

} // verus!
fn main() {}
