//@unit text
//@props C19
// U-text: where a shape's text is anchored and which alignment classes it gets
// (get_text_position, src/text.rs), real-number model.
//@assume strp / LocSpec::from_str / the text-dxy splitting are deterministic partial functions of their string; SvgElement::bbox is a deterministic function of the element; BoundingBox::locspec meets loc_point (U-geom)
use vstd::prelude::*;
//@prelude fmt_macro
verus! {
//@prelude std_specs r32 attrmap

pub enum SvgdxError { ParseError(String), MissingBoundingBox(String), Other }
pub type Result<T> = core::result::Result<T, SvgdxError>;
#[verifier::external_body] pub struct ClassList { _p: u8 }
#[verifier::external_body] pub struct OrderIndex { _p: u8 }

//@rewrite f32 strlit strmatch
//@item src/position.rs :: enum Length
//@ keep-derive Clone Copy
//@end
//@item src/position.rs :: enum LocSpec
//@ keep-derive Clone Copy
//@end
//@item src/position.rs :: struct BoundingBox
//@ keep-derive Clone Copy
//@end
//@item src/element.rs :: struct SvgElement
//@end

pub open spec fn bx(b: BoundingBox) -> (real, real, real, real) { (val(b.x1), val(b.y1), val(b.x2), val(b.y2)) }
pub open spec fn len_offset(l: Length, start: real, end: real) -> real {
    match l {
        Length::Absolute(a) => { let m = if end < start { -1real } else { 1real }; if val(a) < 0real { end + val(a) * m } else { start + val(a) * m } },
        Length::Ratio(r) => start + (end - start) * val(r),
    }
}
pub open spec fn loc_point(b: BoundingBox, ls: LocSpec) -> (real, real) {
    let (x1, y1, x2, y2) = bx(b);
    let mx = (x1 + x2) / 2real;
    let my = (y1 + y2) / 2real;
    match ls {
        LocSpec::TopLeft => (x1, y1), LocSpec::Top => (mx, y1), LocSpec::TopRight => (x2, y1), LocSpec::Right => (x2, my),
        LocSpec::BottomRight => (x2, y2), LocSpec::Bottom => (mx, y2), LocSpec::BottomLeft => (x1, y2), LocSpec::Left => (x1, my),
        LocSpec::Center => (mx, my),
        LocSpec::TopEdge(l) => (len_offset(l, x1, x2), y1), LocSpec::RightEdge(l) => (x2, len_offset(l, y1, y2)),
        LocSpec::BottomEdge(l) => (len_offset(l, x1, x2), y2), LocSpec::LeftEdge(l) => (x1, len_offset(l, y1, y2)),
    }
}
pub open spec fn is_top(l: LocSpec) -> bool { l is Top || l is TopLeft || l is TopRight || l is TopEdge }
pub open spec fn is_bottom(l: LocSpec) -> bool { l is Bottom || l is BottomLeft || l is BottomRight || l is BottomEdge }
pub open spec fn is_left(l: LocSpec) -> bool { l is Left || l is TopLeft || l is BottomLeft || l is LeftEdge }
pub open spec fn is_right(l: LocSpec) -> bool { l is Right || l is TopRight || l is BottomRight || l is RightEdge }

pub uninterp spec fn strp_spec(s: Seq<char>) -> Option<real>;
pub uninterp spec fn locspec_parse(s: Seq<char>) -> Option<LocSpec>;
pub uninterp spec fn dxy_parse(s: Seq<char>) -> Option<(real, real)>;
pub uninterp spec fn elem_bbox(e: SvgElement) -> Option<BoundingBox>;

#[verifier::external_body]
pub fn strp(s: &str) -> (r: Result<R32>) ensures (match strp_spec(s@) { Some(x) => r is Ok && val(r->Ok_0) == x, None => r is Err }) { unimplemented!() }
#[verifier::external_body]
pub fn parse_locspec(s: &String) -> (r: Result<LocSpec>) ensures (match locspec_parse(s@) { Some(l) => r == Ok::<LocSpec, SvgdxError>(l), None => r is Err }) { unimplemented!() }
/// R-abstract: `attr_split_cycle(&dxy).map_while(|v| strp(&v).ok())` + two `next()` calls
#[verifier::external_body]
pub fn parse_dxy(s: &String) -> (r: Result<(R32, R32)>)
    ensures (match dxy_parse(s@) { Some(p) => r is Ok && val(r->Ok_0.0) == p.0 && val(r->Ok_0.1) == p.1, None => r is Err })
{ unimplemented!() }

impl ClassList {
    pub uninterp spec fn view(&self) -> Set<Seq<char>>;
    #[verifier::external_body] pub fn contains(&self, c: &str) -> (r: bool) ensures r == self@.contains(c@) { unimplemented!() }
    #[verifier::external_body] pub fn remove(&mut self, c: &str) -> (r: bool) ensures r == old(self)@.contains(c@), final(self)@ == old(self)@.remove(c@) { unimplemented!() }
}
impl LocSpec {
    #[verifier::external_body] pub fn is_top(&self) -> (r: bool) ensures r == is_top(*self) { unimplemented!() }
    #[verifier::external_body] pub fn is_bottom(&self) -> (r: bool) ensures r == is_bottom(*self) { unimplemented!() }
    #[verifier::external_body] pub fn is_left(&self) -> (r: bool) ensures r == is_left(*self) { unimplemented!() }
    #[verifier::external_body] pub fn is_right(&self) -> (r: bool) ensures r == is_right(*self) { unimplemented!() }
}
impl BoundingBox {
    #[verifier::external_body]
    pub fn locspec(&self, ls: LocSpec) -> (r: (R32, R32)) ensures (val(r.0), val(r.1)) == loc_point(*self, ls) { unimplemented!() }
    #[verifier::external_body]
    pub fn width(&self) -> (r: R32) ensures val(r) == val(self.x2) - val(self.x1) { unimplemented!() }
    #[verifier::external_body]
    pub fn height(&self) -> (r: R32) ensures val(r) == val(self.y2) - val(self.y1) { unimplemented!() }
}
impl SvgElement {
//@item src/element.rs :: impl SvgElement :: fn pop_attr
//@ ensures
//@ - opt_sv(r) == map_get(old(self).attrs@, key@) && final(self).attrs@ == old(self).attrs@.remove(key@)
//@ - final(self).name == old(self).name && final(self).classes == old(self).classes
//@end
//@item src/element.rs :: impl SvgElement :: fn has_class
//@ ensures
//@ - r == self.classes@.contains(class@)
//@end
//@item src/element.rs :: impl SvgElement :: fn pop_class
//@ ensures
//@ - r == old(self).classes@.contains(class@) && final(self).classes@ == old(self).classes@.remove(class@)
//@ - final(self).name == old(self).name && final(self).attrs == old(self).attrs
//@end
//@item src/element.rs :: impl SvgElement :: fn set_attr
//@ ensures
//@ - final(self).attrs@ == old(self).attrs@.insert(key@, value@)
//@ - final(self).name == old(self).name && final(self).classes == old(self).classes
//@end
    /// `SvgElement::new("text", &[])`: an element without attributes
    #[verifier::external_body]
    pub fn new_text() -> (r: SvgElement) ensures r.name@ == "text"@, r.attrs@ == Map::<Seq<char>, Seq<char>>::empty() { unimplemented!() }
    #[verifier::external_body]
    pub fn bbox(&self) -> (r: Result<Option<BoundingBox>>) ensures r is Ok ==> r->Ok_0 == elem_bbox(*self) { unimplemented!() }
    #[verifier::external_body]
    pub fn to_string(&self) -> String { unimplemented!() }
}

// ------------------------------------------------------------------------------ the statement's table
/// text is pushed outside for lines, points and text elements, or when asked to; inside otherwise
pub open spec fn outside_of(e: SvgElement) -> bool {
    if e.classes@.contains("d-text-outside"@) { true }
    else if e.classes@.contains("d-text-inside"@) { false }
    else { e.name@ == "line"@ || e.name@ == "point"@ || e.name@ == "text"@ }
}
pub open spec fn attr_or(m: Map<Seq<char>, Seq<char>>, k: Seq<char>, d: Seq<char>) -> Seq<char> { if m.dom().contains(k) { m[k] } else { d } }
pub open spec fn vclass(base_in: Seq<char>, base_out: Seq<char>, outside: bool, vertical: bool) -> Seq<char> {
    let b = if outside { base_out } else { base_in };
    if vertical { b + "-vertical"@ } else { b }
}

//@item src/text.rs :: fn get_text_position
//@ strlit "d-text-top" "d-text-bottom" "d-text-left" "d-text-right" "-vertical" "d-text-top-vertical" "d-text-bottom-vertical" "d-text-left-vertical" "d-text-right-vertical"
//@ cut[R-abstract] <<<            let mut parts = attr_split_cycle(&dxy).map_while(|v| strp(&v).ok());>>> .. <<<                SvgdxError::ParseError("dy from text-dxy should be numeric".to_owned())\n            })?;>>> => <<<            let dxy_pair = parse_dxy(&dxy)?;\n            t_dx = dxy_pair.0;\n            t_dy = dxy_pair.1;>>>
//@ replace[R-into] <<<.unwrap_or("c".into())>>> => <<<.unwrap_or("c".to_string())>>>
//@ replace[R-parse] <<<text_loc_str.parse::<LocSpec>()?>>> => <<<parse_locspec(&text_loc_str)?>>>
//@ ensures
//@ - r is Ok ==> r->Ok_0.2 == outside_of(*old(element))     @@C19.outside.rule
//@ - r is Ok ==> locspec_parse(attr_or(old(element).attrs@, "text-loc"@, "c"@)) == Some(r->Ok_0.3)     @@C19.anchor.loc
//@ - r is Ok ==> elem_bbox(*final(element)) is Some && ({
//@       let a = r->Ok_0.3; let out = r->Ok_0.2;
//@       let off = strp_spec(attr_or(old(element).attrs@, "text-offset"@, "1"@))->Some_0;
//@       let m = old(element).attrs@;
//@       let udx = if m.dom().contains("text-dx"@) { strp_spec(m["text-dx"@])->Some_0 } else if m.dom().contains("text-dxy"@) { dxy_parse(m["text-dxy"@])->Some_0.0 } else { 0real };
//@       let udy = if m.dom().contains("text-dy"@) { strp_spec(m["text-dy"@])->Some_0 } else if m.dom().contains("text-dxy"@) { dxy_parse(m["text-dxy"@])->Some_0.1 } else { 0real };
//@       let inward_y = if is_top(a) { off } else if is_bottom(a) { 0real - off } else { 0real };
//@       let inward_x = if is_left(a) { off } else if is_right(a) { 0real - off } else { 0real };
//@       let p = loc_point(elem_bbox(*final(element))->Some_0, a);
//@       val(r->Ok_0.0) == p.0 + udx + (if out { 0real - inward_x } else { inward_x })
//@       && val(r->Ok_0.1) == p.1 + udy + (if out { 0real - inward_y } else { inward_y }) })     @@C19.anchor.table
//@ - r is Ok ==> ({ let a = r->Ok_0.3; let out = r->Ok_0.2; let v = old(element).classes@.contains("d-text-vertical"@); let c = r->Ok_0.4@;
//@       c.len() >= 1 && c[0]@ == "d-text"@
//@       && c.len() == 1 + (if is_top(a) || is_bottom(a) { 1int } else { 0int }) + (if is_left(a) || is_right(a) { 1int } else { 0int })
//@       && (is_top(a) ==> c[1]@ == vclass("d-text-top"@, "d-text-bottom"@, out, v))
//@       && (is_bottom(a) && !is_top(a) ==> c[1]@ == vclass("d-text-bottom"@, "d-text-top"@, out, v))
//@       && (is_left(a) ==> c.last()@ == vclass("d-text-left"@, "d-text-right"@, out, v))
//@       && (is_right(a) && !is_left(a) ==> c.last()@ == vclass("d-text-right"@, "d-text-left"@, out, v)) })     @@C19.class.table
//@ - r is Ok ==> !final(element).attrs@.dom().contains("text-loc"@) && !final(element).attrs@.dom().contains("text-offset"@)
//@       && !final(element).attrs@.dom().contains("text-dx"@) && !final(element).attrs@.dom().contains("text-dy"@) && !final(element).attrs@.dom().contains("text-dxy"@)     @@C19.attrs.moved
//@end

// ------------------------------------------------------------------------------ the generated text element
// R-fragment: the statements of process_text_attr that create the <text> element and take the
// text-specific attributes text-lsp / text-style off the shape. For a <text> carrier the generated
// element is a copy of the carrier: whatever is taken off afterwards stays on the copy.
impl Clone for SvgElement { #[verifier::external_body] fn clone(&self) -> (r: Self) ensures r == *self { unimplemented!() } }
//@item src/text.rs :: fn process_text_attr
//@ fragment-name text_element_of
//@ fragment-from <<<    // There will always be a text element>>>
//@ fragment-to <<<        text_elem.set_attr("style", style);\n    }>>>
//@ fragment-head <<<fn text_element_of(orig_elem: &mut SvgElement, x_str: String, y_str: String) -> Result<(SvgElement, R32, Option<String>)> {>>>
//@ fragment-tail <<<    Ok((text_elem, line_spacing, text_style))\n}>>>
//@ strlit "text" "text-lsp" "text-style" "x" "y" "style" "1.05"
//@ replace[R-ctor] <<<SvgElement::new("text", &[])>>> => <<<SvgElement::new_text()>>>
//@ replace[R-into] <<<.unwrap_or("1.05".to_owned())>>> => <<<.unwrap_or("1.05".to_string())>>>
//@ ensures
//@ - r is Ok ==> !r->Ok_0.0.attrs@.dom().contains("text-lsp"@) && !r->Ok_0.0.attrs@.dom().contains("text-style"@)     @@C19.attrs.text_specific_not_on_text_element
//@ - r is Ok ==> !final(orig_elem).attrs@.dom().contains("text-lsp"@) && !final(orig_elem).attrs@.dom().contains("text-style"@)     @@C19.attrs.moved_lsp_style
//@ - r is Ok ==> (match map_get(old(orig_elem).attrs@, "text-style"@) { Some(st) => map_get(r->Ok_0.0.attrs@, "style"@) == Some(st), None => old(orig_elem).name@ != "text"@ ==> !r->Ok_0.0.attrs@.dom().contains("style"@) })     @@C19.attrs.text_style_becomes_style
//@ - r is Ok ==> strp_spec(attr_or(old(orig_elem).attrs@, "text-lsp"@, "1.05"@)) == Some(val(r->Ok_0.1))     @@C19.attrs.line_spacing
//@end

// ------------------------------------------------------------------------------ the text itself
// R-fragment: the statement of process_text_attr's per-line loop which decides a tspan's character
// data. The property: each line of the author's text is the tspan's content, verbatim; only a line
// with no characters at all gets the zero-width-space placeholder (the constant ZWSP, a fragment of its own).
//@item src/text.rs :: fn process_text_attr
//@ fragment-name zwsp_const
//@ fragment-from <<<    const ZWSP: &str = >>>
//@ fragment-to <<<; // Zero-width space>>>
//@ fragment-head <<<fn zwsp_const() -> &'static str {>>>
//@ fragment-inner
//@ fragment-tail <<<}>>>
//@ strlit "\u{200B}"
//@ ensures
//@ - r@ == seq!['\u{200B}']     @@C19.tspan.placeholder_is_zero_width_space
//@end
//@item src/text.rs :: fn process_text_attr
//@ fragment-name tspan_content
//@ fragment-from <<<            tspan.text_content = Some(>>>
//@ fragment-to <<<            });>>>
//@ fragment-head <<<fn tspan_content(tspan: &mut SvgElement, text_fragment: String, ZWSP: &str) {>>>
//@ fragment-tail <<<}>>>
//@ replace?[R-clone] <<<text_fragment.to_string()>>> => <<<text_fragment.clone()>>>
//@ ensures
//@ - text_fragment@.len() > 0 ==> final(tspan).text_content == Some(text_fragment)     @@C19.tspan.line_verbatim
//@ - text_fragment@.len() == 0 ==> final(tspan).text_content is Some && final(tspan).text_content->Some_0@ == ZWSP@     @@C19.tspan.empty_line_placeholder
//@ - final(tspan).name == old(tspan).name && final(tspan).attrs == old(tspan).attrs && final(tspan).classes == old(tspan).classes     @@C19.tspan.frame
//@end

} // verus!
fn main() {}
