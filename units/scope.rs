//@unit scope
//@props C14 C15 C18 C17 C08 C10
// U-scope: variable scopes are lexical. push_element/pop_element/set_var (src/context.rs) and the
// four scoping generators (GroupElement, SpecsElement, VarElement in src/transform.rs,
// ReuseElement in src/reuse.rs) are verified to leave the element stack, the height of the scope
// stack and the in_specs flag as they found them on EVERY exit, Ok or Err.
//@assume process_events and SvgElement::generate_events meet the same trait-level contract (scope_frame) - process_tags is checked against it in U-retry, the dispatcher forwards it
//@assume R-tostring: `value.to_string()` on a `&String` is `value.clone()` (the blanket ToString impl cannot be given a spec); R-itermap: `for v in xs.iter().rev().map(|s| &s.vars)` is `for s_ in xs.iter().rev() { let v = &s_.vars; ..`
//@assume R-inspect-err: `e.inspect_err(|_| { context.pop_element(); })?` is rewritten to the equivalent `match e { Ok(v) => v, Err(err) => { context.pop_element(); return Err(err); } }` (closures capturing &mut are not translated)
use vstd::prelude::*;
//@prelude fmt_macro
verus! {
//@prelude std_specs r32 seqlemmas

#[verifier::external_body] pub struct OutputList { _p: u8 }
#[verifier::external_body] pub struct InputList { _p: u8 }
#[verifier::external_body] pub struct OutputEvent { _p: u8 }
#[verifier::external_body] pub struct BoundingBox { _p: u8 }
impl Clone for BoundingBox { #[verifier::external_body] fn clone(&self) -> (r: Self) ensures r == *self { unimplemented!() } }
impl Copy for BoundingBox {}
#[verifier::external_body] pub struct Size { _p: u8 }
#[verifier::external_body] pub struct Position { _p: u8 }
#[verifier::external_body] pub struct AttrMap { _p: u8 }
#[verifier::external_body] pub struct ClassList { _p: u8 }
#[verifier::external_body] pub struct OrderIndex { _p: u8 }
#[verifier::external_body] pub struct InputEvent { _p: u8 }
#[verifier::external_body] pub struct RngCell { _p: u8 }
#[verifier::external_body] pub struct ElemTable { _p: u8 }
impl ElemTable {
    /// HashMap<String, SvgElement> (assumed contract of insert)
    pub uninterp spec fn view(&self) -> Map<Seq<char>, SvgElement>;
    /// `map.get(&k).cloned()`
    #[verifier::external_body]
    pub fn get_cloned(&self, k: &String) -> (r: Option<SvgElement>)
        ensures (r is Some) == self@.dom().contains(k@), r is Some ==> r->Some_0 == self@[k@]
    { unimplemented!() }
    #[verifier::external_body]
    pub fn insert(&mut self, k: String, v: SvgElement) -> (r: Option<SvgElement>)
        ensures final(self)@ == old(self)@.insert(k@, v), (r is None) == !old(self)@.dom().contains(k@)
    { unimplemented!() }
}
#[verifier::external_body] pub struct VarTable { _p: u8 }
#[verifier::external_body] pub struct DefaultsList { _p: u8 }
#[verifier::external_body] pub struct TransformConfigRest { _p: u8 }

pub enum SvgdxError { VarLimitError(String, usize, u32), DocumentError(String), MissingAttribute(String), ReferenceError(ElRef), ParseError(String), Other }
pub type Result<T> = core::result::Result<T, SvgdxError>;
pub struct TransformConfig { pub var_limit: u32, pub add_metadata: bool, pub rest: TransformConfigRest }

//@item src/types.rs :: enum ElRef
//@end
impl Clone for ElRef { #[verifier::external_body] fn clone(&self) -> (r: Self) ensures r == *self { unimplemented!() } }
//@item src/element.rs :: struct SvgElement
//@end
impl Clone for SvgElement { #[verifier::external_body] fn clone(&self) -> (r: Self) ensures r == *self { unimplemented!() } }

//@item src/context.rs :: struct Scope
//@ replace[R-opaque-type] <<<HashMap<String, String>>>> => <<<VarTable>>>
//@ replace[R-opaque-type] <<<Vec<(ElementMatch, SvgElement)>>>> => <<<DefaultsList>>>
//@end
//@item src/context.rs :: struct TransformerContext
//@ replace[R-opaque-type] <<<RefCell<Pcg32>>>> => <<<RngCell>>>
//@ replace-all[R-opaque-type] <<<HashMap<String, SvgElement>>>> => <<<ElemTable>>>
//@ replace[R-ghost] <<<    pub config: TransformConfig,>>> => <<<    pub config: TransformConfig,\n    /// ghost: every (name, value) assigned through set_var, in order\n    pub vars_set: Ghost<Seq<(Seq<char>, Seq<char>)>>,>>>
//@end

impl Scope {
    /// assumed: `Self { vars, ..Default::default() }`
    #[verifier::external_body]
    pub fn with_vars(vars: VarTable) -> (r: Scope) ensures r.vars == vars { unimplemented!() }
    #[verifier::external_body]
    pub fn default() -> (r: Scope) { unimplemented!() }
}
impl VarTable {
    pub uninterp spec fn view(&self) -> Map<Seq<char>, Seq<char>>;
    #[verifier::external_body]
    pub fn insert(&mut self, k: String, v: String) -> (r: Option<String>) ensures final(self)@ == old(self)@.insert(k@, v@) { unimplemented!() }
    /// HashMap<String, String>::get(&str)
    #[verifier::external_body]
    pub fn get(&self, k: &str) -> (r: Option<&String>)
        ensures (r is Some) == self@.dom().contains(k@), r is Some ==> r->Some_0@ == self@[k@]
    { unimplemented!() }
}
/// the binding in force: the innermost scope (highest index below n) that defines the name
pub open spec fn lookup(st: Seq<Scope>, name: Seq<char>, n: int) -> Option<Seq<char>> decreases n {
    if n <= 0 { None } else if st[n - 1].vars@.dom().contains(name) { Some(st[n - 1].vars@[name]) } else { lookup(st, name, n - 1) }
}

/// elements whose attributes are variable definitions for what they contain or instantiate
pub open spec fn scoping_name(n: Seq<char>) -> bool { n == "g"@ || n == "symbol"@ || n == "reuse"@ }
pub uninterp spec fn defaulted(e: SvgElement) -> bool;
/// `ev` is `raw` after eval_attributes (a relation: several raw elements may evaluate to the same one)
pub uninterp spec fn evaluated_from(raw: SvgElement, ev: SvgElement) -> bool;
/// the (name, value) pairs of an element's attribute map, in its order
pub uninterp spec fn spec_pairs(e: SvgElement) -> Seq<(String, String)>;
pub uninterp spec fn attr_of(e: SvgElement, k: Seq<char>) -> Option<Seq<char>>;
pub uninterp spec fn byte_len(s: Seq<char>) -> nat;
/// the attributes of a <g> / <reuse> are variables of its content: every value that substitution produced
/// (it differs from what the author wrote) is within var-limit - the bound <var> enforces on assigned values
pub open spec fn scope_vars_bounded(raw: SvgElement, ev: SvgElement, limit: nat) -> bool {
    forall|i: int| 0 <= i < spec_pairs(ev).len() ==>
        byte_len((#[trigger] spec_pairs(ev)[i]).1@) <= limit || attr_of(raw, spec_pairs(ev)[i].0@) == Some(spec_pairs(ev)[i].1@)
}
pub uninterp spec fn attrs_evaluated(a: AttrMap, c: ClassList) -> bool;
/// everything of the context a scoping generator must restore
pub open spec fn scope_frame(pre: TransformerContext, post: TransformerContext) -> bool {
    &&& post.element_stack@ == pre.element_stack@
    &&& (post.scope_stack.len() == pre.scope_stack.len() || (pre.scope_stack.len() == 0 && post.scope_stack.len() == 1))
    &&& post.in_specs == pre.in_specs
}
/// functions that do not touch scoping state at all
pub open spec fn scope_untouched(pre: TransformerContext, post: TransformerContext) -> bool {
    &&& post.element_stack@ == pre.element_stack@
    &&& post.scope_stack@ == pre.scope_stack@
    &&& post.in_specs == pre.in_specs
    &&& post.config == pre.config
}

impl SvgElement {
    #[verifier::external_body] pub fn get_attrs(&self) -> VarTable { unimplemented!() }
    #[verifier::external_body] pub fn get_attr(&self, key: &str) -> (r: Option<String>)
        ensures match attr_of(*self, key@) { Some(v) => r is Some && r->Some_0@ == v, None => r is None }
    { unimplemented!() }
    #[verifier::external_body] pub fn has_attr(&self, key: &str) -> bool { unimplemented!() }
    #[verifier::external_body] pub fn set_attr(&mut self, key: &str, value: &str) { unimplemented!() }
    #[verifier::external_body] pub fn pop_attr(&mut self, key: &str) -> Option<String> { unimplemented!() }
    /// ghost: the `{{..}}` / `$var` expressions of the attribute values have been evaluated
    pub open spec fn evaluated(&self) -> bool { attrs_evaluated(self.attrs, self.classes) }     // a property of the attribute values (not of the cached content box)
    #[verifier::external_body] pub fn eval_attributes(&mut self, ctx: &TransformerContext) -> (r: Result<()>) ensures r is Ok ==> final(self).evaluated() && evaluated_from(*old(self), *final(self)) { unimplemented!() }
    #[verifier::external_body] pub fn inner_events(&self, context: &TransformerContext) -> Option<InputList> { unimplemented!() }
    #[verifier::external_body] pub fn is_empty_element(&self) -> bool { unimplemented!() }
    #[verifier::external_body] pub fn bbox(&self) -> Result<Option<BoundingBox>>
        requires self.evaluated()     // the box (which applies the element's transform attribute) is computed from evaluated attributes: transform="translate({{1 + 2}} $t)" is legal @C14.group.box_from_evaluated_attributes @C08.group.box_from_evaluated_attributes
    { unimplemented!() }
    #[verifier::external_body] pub fn expand_compound_size(&mut self)
        requires !scoping_name(old(self).name@),     // (as for resolve_size_delta: `wh` on a group is the variable $wh) @C15.instance.scoping_attributes_stay_variables @C18.instance.scoping_attributes_stay_variables
            old(self).evaluated(),     // a compound value (wh, rxy, dwh) is split into its parts only after its expressions are evaluated: "{{$s * 2}} {{$s - 1}}" has blanks inside the expressions @C14.reuse.evaluated_before_split @C18.reuse.evaluated_before_split
        ensures final(self).evaluated(), final(self).name == old(self).name
    { unimplemented!() }
    /// ghost: dw / dh (dwh) have been applied to the size attributes ("Assumes any dw / dh have already been applied", SvgElement::size)
    pub uninterp spec fn deltas_resolved(&self) -> bool;
    /// ghost: the position shorthands (xy, cxy, xy1, xy2, dxy) have been expanded into their per-axis attributes
    pub uninterp spec fn pos_expanded(&self) -> bool;
    #[verifier::external_body] pub fn size(&self, ctx: &TransformerContext) -> Result<Option<Size>>
        requires self.deltas_resolved() || scoping_name(self.name@)     // the size an instance is placed with includes the template's dw / dh: placing it must not change its size @C18.instance.size_includes_deltas
    { unimplemented!() }
    #[verifier::external_body] pub fn resolve_size_delta(&mut self)
        requires old(self).evaluated(),
            !scoping_name(old(self).name@),     // the attributes of a group / symbol / reuse instance are VARIABLES of what it contains: folding dw into width (or splitting wh) would redefine them for the content @C15.instance.scoping_attributes_stay_variables @C18.instance.scoping_attributes_stay_variables
        ensures final(self).evaluated(), final(self).deltas_resolved()
    { unimplemented!() }
    #[verifier::external_body] pub fn expand_compound_pos(&mut self)
        ensures old(self).evaluated() ==> final(self).evaluated(), final(self).pos_expanded(), final(self).name == old(self).name, defaulted(*old(self)) ==> defaulted(*final(self))
    { unimplemented!() }
    #[verifier::external_body] pub fn resolve_position(&mut self, ctx: &TransformerContext) -> Result<()> { unimplemented!() }
    #[verifier::external_body] pub fn set_indent(&mut self, indent: usize) { unimplemented!() }
    #[verifier::external_body] pub fn set_src_line(&mut self, line: usize) { unimplemented!() }
    #[verifier::external_body] pub fn add_classes(&mut self, classes: &ClassList) { unimplemented!() }
    #[verifier::external_body] pub fn add_class(&mut self, class: &str) -> SvgElement { unimplemented!() }
    #[verifier::external_body] pub fn new_g() -> SvgElement { unimplemented!() }
    #[verifier::external_body] pub fn with_attrs_from(&self, other: &SvgElement) -> SvgElement { unimplemented!() }
}
impl OutputList {
    #[verifier::external_body] pub fn new() -> OutputList { unimplemented!() }
    #[verifier::external_body] pub fn push(&mut self, ev: OutputEvent) { unimplemented!() }
    #[verifier::external_body] pub fn extend(&mut self, o: &OutputList) { unimplemented!() }
}
#[verifier::external_body] pub fn ev_start(e: SvgElement) -> OutputEvent { unimplemented!() }
#[verifier::external_body] pub fn ev_empty(e: SvgElement) -> OutputEvent { unimplemented!() }
#[verifier::external_body] pub fn ev_end(n: String) -> OutputEvent { unimplemented!() }
#[verifier::external_body]
pub fn eval_attr(value: &str, ctx: &TransformerContext) -> Result<String> { unimplemented!() }
#[verifier::external_body]
pub fn parse_elref(s: &String) -> Result<ElRef> { unimplemented!() }
#[verifier::external_body]
pub fn position_from(e: &SvgElement) -> Position { unimplemented!() }
impl Position {
    #[verifier::external_body] pub fn update_size(&mut self, sz: &Size) { unimplemented!() }
    #[verifier::external_body] pub fn update_shape(&mut self, shape: &str) { unimplemented!() }
    #[verifier::external_body] pub fn set_position_attrs(&self, element: &mut SvgElement)
        requires old(element).name@ == "g"@ || old(element).pos_expanded()     // Position writes per-axis attributes: a shorthand (xy="0" on the template) still on the element would be expanded afterwards and fight with them @C18.place.position_shorthand_expanded_first
    { unimplemented!() }
    /// R-abstract: the block that copies the template's own constraints on an axis the reuse does not position (field assignments on Position; under contract in U-posattrs: C18.place.unpositioned_axis_keeps_template)
    #[verifier::external_body] pub fn keep_unpositioned_axes_of(&mut self, e: &SvgElement) { unimplemented!() }
    #[verifier::external_body] pub fn has_x_position(&self) -> bool { unimplemented!() }
    #[verifier::external_body] pub fn has_y_position(&self) -> bool { unimplemented!() }
}
impl BoundingBox { #[verifier::external_body] pub fn size(&self) -> Size { unimplemented!() } }
/// stands for the block of ReuseElement that rebuilds the event list of a non-empty instance
#[verifier::external_body]
pub fn instance_events(instance_element: SvgElement, start: usize, end: usize, context: &TransformerContext) -> InputList { unimplemented!() }

#[verifier::external_body]
pub fn process_events(input: InputList, context: &mut TransformerContext) -> (r: Result<(OutputList, Option<BoundingBox>)>)
    ensures scope_frame(*old(context), *final(context)), final(context).config == old(context).config,
        // every generator changes the innermost scope at most (C15.scope.outer_bindings_untouched, by induction over the nesting)
        old(context).scope_stack.len() > 0 ==> final(context).scope_stack@.drop_last() == old(context).scope_stack@.drop_last(),
{ unimplemented!() }

/// R-iter-vec: `for (k, v) in attr_map.clone()` iterates the map's (ordered) vector of pairs
#[verifier::external_body]
pub fn attr_pairs(e: &SvgElement) -> (r: Vec<(String, String)>) ensures r@ == spec_pairs(*e) { unimplemented!() }

impl TransformerContext {
//@item src/context.rs :: impl TransformerContext :: fn ensure_scope
//@ replace[R-default] <<<Scope::default()>>> => <<<Scope::default()>>>
//@ ensures
//@ - final(self).element_stack@ == old(self).element_stack@    @@C15.ensure_scope.frame
//@ - final(self).in_specs == old(self).in_specs && final(self).config == old(self).config
//@ - old(self).scope_stack.len() > 0 ==> final(self).scope_stack.len() == old(self).scope_stack.len()    @@C15.ensure_scope.height
//@ - old(self).scope_stack.len() == 0 ==> final(self).scope_stack.len() == 1    @@C15.ensure_scope.base
//@ - old(self).scope_stack.len() > 0 ==> final(self).scope_stack@.drop_last() == old(self).scope_stack@.drop_last()    @@C15.ensure_scope.outer_untouched
//@ - final(self).vars_set == old(self).vars_set
//@end

//@item src/context.rs :: impl VariableMap for TransformerContext :: fn get_var
//@ replace[R-itermap] <<<for var_scope in self.scope_stack.iter().rev().map(|s| &s.vars) {>>> => <<<for s_ in self.scope_stack.iter().rev() {\n            let var_scope = &s_.vars;>>>
//@ replace[R-tostring] <<<return Some(value.to_string());>>> => <<<return Some(value.clone());>>>
//@ after <<<let var_scope = &s_.vars;>>>
//@ | proof {
//@ |     let st = self.scope_stack@; let k = it.index@;
//@ |     let all = (it.history@ + vstd::std_specs::iter::IteratorSpec::remaining(&it.iter)).map(|i: int, e: &Scope| *e);
//@ |     assert(all[k] == st.reverse()[k]);
//@ |     assert(st.reverse()[k] == st[st.len() - 1 - k]);
//@ |     assert(*s_ == st[st.len() - 1 - k]);
//@ | }
//@ ensures
//@ - (match lookup(self.scope_stack@, name@, self.scope_stack@.len() as int) { Some(v) => r is Some && r->Some_0@ == v, None => r is None })     @@C15.lookup.innermost_first
//@ loop 1
//@ iter it
//@ invariant
//@ - self.scope_stack@.reverse() == (it.history@ + vstd::std_specs::iter::IteratorSpec::remaining(&it.iter)).map(|i: int, e: &Scope| *e)
//@ - it.index@ == it.history@.len()
//@ - it.index@ <= self.scope_stack@.len()
//@ - lookup(self.scope_stack@, name@, self.scope_stack@.len() as int) == lookup(self.scope_stack@, name@, self.scope_stack@.len() - it.index@)
//@end

//@item src/context.rs :: impl TransformerContext :: fn set_var
//@ replace[R-into] <<<scope.vars.insert(name.into(), value.into());>>> => <<<scope.vars.insert(name.to_string(), value.to_string());>>>
//@ body-start
//@ | proof { self.vars_set = Ghost(self.vars_set@.push((name@, value@))); }
//@ ensures
//@ - scope_frame(*old(self), *final(self))    @@C15.set_var.frame
//@ - old(self).scope_stack.len() > 0 ==> final(self).scope_stack@.drop_last() == old(self).scope_stack@.drop_last()    @@C15.set_var.innermost_only
//@ - final(self).config == old(self).config
//@ - final(self).vars_set@ == old(self).vars_set@.push((name@, value@))
//@end

//@item src/context.rs :: impl TransformerContext :: fn push_element
//@ requires
//@ - el.evaluated()     @@C15.push.attributes_evaluated_in_enclosing_scope
//@ - exists|raw: SvgElement| #[trigger] evaluated_from(raw, *el) && scope_vars_bounded(raw, *el, self.config.var_limit as nat)     @@C17.scope.attribute_vars_bounded @@C01.scope.attribute_vars_bounded
//@ ensures
//@ - final(self).element_stack@ == old(self).element_stack@.push(*el)    @@C15.push.element
//@ - final(self).scope_stack.len() == old(self).scope_stack.len() + 1    @@C15.push.scope
//@ - final(self).scope_stack@.drop_last() == old(self).scope_stack@    @@C15.push.innermost
//@ - final(self).in_specs == old(self).in_specs && final(self).config == old(self).config
//@end

//@item src/context.rs :: impl TransformerContext :: fn check_scope_vars
//@ replace[R-iter-vec] <<<for (key, value) in evaluated.attrs.clone() {>>> => <<<for (key, value) in attr_pairs(evaluated) {>>>
//@ ensures
//@ - r is Ok ==> scope_vars_bounded(*original, *evaluated, self.config.var_limit as nat)     @@C17.scope.check_bounds_every_attribute @@C01.scope.check_bounds_every_attribute
//@ - r is Err ==> !scope_vars_bounded(*original, *evaluated, self.config.var_limit as nat)     @@C17.scope.rejected_only_beyond_limit
//@ loop 1
//@ iter it
//@ invariant
//@ - spec_pairs(*evaluated) == it.history@ + vstd::std_specs::iter::IteratorSpec::remaining(&it.iter)
//@ - forall|i: int| 0 <= i < it.history@.len() ==> byte_len((#[trigger] spec_pairs(*evaluated)[i]).1@) <= self.config.var_limit as nat || attr_of(*original, spec_pairs(*evaluated)[i].0@) == Some(spec_pairs(*evaluated)[i].1@)
//@end

//@item src/context.rs :: impl TransformerContext :: fn pop_element
//@ ensures
//@ - old(self).element_stack.len() > 0 ==> final(self).element_stack@ == old(self).element_stack@.drop_last()    @@C15.pop.element
//@ - old(self).scope_stack.len() > 0 ==> final(self).scope_stack@ == old(self).scope_stack@.drop_last()    @@C15.pop.scope
//@ - final(self).in_specs == old(self).in_specs && final(self).config == old(self).config
//@end

//@item src/context.rs :: impl TransformerContext :: fn set_element_content_bbox
//@ replace[R-optmap] <<<self.elem_map.get(&id).cloned()>>> => <<<self.elem_map.get_cloned(&id)>>>
//@ replace[R-closure] <<<eval_attr(&id, self).unwrap_or(id)>>> => <<<(match eval_attr(&id, self) { Ok(v) => v, Err(_) => id })>>>
//@ ensures
//@ - scope_untouched(*old(self), *final(self))
//@ - final(self).original_map == old(self).original_map     @@C18.template.write_once
//@ - final(self).elem_map@.dom() == old(self).elem_map@.dom()     @@C08.clip.registration_neither_adds_nor_drops
//@ - forall|k: Seq<char>| #[trigger] old(self).elem_map@.dom().contains(k) ==>
//@       final(self).elem_map@[k] == (SvgElement { content_bbox: final(self).elem_map@[k].content_bbox, ..old(self).elem_map@[k] })     @@C08.clip.registered_element_stays_resolved @@C10.clip.registered_element_stays_resolved @@C12.clip.registered_element_stays_resolved
//@end

//@item src/context.rs :: impl TransformerContext :: fn update_element
//@ ensures
//@ - scope_untouched(*old(self), *final(self))
//@ - forall|id: Seq<char>| #[trigger] old(self).original_map@.dom().contains(id) && old(self).elem_map@.dom().contains(id)
//@       ==> final(self).original_map@.dom().contains(id) && final(self).original_map@[id] == old(self).original_map@[id]     @@C18.template.write_once
//@ - old(self).original_map@.dom() == old(self).elem_map@.dom() ==> final(self).original_map@.dom() == final(self).elem_map@.dom()     @@C18.template.registered_with_element
//@end
    #[verifier::external_body]
    pub fn set_prev_element(&mut self, el: &SvgElement) ensures scope_untouched(*old(self), *final(self)) { unimplemented!() }
    /// the <defaults> in force have been applied to the element (a hand-written leaf gets them in Tag::generate_events)
    #[verifier::external_body]
    pub fn apply_defaults(&mut self, el: &mut SvgElement)
        ensures scope_untouched(*old(self), *final(self)), final(self).vars_set == old(self).vars_set, defaulted(*final(el)), final(el).name == old(el).name
    { unimplemented!() }
    #[verifier::external_body]
    pub fn get_original_element(&self, elref: &ElRef) -> Option<&SvgElement> { unimplemented!() }
    #[verifier::external_body]
    pub fn get_element(&self, elref: &ElRef) -> Option<&SvgElement> { unimplemented!() }
}

pub trait EventGen {
//@item src/transform.rs :: trait EventGen :: fn generate_events
//@ ensures
//@ - scope_frame(*old(context), *final(context))    @@C15.scope.restored @@C18.vars.scope @@C10.failed_tag.no_trace
//@ - old(context).scope_stack.len() > 0 ==> final(context).scope_stack@.drop_last() == old(context).scope_stack@.drop_last()    @@C15.scope.outer_bindings_untouched
//@end
}

//@item src/transform.rs :: struct GroupElement
//@end
//@item src/transform.rs :: struct SpecsElement
//@end
//@item src/transform.rs :: struct VarElement
//@end
//@item src/reuse.rs :: struct ReuseElement
//@end

impl EventGen for SvgElement {
    /// assumed here (the dispatcher forwards the trait contract; verified for depth in U-depth)
    #[verifier::external_body]
    fn generate_events(&self, context: &mut TransformerContext) -> (r: Result<(OutputList, Option<BoundingBox>)>) { unimplemented!() }
}

//@rewrite inspect_err
impl EventGen for GroupElement {
//@item src/transform.rs :: impl EventGen for GroupElement :: fn generate_events
//@ replace[R-into] <<<events.push(OutputEvent::Empty(new_el));>>> => <<<events.push(ev_empty(new_el));>>>
//@ replace[R-into] <<<events.push(OutputEvent::Start(new_el));>>> => <<<events.push(ev_start(new_el));>>>
//@ replace[R-into] <<<events.push(OutputEvent::End(el_name));>>> => <<<events.push(ev_end(el_name));>>>
//@ before <<<        // pop variables off the stack\n        context.pop_element();>>>
//@ | let ghost g_pushed = context.element_stack@.last();     // the group as evaluated on entry (what its content saw as variables)
//@ | assert(context.element_stack@.len() > 0);
//@ before <<<context.update_element(&new_el);>>>
//@ | assert(new_el.attrs == g_pushed.attrs && new_el.classes == g_pushed.classes); // the group that is registered and boxed is the one evaluated on entry: its attribute expressions are evaluated ONCE (a second evaluation advances random() again and may see other bindings) @C14.group.attributes_evaluated_once @C15.group.attributes_evaluated_once
//@ ensures
//@ - r is Ok && old(context).scope_stack.len() > 0 ==> final(context).scope_stack@ == old(context).scope_stack@    @@C15.group.bindings_restored
//@end
}

impl EventGen for SpecsElement {
//@item src/transform.rs :: impl EventGen for SpecsElement :: fn generate_events
//@ ensures
//@ - r is Ok && old(context).scope_stack.len() > 0 ==> final(context).scope_stack@ == old(context).scope_stack@    @@C15.specs.bindings_restored
//@end
}


pub assume_specification [String::len] (s: &String) -> (r: usize) ensures r == byte_len(s@);

pub open spec fn within(vars: Seq<(String, String)>, limit: nat) -> bool {
    forall|i: int| 0 <= i < vars.len() ==> byte_len((#[trigger] vars[i]).1@) <= limit
}
pub open spec fn as_sets(vars: Seq<(String, String)>) -> Seq<(Seq<char>, Seq<char>)> {
    vars.map(|i: int, p: (String, String)| (p.0@, p.1@))
}

impl EventGen for VarElement {
//@item src/transform.rs :: impl EventGen for VarElement :: fn generate_events
//@ replace[R-iter-vec] <<<for (key, value) in self.0.attrs.clone() {>>> => <<<for (key, value) in attr_pairs(&self.0) {>>>
//@ before <<<for (k, v) in new_vars.into_iter() {>>>
//@ | let ghost g_vars = new_vars@;
//@ after <<<context.set_var(&k, &v);>>>
//@ | proof { assert(context.vars_set@ =~= old(context).vars_set@ + as_sets(it.history@.push((k, v)))); }
//@ ensures
//@ - r is Err ==> *final(context) == *old(context)    @@C15.var.parallel @@C17.var.nothing_assigned
//@ - r is Ok ==> exists|vars: Seq<(String, String)>| #![trigger as_sets(vars)] within(vars, old(context).config.var_limit as nat)
//@     && final(context).vars_set@ == old(context).vars_set@ + as_sets(vars)    @@C17.var.exact
//@ loop 1
//@ invariant
//@ - *context == *old(context)    @@C15.var.parallel.loop
//@ - within(new_vars@, context.config.var_limit as nat)    @@C17.var.limit.loop
//@ loop 2
//@ iter it
//@ invariant
//@ - scope_frame(*old(context), *context)
//@ - old(context).scope_stack.len() > 0 ==> context.scope_stack@.drop_last() == old(context).scope_stack@.drop_last()    @@C15.scope.outer_bindings_untouched
//@ - context.config == old(context).config
//@ - g_vars == it.history@ + vstd::std_specs::iter::IteratorSpec::remaining(&it.iter)
//@ - within(g_vars, context.config.var_limit as nat)
//@ - context.vars_set@ == old(context).vars_set@ + as_sets(it.history@)
//@end
}

/// R-abstract: the attribute-override loop of ReuseElement (iterates a HashMap; only touches
/// the instance element, never the context)
#[verifier::external_body]
pub fn override_attrs(reuse_element: &SvgElement, instance_element: &mut SvgElement) { unimplemented!() }

//@rewrite strlit strmatch
impl EventGen for ReuseElement {
//@item src/reuse.rs :: impl EventGen for ReuseElement :: fn generate_events
//@ strlit "g" "symbol" "reuse"
//@ replace[R-parse] <<<elref.parse()>>> => <<<parse_elref(&elref)>>>
//@ replace[R-abstract] <<<        for (attr, value) in reuse_element.get_attrs() {\n            match attr.as_str() {\n                "href" | "id" | "x" | "y" => continue,\n                "transform" => {\n                    // append to any existing transform\n                    let mut xfrm = value.clone();\n                    if let Some(inst_xfrm) = instance_element.get_attr("transform") {\n                        xfrm = format!("{} {}", inst_xfrm, xfrm);\n                    }\n                    instance_element.set_attr("transform", &xfrm);\n                }\n                _ => {\n                    // this is the _opposite_ of set_default_attr(); it allows\n                    // the target element to provide defaults, but have them\n                    // overridden by the reuse element.\n                    if instance_element.has_attr(&attr) {\n                        instance_element.set_attr(&attr, &value);\n                    }\n                }\n            }\n        }>>> => <<<        override_attrs(&reuse_element, &mut instance_element);>>>
//@ replace[R-ctor] <<<SvgElement::new("g", &[])>>> => <<<SvgElement::new_g()>>>
//@ replace[R-ctor] <<<Position::from(&reuse_element)>>> => <<<position_from(&reuse_element)>>>
//@ cut[R-abstract] <<<                let own = Position::from(&instance_element);>>> .. <<<                    pos.dy = own.dy;\n                }>>> => <<<                pos.keep_unpositioned_axes_of(&instance_element);>>>
//@ replace[R-abstract] <<<            let mut new_events = InputList::new();\n            let tag_name = instance_element.name.clone();\n            let mut start_ev = InputEvent::from(OutputEvent::Start(instance_element));\n            start_ev.index = start;\n            start_ev.alt_idx = Some(end);\n            new_events.push(start_ev);\n            new_events.extend(&InputList::from(&context.events[start + 1..end]));\n            let mut end_ev = InputEvent::from(OutputEvent::End(tag_name));\n            end_ev.index = end;\n            end_ev.alt_idx = Some(start);\n            new_events.push(end_ev);\n            process_events(new_events, context)>>> => <<<            let new_events = instance_events(instance_element, start, end, context);\n            process_events(new_events, context)>>>
//@ before <<<if scoping {>>>
//@ | assert(scoping == scoping_name(instance_element.name@)); // every g / symbol / reuse instance takes the bounded route @C17.scope.group_instance_vars_bounded @C01.scope.group_instance_vars_bounded
//@ before <<<let instance_size = if instance_element.name == "reuse" {>>>
//@ | assert(scoping ==> evaluated_from(template, instance_element) && scope_vars_bounded(template, instance_element, context.config.var_limit as nat)); // the attributes of a group / symbol / reuse instance become variables of what it contains or instantiates: bounded like any other scope variable (a symbol turns into a g a few lines further down; a reuse pushes them itself, but then sees them already evaluated) @C17.scope.group_instance_vars_bounded @C01.scope.group_instance_vars_bounded
//@ before <<<instance_element.generate_events(context)>>>
//@ | assert(defaulted(instance_element)); // a single-element instance is a leaf like the hand-written one: the defaults in force apply to it @C18.instance.defaults_applied
//@ ensures
//@ - r is Ok && old(context).scope_stack.len() > 0 ==> final(context).scope_stack@ == old(context).scope_stack@    @@C15.reuse.bindings_restored
//@end
}
// ------------------------------------------------------------------------------ defaults and control elements
/// elements which are instructions, not drawn: their attributes are variable assignments, loop parameters, settings
pub open spec fn control_name(n: Seq<char>) -> bool {
    n == "var"@ || n == "config"@ || n == "defaults"@ || n == "specs"@ || n == "loop"@ || n == "for"@ || n == "if"@ || n == "reuse"@
}
//@rewrite strlit
//@item src/transform.rs :: impl EventGen for Tag :: fn generate_events
//@ fragment-name leaf_defaults
//@ fragment-inner
//@ fragment-from <<<            Tag::Leaf(el, tail) => {\n                let mut el = el.clone();>>>
//@ fragment-to <<<                let (ev, bb) = el.generate_events(context)?;\n                (events, bbox) = (ev, bb);\n                push_tail(&mut events, tail);\n            }\n            Tag::Comment>>>
//@ fragment-head <<<fn leaf_defaults(mut el: SvgElement, context: &mut TransformerContext) -> SvgElement {>>>
//@ fragment-tail <<<    el\n}>>>
//@ strlit "var" "config" "defaults" "specs" "loop" "for" "if" "reuse"
//@ replace[R-matches] <<<!matches!(\n                    el.name.as_str(),\n                    "var" | "config" | "defaults" | "specs" | "loop" | "for" | "if" | "reuse"\n                )>>> => <<<!(el.name.as_str() == "var" || el.name.as_str() == "config" || el.name.as_str() == "defaults" || el.name.as_str() == "specs" || el.name.as_str() == "loop" || el.name.as_str() == "for" || el.name.as_str() == "if" || el.name.as_str() == "reuse")>>>
//@ ensures
//@ - control_name(el.name@) ==> r == el     @@C15.defaults.not_on_control_elements
//@ - !control_name(el.name@) ==> defaulted(r)     @@C18.leaf.defaults_applied
//@ - scope_untouched(*old(context), *final(context)) && final(context).vars_set == old(context).vars_set     @@C15.defaults.assign_nothing
//@end

} // verus!
fn main() {}
