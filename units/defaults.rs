//@unit defaults
//@props C11
// U-defaults: <defaults> never override what the element itself gives - directly or through a
// shorthand (src/context.rs apply_defaults, final attribute loop; src/element.rs set_default_attr,
// has_shorthand_for). From the property: every shorthand is exactly equivalent to its longhand pair,
// so an element that gives `wh` has given `width` and `height`.
//@assume the defaults collected for the element (scope iteration, augmenting of style / transform) are an arbitrary list of pairs; AttrMap as in the attrmap prelude (R-iter-vec: `for (key, value) in &attrs` iterates that list)
use vstd::prelude::*;
//@prelude fmt_macro
verus! {
//@prelude std_specs r32 attrmap

#[verifier::external_body] pub struct ClassList { _p: u8 }
#[verifier::external_body] pub struct OrderIndex { _p: u8 }
#[verifier::external_body] pub struct BoundingBox { _p: u8 }

//@rewrite strlit strmatch
//@item src/element.rs :: struct SvgElement
//@end
pub type M = Map<Seq<char>, Seq<char>>;

/// the shorthand whose expansion writes attribute k (from the property's list: xy, cxy, xy1, xy2, wh, rxy, dxy, dwh)
pub open spec fn short_of(k: Seq<char>) -> Option<Seq<char>> {
    if k == "x"@ || k == "y"@ { Some("xy"@) } else if k == "cx"@ || k == "cy"@ { Some("cxy"@) }
    else if k == "x1"@ || k == "y1"@ { Some("xy1"@) } else if k == "x2"@ || k == "y2"@ { Some("xy2"@) }
    else if k == "width"@ || k == "height"@ { Some("wh"@) } else if k == "rx"@ || k == "ry"@ { Some("rxy"@) }
    else if k == "dx"@ || k == "dy"@ { Some("dxy"@) } else if k == "dw"@ || k == "dh"@ { Some("dwh"@) } else { None }
}
/// the element gives attribute k: directly, or through the shorthand that expands to it
pub open spec fn given(m: M, k: Seq<char>) -> bool {
    m.dom().contains(k) || (short_of(k) is Some && m.dom().contains(short_of(k)->Some_0))
}

impl SvgElement {
//@item src/element.rs :: impl SvgElement :: fn has_attr
//@ ensures
//@ - r == self.attrs@.dom().contains(key@)
//@end
//@item src/element.rs :: impl SvgElement :: fn set_attr
//@ ensures
//@ - final(self).attrs@ == old(self).attrs@.insert(key@, value@) && final(self).name == old(self).name
//@end
//@item src/element.rs :: impl SvgElement :: fn set_default_attr
//@ ensures
//@ - final(self).attrs@ == (if old(self).attrs@.dom().contains(key@) { old(self).attrs@ } else { old(self).attrs@.insert(key@, value@) })     @@C11.defaults.given_wins
//@end
//@item src/element.rs :: impl SvgElement :: fn has_shorthand_for
//@ strlit "x" "y" "cx" "cy" "x1" "y1" "x2" "y2" "width" "height" "rx" "ry" "dx" "dy" "dw" "dh" "xy" "cxy" "xy1" "xy2" "wh" "rxy" "dxy" "dwh"
//@ ensures
//@ - r == (short_of(key@) is Some && self.attrs@.dom().contains(short_of(key@)->Some_0))     @@C11.defaults.shorthand_table
//@end
}

//@item src/context.rs :: impl TransformerContext :: fn apply_defaults
//@ fragment-name default_attrs
//@ fragment-from <<<        for (key, value) in &attrs {>>>
//@ fragment-to <<<                el.set_default_attr(key, value);\n            }\n        }>>>
//@ fragment-head <<<fn default_attrs(el: &mut SvgElement, attrs: &Vec<(String, String)>) {>>>
//@ fragment-tail <<<}>>>
//@ replace[R-iter-vec] <<<for (key, value) in &attrs {>>> => <<<for pair in attrs.iter() {\n            let (key, value) = pair;>>>
//@ ensures
//@ - forall|k: Seq<char>| #[trigger] given(old(el).attrs@, k) ==> map_get(final(el).attrs@, k) == map_get(old(el).attrs@, k)     @@C11.defaults.shorthand_wins
//@ - forall|k: Seq<char>| #[trigger] final(el).attrs@.dom().contains(k) && !old(el).attrs@.dom().contains(k) ==> exists|i: int| 0 <= i < attrs@.len() && (#[trigger] attrs@[i]).0@ == k && attrs@[i].1@ == final(el).attrs@[k]     @@C11.defaults.only_defaults_added
//@ loop 1
//@ iter it
//@ body-start
//@ | proof { assert(attrs@[it.index@] == *pair); }
//@ invariant
//@ - attrs@ == (it.history@ + vstd::std_specs::iter::IteratorSpec::remaining(&it.iter)).map(|i: int, e: &(String, String)| *e)
//@ - it.index@ == it.history@.len()
//@ - forall|k: Seq<char>| #[trigger] given(old(el).attrs@, k) ==> map_get(el.attrs@, k) == map_get(old(el).attrs@, k)
//@ - forall|k: Seq<char>| #[trigger] old(el).attrs@.dom().contains(k) ==> el.attrs@.dom().contains(k) && el.attrs@[k] == old(el).attrs@[k]
//@ - forall|k: Seq<char>| #[trigger] el.attrs@.dom().contains(k) && !old(el).attrs@.dom().contains(k) ==> exists|i: int| 0 <= i < attrs@.len() && (#[trigger] attrs@[i]).0@ == k && attrs@[i].1@ == el.attrs@[k]
//@end

} // verus!
fn main() {}
