//@unit connector
//@props C13
// U-connector: which points of the referenced boxes a connector joins (src/connector.rs):
// the candidate sets per connection type, minimality of closest_loc / shortest_link over exactly
// those candidates, and the location -> direction table. Real-number model.
//@assume squared candidate distances are below f32::MAX (precondition): with larger coordinates the float computation overflows to infinity and no candidate is selected
//@assume BoundingBox::locspec meets loc_point (proved in U-geom, same clause); get_element_bbox is a deterministic function of (context, element)
use vstd::prelude::*;
//@prelude fmt_macro
verus! {
//@prelude std_specs r32

pub enum SvgdxError { MissingBoundingBox(String), InvalidData(String), InternalLogicError(String), Other }
pub type Result<T> = core::result::Result<T, SvgdxError>;
#[verifier::external_body] pub struct SvgElement { _p: u8 }
#[verifier::external_body] pub struct Ctx { _p: u8 }

//@rewrite f32 strlit strmatch
//@item src/position.rs :: enum Length
//@ keep-derive Clone Copy
//@end
//@item src/position.rs :: enum LocSpec
//@ keep-derive Clone Copy
//@end
//@item src/position.rs :: struct BoundingBox
//@ keep-derive Clone Copy
//@end
//@item src/position.rs :: enum ScalarSpec
//@ keep-derive Clone Copy
//@end
//@item src/connector.rs :: enum Direction
//@ keep-derive Clone Copy
//@end
//@item src/connector.rs :: enum ConnectionType
//@ keep-derive Clone Copy
//@end

pub open spec fn bx(b: BoundingBox) -> (real, real, real, real) { (val(b.x1), val(b.y1), val(b.x2), val(b.y2)) }
pub open spec fn len_offset(l: Length, start: real, end: real) -> real {
    match l {
        Length::Absolute(a) => { let m = if end < start { -1real } else { 1real }; if val(a) < 0real { end + val(a) * m } else { start + val(a) * m } },
        Length::Ratio(r) => start + (end - start) * val(r),
    }
}
pub open spec fn loc_point(b: BoundingBox, ls: LocSpec) -> (real, real) {
    let (x1, y1, x2, y2) = bx(b);
    let mx = (x1 + x2) / 2real;
    let my = (y1 + y2) / 2real;
    match ls {
        LocSpec::TopLeft => (x1, y1), LocSpec::Top => (mx, y1), LocSpec::TopRight => (x2, y1), LocSpec::Right => (x2, my),
        LocSpec::BottomRight => (x2, y2), LocSpec::Bottom => (mx, y2), LocSpec::BottomLeft => (x1, y2), LocSpec::Left => (x1, my),
        LocSpec::Center => (mx, my),
        LocSpec::TopEdge(l) => (len_offset(l, x1, x2), y1), LocSpec::RightEdge(l) => (x2, len_offset(l, y1, y2)),
        LocSpec::BottomEdge(l) => (len_offset(l, x1, x2), y2), LocSpec::LeftEdge(l) => (x1, len_offset(l, y1, y2)),
    }
}
pub open spec fn d2(p: (real, real), q: (real, real)) -> real { (p.0 - q.0) * (p.0 - q.0) + (p.1 - q.1) * (p.1 - q.1) }

/// From the statement: edge mid-points, plus the corners for straight lines; horizontal /
/// vertical connectors only consider the two facing edges.
pub open spec fn candidates(c: ConnectionType) -> Seq<LocSpec> {
    match c {
        ConnectionType::Horizontal => seq![LocSpec::Left, LocSpec::Right],
        ConnectionType::Vertical => seq![LocSpec::Top, LocSpec::Bottom],
        ConnectionType::Corner => seq![LocSpec::Top, LocSpec::Right, LocSpec::Bottom, LocSpec::Left],
        ConnectionType::Straight => seq![LocSpec::Top, LocSpec::Bottom, LocSpec::Left, LocSpec::Right,
                                         LocSpec::TopLeft, LocSpec::BottomLeft, LocSpec::TopRight, LocSpec::BottomRight],
    }
}

pub uninterp spec fn bbox_spec(ctx: Ctx, e: SvgElement) -> Option<BoundingBox>;
/// get_element_bbox returns Ok (with bbox_spec) rather than an error
pub uninterp spec fn bbox_ok(ctx: Ctx, e: SvgElement) -> bool;
impl Ctx {
    #[verifier::external_body]
    pub fn get_element_bbox(&self, e: &SvgElement) -> (r: Result<Option<BoundingBox>>)
        ensures r is Ok ==> r->Ok_0 == bbox_spec(*self, *e), r is Ok == bbox_ok(*self, *e)
    { unimplemented!() }
}
/// the element's OWN box (SvgElement::bbox): without the use/reuse translation and clip-path of the context's box
pub uninterp spec fn own_bbox_spec(e: SvgElement) -> Option<BoundingBox>;
impl SvgElement {
    #[verifier::external_body] pub fn to_string(&self) -> String { unimplemented!() }
    #[verifier::external_body]
    pub fn bbox(&self) -> (r: Result<Option<BoundingBox>>) ensures r is Ok ==> r->Ok_0 == own_bbox_spec(*self) { unimplemented!() }
}
impl BoundingBox {
    #[verifier::external_body]
    pub fn locspec(&self, ls: LocSpec) -> (r: (R32, R32)) ensures (val(r.0), val(r.1)) == loc_point(*self, ls) { unimplemented!() }
    /// proved in U-geom (scalar table); only the four edges are needed here
    #[verifier::external_body]
    pub fn scalarspec(&self, ss: ScalarSpec) -> (r: R32)
        ensures ss is Minx ==> r == self.x1, ss is Maxx ==> r == self.x2, ss is Miny ==> r == self.y1, ss is Maxy ==> r == self.y2
    { unimplemented!() }
}
pub uninterp spec fn max_val() -> real;
/// f32::MAX: just a (large) constant in the real model
#[verifier::external_body]
pub fn r32_max() -> (r: R32) ensures val(r) == max_val() { unimplemented!() }

//@item src/connector.rs :: fn edge_locations
//@ ensures
//@ - r@ == candidates(ctype)     @@C13.candidates
//@end

impl ConnectionType {
//@item src/connector.rs :: impl ConnectionType :: fn from_str
//@ ensures
//@ - (s@ == "h"@ || s@ == "horizontal"@) ==> r is Horizontal     @@C13.type.h
//@ - (s@ == "v"@ || s@ == "vertical"@) ==> r is Vertical     @@C13.type.v
//@ - !(s@ == "h"@ || s@ == "horizontal"@ || s@ == "v"@ || s@ == "vertical"@) ==> r is Straight     @@C13.type.default
//@end
}

//@item src/connector.rs :: fn closest_loc
//@ replace[R-opaque-type] <<<context: &impl ElementMap,>>> => <<<context: &Ctx,>>>
//@ replace[R-const] <<<f32::MAX>>> => <<<r32_max()>>>
//@ before <<<for loc in edge_locations(conn_type) {>>>
//@ | let ghost g_pt = (val(point.0), val(point.1));
//@ | let ghost g_c = candidates(conn_type);
//@ loop 1
//@ iter it
//@ invariant
//@ - g_c == candidates(conn_type) && g_c.len() >= 2
//@ - g_pt == (val(point.0), val(point.1))
//@ - g_c == it.history@ + vstd::std_specs::iter::IteratorSpec::remaining(&it.iter)
//@ - it.index@ == it.history@.len()
//@ - bbox_spec(*context, *this) == Some(this_bb)
//@ - forall|i: int| 0 <= i < g_c.len() ==> d2(loc_point(this_bb, #[trigger] g_c[i]), g_pt) < max_val()
//@ - forall|j: int| 0 <= j < it.index@ ==> val(min_dist_sq) <= d2(loc_point(this_bb, #[trigger] g_c[j]), g_pt)
//@ - it.index@ == 0 ==> val(min_dist_sq) == max_val()
//@ - it.index@ > 0 ==> val(min_dist_sq) == d2(loc_point(this_bb, min_loc), g_pt) && exists|k: int| 0 <= k < it.index@ && #[trigger] g_c[k] == min_loc
//@ fn
//@ requires
//@ - bbox_spec(*context, *this) is Some ==> forall|i: int| 0 <= i < candidates(conn_type).len() ==>
//@       d2(loc_point(bbox_spec(*context, *this)->Some_0, #[trigger] candidates(conn_type)[i]), (val(point.0), val(point.1))) < max_val()
//@ ensures
//@ - r is Ok ==> bbox_spec(*context, *this) is Some
//@ - r is Ok ==> exists|k: int| 0 <= k < candidates(conn_type).len() && #[trigger] candidates(conn_type)[k] == r->Ok_0     @@C13.closest.member
//@ - r is Ok ==> forall|i: int| 0 <= i < candidates(conn_type).len() ==>
//@       d2(loc_point(bbox_spec(*context, *this)->Some_0, r->Ok_0), (val(point.0), val(point.1)))
//@       <= d2(loc_point(bbox_spec(*context, *this)->Some_0, #[trigger] candidates(conn_type)[i]), (val(point.0), val(point.1)))     @@C13.closest.min
//@end

pub open spec fn overlap_mid(a_lo: real, a_hi: real, b_lo: real, b_hi: real) -> real { (rmax(a_lo, b_lo) + rmin(a_hi, b_hi)) / 2real }
pub open spec fn dd(a: BoundingBox, b: BoundingBox, la: LocSpec, lb: LocSpec) -> real { d2(loc_point(a, la), loc_point(b, lb)) }

//@item src/connector.rs :: fn shortest_link
//@ replace[R-opaque-type] <<<context: &impl ElementMap,>>> => <<<context: &Ctx,>>>
//@ replace[R-const] <<<f32::MAX>>> => <<<r32_max()>>>
//@ before <<<for this_loc in edge_locations(conn_type) {>>>
//@ | let ghost g_c = candidates(conn_type);
//@ requires
//@ - bbox_spec(*context, *this) is Some && bbox_spec(*context, *that) is Some ==>
//@     forall|i: int, j: int| 0 <= i < candidates(conn_type).len() && 0 <= j < candidates(conn_type).len() ==>
//@       dd(bbox_spec(*context, *this)->Some_0, bbox_spec(*context, *that)->Some_0, #[trigger] candidates(conn_type)[i], #[trigger] candidates(conn_type)[j]) < max_val()
//@ ensures
//@ - r is Ok ==> bbox_spec(*context, *this) is Some && bbox_spec(*context, *that) is Some
//@ - r is Ok ==> (exists|k: int| 0 <= k < candidates(conn_type).len() && #[trigger] candidates(conn_type)[k] == r->Ok_0.0)
//@     && (exists|k: int| 0 <= k < candidates(conn_type).len() && #[trigger] candidates(conn_type)[k] == r->Ok_0.1)     @@C13.shortest.member
//@ - r is Ok ==> forall|i: int, j: int| 0 <= i < candidates(conn_type).len() && 0 <= j < candidates(conn_type).len() ==>
//@       dd(bbox_spec(*context, *this)->Some_0, bbox_spec(*context, *that)->Some_0, r->Ok_0.0, r->Ok_0.1)
//@       <= dd(bbox_spec(*context, *this)->Some_0, bbox_spec(*context, *that)->Some_0, #[trigger] candidates(conn_type)[i], #[trigger] candidates(conn_type)[j])     @@C13.shortest.min
//@ loop 1
//@ iter it1
//@ invariant
//@ - g_c == candidates(conn_type) && g_c.len() >= 2
//@ - g_c == it1.history@ + vstd::std_specs::iter::IteratorSpec::remaining(&it1.iter)
//@ - it1.index@ == it1.history@.len()
//@ - bbox_spec(*context, *this) == Some(this_bb) && bbox_spec(*context, *that) == Some(that_bb)
//@ - forall|i: int, j: int| 0 <= i < g_c.len() && 0 <= j < g_c.len() ==> dd(this_bb, that_bb, #[trigger] g_c[i], #[trigger] g_c[j]) < max_val()
//@ - forall|i: int, j: int| 0 <= i < it1.index@ && 0 <= j < g_c.len() ==> val(min_dist_sq) <= dd(this_bb, that_bb, #[trigger] g_c[i], #[trigger] g_c[j])
//@ - it1.index@ == 0 ==> val(min_dist_sq) == max_val()
//@ - it1.index@ > 0 ==> val(min_dist_sq) == dd(this_bb, that_bb, this_min_loc, that_min_loc)
//@     && (exists|k: int| 0 <= k < g_c.len() && #[trigger] g_c[k] == this_min_loc) && (exists|k: int| 0 <= k < g_c.len() && #[trigger] g_c[k] == that_min_loc)
//@ loop 2
//@ iter it2
//@ invariant
//@ - g_c == candidates(conn_type) && g_c.len() >= 2
//@ - g_c == it2.history@ + vstd::std_specs::iter::IteratorSpec::remaining(&it2.iter)
//@ - it2.index@ == it2.history@.len()
//@ - 0 <= it1.index@ < g_c.len() && this_loc == g_c[it1.index@]
//@ - bbox_spec(*context, *this) == Some(this_bb) && bbox_spec(*context, *that) == Some(that_bb)
//@ - forall|i: int, j: int| 0 <= i < g_c.len() && 0 <= j < g_c.len() ==> dd(this_bb, that_bb, #[trigger] g_c[i], #[trigger] g_c[j]) < max_val()
//@ - forall|i: int, j: int| 0 <= i < it1.index@ && 0 <= j < g_c.len() ==> val(min_dist_sq) <= dd(this_bb, that_bb, #[trigger] g_c[i], #[trigger] g_c[j])
//@ - forall|j: int| 0 <= j < it2.index@ ==> val(min_dist_sq) <= dd(this_bb, that_bb, g_c[it1.index@], #[trigger] g_c[j])
//@ - it1.index@ == 0 && it2.index@ == 0 ==> val(min_dist_sq) == max_val()
//@ - (it1.index@ > 0 || it2.index@ > 0) ==> val(min_dist_sq) == dd(this_bb, that_bb, this_min_loc, that_min_loc)
//@     && (exists|k: int| 0 <= k < g_c.len() && #[trigger] g_c[k] == this_min_loc) && (exists|k: int| 0 <= k < g_c.len() && #[trigger] g_c[k] == that_min_loc)
//@end

//@item src/connector.rs :: struct Endpoint
//@ keep-derive Clone Copy
//@end
//@item src/connector.rs :: struct Connector
//@end
impl Length {
    #[verifier::external_body]
    pub fn calc_offset(&self, start: R32, end: R32) -> (r: R32) ensures val(r) == len_offset(*self, val(start), val(end)) { unimplemented!() }
    #[verifier::external_body]
    pub fn absolute(&self) -> (r: Option<R32>) ensures r == (match *self { Length::Absolute(a) => Some(a), _ => None }) { unimplemented!() }
}
pub open spec fn pt(p: (R32, R32)) -> (real, real) { (val(p.0), val(p.1)) }
pub open spec fn vertical_dir(d: Direction) -> bool { d is Up || d is Down }
/// the absolute offset a U-shaped (same side) corner connector steps out by
pub open spec fn u_offset(given: Option<Length>, dflt: Length) -> Option<real> {
    match (match given { Some(l) => l, None => dflt }) { Length::Absolute(a) => Some(val(a)), _ => None }
}
/// consecutive points share a coordinate: every segment is axis-parallel
pub open spec fn rectilinear(ps: Seq<(R32, R32)>) -> bool {
    forall|i: int| 0 <= i < ps.len() - 1 ==> val((#[trigger] ps[i]).0) == val(ps[i + 1].0) || val(ps[i].1) == val(ps[i + 1].1)
}


// ------------------------------------------------------------------------------ which points are joined
/// every candidate of `e` is within float range of the point p
pub open spec fn in_range(ctx: Ctx, e: SvgElement, c: ConnectionType, p: (real, real)) -> bool {
    bbox_spec(ctx, e) is Some ==> forall|i: int| 0 <= i < candidates(c).len() ==> d2(loc_point(bbox_spec(ctx, e)->Some_0, #[trigger] candidates(c)[i]), p) < max_val()
}
pub open spec fn opt_pt(o: Option<(R32, R32)>) -> (real, real) { pt(o->Some_0) }
impl Endpoint {
//@item src/connector.rs :: impl Endpoint :: fn new
//@ ensures
//@ - r.origin == origin && r.dir == dir
//@end
}
impl Connector {
// the `match (start_point, end_point)` of Connector::from_element: from the parsed endpoint
// specifications to the two points actually joined
//@item src/connector.rs :: impl Connector :: fn from_element
//@ fragment-name resolve_endpoints
//@ fragment-from <<<        let (start, end) = match (start_point, end_point) {>>>
//@ fragment-to <<<\n        };>>>
//@ fragment-head <<<fn resolve_endpoints(start_point: Option<(f32, f32)>, end_point: Option<(f32, f32)>, start_el: Option<&SvgElement>, end_el: Option<&SvgElement>, start_loc_in: Option<LocSpec>, end_loc_in: Option<LocSpec>, start_dir_in: Option<Direction>, end_dir_in: Option<Direction>, conn_type: ConnectionType, elem_map: &Ctx) -> Result<(Endpoint, Endpoint)> {\n        let mut start_loc = start_loc_in;\n        let mut end_loc = end_loc_in;\n        let mut start_dir = start_dir_in;\n        let mut end_dir = end_dir_in;>>>
//@ fragment-tail <<<        Ok((start, end))\n}>>>
//@ requires
//@ - start_point is Some && end_point is None && end_el is Some && end_loc_in is None ==> in_range(*elem_map, *end_el->Some_0, conn_type, opt_pt(start_point))
//@ - start_point is None && end_point is Some && start_el is Some && start_loc_in is None ==> in_range(*elem_map, *start_el->Some_0, conn_type, opt_pt(end_point))
//@ - start_point is None && end_point is None && start_el is Some && end_el is Some && start_loc_in is None && end_loc_in is Some && bbox_spec(*elem_map, *end_el->Some_0) is Some
//@     ==> in_range(*elem_map, *start_el->Some_0, conn_type, loc_point(bbox_spec(*elem_map, *end_el->Some_0)->Some_0, end_loc_in->Some_0))
//@ - start_point is None && end_point is None && start_el is Some && end_el is Some && end_loc_in is None && start_loc_in is Some && bbox_spec(*elem_map, *start_el->Some_0) is Some
//@     ==> in_range(*elem_map, *end_el->Some_0, conn_type, loc_point(bbox_spec(*elem_map, *start_el->Some_0)->Some_0, start_loc_in->Some_0))
//@ - start_point is None && end_point is None && start_el is Some && end_el is Some && start_loc_in is None && end_loc_in is None
//@     && bbox_spec(*elem_map, *start_el->Some_0) is Some && bbox_spec(*elem_map, *end_el->Some_0) is Some ==>
//@     forall|i: int, j: int| 0 <= i < candidates(conn_type).len() && 0 <= j < candidates(conn_type).len() ==>
//@       dd(bbox_spec(*elem_map, *start_el->Some_0)->Some_0, bbox_spec(*elem_map, *end_el->Some_0)->Some_0, #[trigger] candidates(conn_type)[i], #[trigger] candidates(conn_type)[j]) < max_val()
//@ ensures
//@ - r is Ok && start_point is Some ==> pt(r->Ok_0.0.origin) == opt_pt(start_point)     @@C13.endpoint.literal
//@ - r is Ok && end_point is Some ==> pt(r->Ok_0.1.origin) == opt_pt(end_point)     @@C13.endpoint.literal
//@ - r is Ok && start_point is None ==> start_el is Some && bbox_spec(*elem_map, *start_el->Some_0) is Some
//@ - r is Ok && end_point is None ==> end_el is Some && bbox_spec(*elem_map, *end_el->Some_0) is Some
//@ - r is Ok && start_point is None && start_loc_in is Some ==> pt(r->Ok_0.0.origin) == loc_point(bbox_spec(*elem_map, *start_el->Some_0)->Some_0, start_loc_in->Some_0)     @@C13.endpoint.named
//@ - r is Ok && end_point is None && end_loc_in is Some ==> pt(r->Ok_0.1.origin) == loc_point(bbox_spec(*elem_map, *end_el->Some_0)->Some_0, end_loc_in->Some_0)     @@C13.endpoint.named
//@ - r is Ok && start_point is None && start_loc_in is None ==> exists|k: int| 0 <= k < candidates(conn_type).len()
//@       && pt(r->Ok_0.0.origin) == loc_point(bbox_spec(*elem_map, *start_el->Some_0)->Some_0, #[trigger] candidates(conn_type)[k])     @@C13.endpoint.on_candidate
//@ - r is Ok && end_point is None && end_loc_in is None ==> exists|k: int| 0 <= k < candidates(conn_type).len()
//@       && pt(r->Ok_0.1.origin) == loc_point(bbox_spec(*elem_map, *end_el->Some_0)->Some_0, #[trigger] candidates(conn_type)[k])     @@C13.endpoint.on_candidate
//@ - r is Ok && start_point is None && start_loc_in is None && (end_point is Some || end_loc_in is Some) ==>
//@     forall|i: int| 0 <= i < candidates(conn_type).len() ==> d2(pt(r->Ok_0.0.origin), pt(r->Ok_0.1.origin))
//@       <= d2(loc_point(bbox_spec(*elem_map, *start_el->Some_0)->Some_0, #[trigger] candidates(conn_type)[i]), pt(r->Ok_0.1.origin))     @@C13.endpoint.closest_to_other
//@ - r is Ok && end_point is None && end_loc_in is None && (start_point is Some || start_loc_in is Some) ==>
//@     forall|i: int| 0 <= i < candidates(conn_type).len() ==> d2(pt(r->Ok_0.1.origin), pt(r->Ok_0.0.origin))
//@       <= d2(loc_point(bbox_spec(*elem_map, *end_el->Some_0)->Some_0, #[trigger] candidates(conn_type)[i]), pt(r->Ok_0.0.origin))     @@C13.endpoint.closest_to_other
//@ - r is Ok && start_point is None && end_point is None && start_loc_in is None && end_loc_in is None ==>
//@     forall|i: int, j: int| 0 <= i < candidates(conn_type).len() && 0 <= j < candidates(conn_type).len() ==> d2(pt(r->Ok_0.0.origin), pt(r->Ok_0.1.origin))
//@       <= dd(bbox_spec(*elem_map, *start_el->Some_0)->Some_0, bbox_spec(*elem_map, *end_el->Some_0)->Some_0, #[trigger] candidates(conn_type)[i], #[trigger] candidates(conn_type)[j])     @@C13.endpoint.shortest_pair
//@ - r is Ok && start_loc_in is Some ==> r->Ok_0.0.dir == start_dir_in
//@ - r is Ok && end_loc_in is Some ==> r->Ok_0.1.dir == end_dir_in
//@end
}

impl Connector {
//@item src/connector.rs :: impl Connector :: fn render
//@ fragment-name corner_points
//@ fragment-from <<<                    points = match (start_dir_some, end_dir_some) {>>>
//@ fragment-to <<<\n                    };>>>
//@ fragment-head <<<fn corner_points(&self, x1: f32, y1: f32, x2: f32, y2: f32, start_dir_some: Direction, end_dir_some: Direction, default_ratio_offset: Length, default_abs_offset: Length) -> Result<Vec<(f32, f32)>> {\n    let points;>>>
//@ fragment-tail <<<    Ok(points)\n}>>>
//@ requires
//@ - (x1, y1) == self.start.origin && (x2, y2) == self.end.origin
//@ ensures
//@ - r is Ok ==> r->Ok_0@.len() >= 3 && pt(r->Ok_0@[0]) == (val(x1), val(y1)) && pt(r->Ok_0@.last()) == (val(x2), val(y2))     @@C13.corner.endpoints
//@ - r is Ok ==> rectilinear(r->Ok_0@)     @@C13.corner.rectilinear
//@ - r is Ok ==> (vertical_dir(start_dir_some) ==> val(r->Ok_0@[0].0) == val(r->Ok_0@[1].0))
//@     && (!vertical_dir(start_dir_some) ==> val(r->Ok_0@[0].1) == val(r->Ok_0@[1].1))     @@C13.corner.leaves_perpendicular
//@ - r is Ok ==> ({ let n = r->Ok_0@.len() as int;
//@       (vertical_dir(end_dir_some) ==> val(r->Ok_0@[n - 1].0) == val(r->Ok_0@[n - 2].0))
//@       && (!vertical_dir(end_dir_some) ==> val(r->Ok_0@[n - 1].1) == val(r->Ok_0@[n - 2].1)) })     @@C13.corner.enters_perpendicular
//@ - r is Ok && start_dir_some == end_dir_some && u_offset(self.offset, default_abs_offset) is Some && u_offset(self.offset, default_abs_offset)->Some_0 >= 0real ==> ({
//@       let p = r->Ok_0@; p.len() == 4 && (match start_dir_some {
//@           Direction::Right => val(p[1].0) >= val(x1) && val(p[1].0) >= val(x2) && val(p[2].0) == val(p[1].0),
//@           Direction::Left => val(p[1].0) <= val(x1) && val(p[1].0) <= val(x2) && val(p[2].0) == val(p[1].0),
//@           Direction::Down => val(p[1].1) >= val(y1) && val(p[1].1) >= val(y2) && val(p[2].1) == val(p[1].1),
//@           Direction::Up => val(p[1].1) <= val(y1) && val(p[1].1) <= val(y2) && val(p[2].1) == val(p[1].1),
//@       }) })     @@C13.corner.u_outward
//@end

// the midpoint of the overlap for horizontal / vertical connectors: the boxes are the SAME boxes
// the endpoints are taken from (the context's bounding box of the referenced element)
//@item src/connector.rs :: impl Connector :: fn render
//@ fragment-name h_midpoint
//@ fragment-inner
//@ fragment-from <<<            ConnectionType::Horizontal => {>>>
//@ fragment-to <<<                SvgElement::new(>>>
//@ fragment-head <<<fn h_midpoint(&self, ctx: &Ctx, y1: f32) -> Result<f32> {>>>
//@ fragment-tail <<<    Ok(midpoint)\n}>>>
//@ ensures
//@ - r is Ok && (self.start_el is None || self.end_el is None) ==> r->Ok_0 == y1     @@C13.hv.literal
//@ - r is Ok && self.start_el is Some && self.end_el is Some ==> bbox_spec(*ctx, self.start_el->Some_0) is Some && bbox_spec(*ctx, self.end_el->Some_0) is Some
//@       && ({ let a = bbox_spec(*ctx, self.start_el->Some_0)->Some_0; let b = bbox_spec(*ctx, self.end_el->Some_0)->Some_0;
//@             val(r->Ok_0) == overlap_mid(val(a.y1), val(a.y2), val(b.y1), val(b.y2)) })     @@C13.h.overlap_mid
//@ - self.start_el is Some && self.end_el is Some && bbox_spec(*ctx, self.start_el->Some_0) is Some && bbox_spec(*ctx, self.end_el->Some_0) is Some
//@       && bbox_ok(*ctx, self.start_el->Some_0) && bbox_ok(*ctx, self.end_el->Some_0) ==> r is Ok     @@C13.h.drawn
//@end
//@item src/connector.rs :: impl Connector :: fn render
//@ fragment-name v_midpoint
//@ fragment-inner
//@ fragment-from <<<            ConnectionType::Vertical => {>>>
//@ fragment-to <<<                SvgElement::new(>>>
//@ fragment-head <<<fn v_midpoint(&self, ctx: &Ctx, x1: f32) -> Result<f32> {>>>
//@ fragment-tail <<<    Ok(midpoint)\n}>>>
//@ ensures
//@ - r is Ok && (self.start_el is None || self.end_el is None) ==> r->Ok_0 == x1     @@C13.hv.literal
//@ - r is Ok && self.start_el is Some && self.end_el is Some ==> bbox_spec(*ctx, self.start_el->Some_0) is Some && bbox_spec(*ctx, self.end_el->Some_0) is Some
//@       && ({ let a = bbox_spec(*ctx, self.start_el->Some_0)->Some_0; let b = bbox_spec(*ctx, self.end_el->Some_0)->Some_0;
//@             val(r->Ok_0) == overlap_mid(val(a.x1), val(a.x2), val(b.x1), val(b.x2)) })     @@C13.v.overlap_mid
//@ - self.start_el is Some && self.end_el is Some && bbox_spec(*ctx, self.start_el->Some_0) is Some && bbox_spec(*ctx, self.end_el->Some_0) is Some
//@       && bbox_ok(*ctx, self.start_el->Some_0) && bbox_ok(*ctx, self.end_el->Some_0) ==> r is Ok     @@C13.v.drawn
//@end

//@item src/connector.rs :: impl Connector :: fn loc_to_dir
//@ ensures
//@ - (loc is Top || loc is TopEdge) ==> r == Some(Direction::Up)     @@C13.dir.top
//@ - (loc is Right || loc is RightEdge) ==> r == Some(Direction::Right)     @@C13.dir.right
//@ - (loc is Bottom || loc is BottomEdge) ==> r == Some(Direction::Down)     @@C13.dir.bottom
//@ - (loc is Left || loc is LeftEdge) ==> r == Some(Direction::Left)     @@C13.dir.left
//@ - (loc is TopLeft || loc is TopRight || loc is BottomLeft || loc is BottomRight || loc is Center) ==> r is None     @@C13.dir.corner_none
//@end
}

} // verus!
fn main() {}
