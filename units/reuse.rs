//@unit reuse
//@props C18
// U-reuse: what an instance carries over from its <reuse> element (src/reuse.rs, the block after
// the attribute-override loop): the reuse element's id replaces the target's id, the target's id
// becomes a class, style and classes of the reuse element are carried, nothing else changes.
//@assume ClassList::insert/extend and SvgElement::add_class/add_classes are set insert / union over an abstract set view (iterator code over ClassList not translated); update_element only registers the element
use vstd::prelude::*;
//@prelude fmt_macro
verus! {
//@prelude std_specs r32 attrmap

#[verifier::external_body] pub struct ClassList { _p: u8 }
#[verifier::external_body] pub struct OrderIndex { _p: u8 }
#[verifier::external_body] pub struct TransformerContext { _p: u8 }
pub struct BoundingBox { pub x1: R32, pub y1: R32, pub x2: R32, pub y2: R32 }

//@rewrite f32 strlit
//@item src/types.rs :: enum ElRef
//@end
//@item src/element.rs :: struct SvgElement
//@end
impl ClassList { pub uninterp spec fn view(&self) -> Set<Seq<char>>; }
impl TransformerContext {
    #[verifier::external_body] pub fn update_element(&mut self, el: &SvgElement) { unimplemented!() }
}
impl SvgElement {
//@item src/element.rs :: impl SvgElement :: fn get_attr
//@ replace[R-optmap] <<<self.attrs.get(key).map(|x| x.to_owned())>>> => <<<match self.attrs.get(key) { Some(x) => Some(x.clone()), None => None }>>>
//@ ensures
//@ - opt_sv(r) == map_get(self.attrs@, key@)
//@end
//@item src/element.rs :: impl SvgElement :: fn set_attr
//@ ensures
//@ - final(self).attrs@ == old(self).attrs@.insert(key@, value@) && final(self).name == old(self).name && final(self).classes == old(self).classes
//@end
//@item src/element.rs :: impl SvgElement :: fn pop_attr
//@ ensures
//@ - opt_sv(r) == map_get(old(self).attrs@, key@)
//@ - final(self).attrs@ == old(self).attrs@.remove(key@) && final(self).name == old(self).name && final(self).classes == old(self).classes
//@end
//@item src/element.rs :: impl SvgElement :: fn set_indent
//@ ensures
//@ - final(self).attrs == old(self).attrs && final(self).name == old(self).name && final(self).classes == old(self).classes
//@end
//@item src/element.rs :: impl SvgElement :: fn set_src_line
//@ ensures
//@ - final(self).attrs == old(self).attrs && final(self).name == old(self).name && final(self).classes == old(self).classes
//@end
    #[verifier::external_body]
    pub fn add_classes(&mut self, classes: &ClassList)
        ensures final(self).classes@ == old(self).classes@.union(classes@), final(self).attrs == old(self).attrs, final(self).name == old(self).name
    { unimplemented!() }
    #[verifier::external_body]
    pub fn add_class(&mut self, class: &str) -> (r: SvgElement)
        ensures final(self).classes@ == old(self).classes@.insert(class@), final(self).attrs == old(self).attrs, final(self).name == old(self).name
    { unimplemented!() }
}

//@item src/reuse.rs :: impl EventGen for ReuseElement :: fn generate_events
//@ strlit "id" "style"
//@ fragment-name carry_over
//@ fragment-from <<<        // if referenced by an ElRef::Id (rather than Prev), will have an `id`>>>
//@ fragment-to <<<            instance_element.add_class(&ref_id);\n        }>>>
//@ fragment-head <<<fn carry_over(reuse_element: &SvgElement, instance_element: &mut SvgElement, context: &mut TransformerContext, elref: ElRef) {>>>
//@ fragment-tail <<<}>>>
//@ ensures
//@ - map_get(final(instance_element).attrs@, "id"@) == map_get(reuse_element.attrs@, "id"@)     @@C18.carry.id
//@ - reuse_element.attrs@.dom().contains("style"@) ==> map_get(final(instance_element).attrs@, "style"@) == map_get(reuse_element.attrs@, "style"@)     @@C18.carry.style
//@ - !reuse_element.attrs@.dom().contains("style"@) ==> map_get(final(instance_element).attrs@, "style"@) == map_get(old(instance_element).attrs@, "style"@)
//@ - final(instance_element).classes@ == old(instance_element).classes@.union(reuse_element.classes@).union(
//@       match elref { ElRef::Id(id) => set![id@],     // the id the target was referred to by - not its `id` attribute as re-evaluated with this reuse's variables
//@                      ElRef::Prev => if old(instance_element).attrs@.dom().contains("id"@) { set![old(instance_element).attrs@["id"@]] } else { Set::<Seq<char>>::empty() } })     @@C18.carry.classes @@C18.carry.target_id_as_registered
//@ - forall|k: Seq<char>| k != "id"@ && k != "style"@ ==> map_get(final(instance_element).attrs@, k) == map_get(old(instance_element).attrs@, k)     @@C18.carry.frame
//@ - final(instance_element).name == old(instance_element).name
//@end

} // verus!
fn main() {}
