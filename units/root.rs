//@unit root
//@props C08 C02 C05
// U-root: the root <svg> attributes (Transformer::write_root_svg, src/transform.rs).
// Author-supplied attributes are kept, version/xmlns are added only when missing, and the derived
// width / height / viewBox are the stated functions of the content box (grown by the border,
// rounded outward) in the real-number model.
//@assume R-fmt-tag: each format! is an uninterpreted function of its format string and arguments (fmt1/fmt2/fmt4)
//@assume the final statement (SvgElement::new + OutputList::from + write_to) is abstracted to write_root(attrs): the written root carries exactly the attribute map built before it
use vstd::prelude::*;
//@prelude fmt_macro
verus! {
//@prelude std_specs r32 attrmap

#[verifier::external_body] pub struct Writer { _p: u8 }
#[verifier::external_body] pub struct ClassList { _p: u8 }
#[verifier::external_body] pub struct OrderIndex { _p: u8 }
#[verifier::external_body] pub struct QxEvent { _p: u8 }
#[verifier::external_body] pub struct ContextRest { _p: u8 }
#[verifier::external_body] pub struct ConfigRest { _p: u8 }
#[verifier::external_body] pub struct StrMap { _p: u8 }

pub enum SvgdxError { ParseError(String), Other }
pub type Result<T> = core::result::Result<T, SvgdxError>;

pub struct TransformConfig { pub border: u16, pub scale: R32, pub svg_style: Option<String>, pub rest: ConfigRest }
pub struct TransformerContext { pub local_style_id: Option<String>, pub config: TransformConfig, pub rest: ContextRest }
//@item src/transform.rs :: struct Transformer
//@end

//@rewrite f32
//@item src/position.rs :: struct BoundingBox
//@ keep-derive Clone Copy
//@end
//@rewrite -f32
//@item src/element.rs :: struct SvgElement
//@end
//@item src/events.rs :: enum OutputEvent
//@ replace[R-opaque-type] <<<Event<'static>>>> => <<<QxEvent>>>
//@end
//@item src/position.rs :: enum LocSpec
//@ replace[R-opaque-type] <<<TopEdge(Length)>>> => <<<TopEdge(u8)>>>
//@ replace[R-opaque-type] <<<RightEdge(Length)>>> => <<<RightEdge(u8)>>>
//@ replace[R-opaque-type] <<<BottomEdge(Length)>>> => <<<BottomEdge(u8)>>>
//@ replace[R-opaque-type] <<<LeftEdge(Length)>>> => <<<LeftEdge(u8)>>>
//@end

pub uninterp spec fn fstr_spec(x: real) -> Seq<char>;
pub uninterp spec fn fmt1(tag: Seq<char>, a: Seq<char>) -> Seq<char>;
pub uninterp spec fn fmt2(tag: Seq<char>, a: Seq<char>, b: Seq<char>) -> Seq<char>;
pub uninterp spec fn fmt4(tag: Seq<char>, a: Seq<char>, b: Seq<char>, c: Seq<char>, d: Seq<char>) -> Seq<char>;
pub uninterp spec fn unit_value(s: Seq<char>) -> real;
pub uninterp spec fn unit_suffix(s: Seq<char>) -> Seq<char>;

#[verifier::external_body]
pub fn fstr(x: R32) -> (r: String) ensures r@ == fstr_spec(val(x)) { unimplemented!() }
#[verifier::external_body]
pub fn f1(tag: &str, a: &String) -> (r: String) ensures r@ == fmt1(tag@, a@) { unimplemented!() }
#[verifier::external_body]
pub fn f2(tag: &str, a: &String, b: &String) -> (r: String) ensures r@ == fmt2(tag@, a@, b@) { unimplemented!() }
#[verifier::external_body]
pub fn f4(tag: &str, a: &String, b: &String, c: &String, d: &String) -> (r: String) ensures r@ == fmt4(tag@, a@, b@, c@, d@) { unimplemented!() }
#[verifier::external_body]
pub fn split_unit(s: &str) -> (r: Result<(R32, String)>)
    ensures r is Ok ==> val(r->Ok_0.0) == unit_value(s@) && r->Ok_0.1@ == unit_suffix(s@)
{ unimplemented!() }
#[verifier::external_body]
pub fn r32_from_u16(x: u16) -> (r: R32) ensures val(r) == x as real { unimplemented!() }

impl StrMap {
    pub uninterp spec fn view(&self) -> Map<Seq<char>, Seq<char>>;
    #[verifier::external_body] pub fn new() -> (r: StrMap) ensures r@ == Map::<Seq<char>, Seq<char>>::empty() { unimplemented!() }
    #[verifier::external_body] pub fn contains_key(&self, k: &str) -> (r: bool) ensures r == self@.dom().contains(k@) { unimplemented!() }
    #[verifier::external_body] pub fn get(&self, k: &str) -> (r: Option<&String>) ensures opt_ref_sv(r) == map_get(self@, k@) { unimplemented!() }
}
impl SvgElement {
    #[verifier::external_body] pub fn get_attrs(&self) -> (r: StrMap) ensures r@ == self.attrs@ { unimplemented!() }
}
impl BoundingBox {
    // contracts proved in U-geom (same clauses)
    #[verifier::external_body]
    pub fn expand(&mut self, exp_x: R32, exp_y: R32)
        ensures val(final(self).x1) == val(old(self).x1) - val(exp_x), val(final(self).y1) == val(old(self).y1) - val(exp_y),
                val(final(self).x2) == val(old(self).x2) + val(exp_x), val(final(self).y2) == val(old(self).y2) + val(exp_y),
    { unimplemented!() }
    #[verifier::external_body]
    pub fn round(&mut self)
        ensures val(final(self).x1) == rfloor(val(old(self).x1)), val(final(self).y1) == rfloor(val(old(self).y1)),
                val(final(self).x2) == rceil(val(old(self).x2)), val(final(self).y2) == rceil(val(old(self).y2)),
    { unimplemented!() }
    #[verifier::external_body]
    pub fn width(&self) -> (r: R32) ensures val(r) == val(self.x2) - val(self.x1) { unimplemented!() }
    #[verifier::external_body]
    pub fn height(&self) -> (r: R32) ensures val(r) == val(self.y2) - val(self.y1) { unimplemented!() }
    #[verifier::external_body]
    pub fn locspec(&self, ls: LocSpec) -> (r: (R32, R32)) ensures ls is TopLeft ==> r.0 == self.x1 && r.1 == self.y1 { unimplemented!() }
}
impl Writer { pub uninterp spec fn roots(&self) -> Seq<Map<Seq<char>, Seq<char>>>; }
/// R-abstract: `OutputList::from([OutputEvent::Start(SvgElement::new("svg", &new_svg_attrs.to_vec()))].as_slice()).write_to(writer)`
#[verifier::external_body]
pub fn write_root(attrs: &AttrMap, writer: &mut Writer) -> (r: Result<()>)
    ensures final(writer).roots() == old(writer).roots().push(attrs@)
{ unimplemented!() }

// ------------------------------------------------------------------------------ spec of the root
pub open spec fn svg_ns() -> Seq<char> { "http://www.w3.org/2000/svg"@ }
/// the content box grown by the border and rounded outward
pub open spec fn extent_of(bb: BoundingBox, border: real) -> (real, real, real, real) {
    (rfloor(val(bb.x1) - border), rfloor(val(bb.y1) - border), rceil(val(bb.x2) + border), rceil(val(bb.y2) + border))
}
pub open spec fn orig_attrs(ev: OutputEvent) -> Map<Seq<char>, Seq<char>> {
    // the author's root element, whether written `<svg ..>` or `<svg ../>`
    match ev { OutputEvent::Start(e) => e.attrs@, OutputEvent::Empty(e) => e.attrs@, _ => Map::<Seq<char>, Seq<char>>::empty() }
}

impl Transformer {
//@rewrite f32 strlit
//@item src/transform.rs :: impl Transformer :: fn write_root_svg
//@ replace[R-opaque-type] <<<writer: &mut dyn Write,>>> => <<<writer: &mut Writer,>>>
//@ replace[R-opaque-type] <<<let mut orig_svg_attrs = HashMap::new();>>> => <<<let mut orig_svg_attrs = StrMap::new();>>>
//@ replace-all[R-cast] <<<self.context.config.border as f32>>> => <<<r32_from_u16(self.context.config.border)>>>
//@ replace[R-fmt-tag] <<<format!("{}mm", width)>>> => <<<f1("{}mm", &width)>>>
//@ replace[R-fmt-tag] <<<format!("{}mm", height)>>> => <<<f1("{}mm", &height)>>>
//@ replace[R-fmt-tag] <<<format!("{}{}", fstr(width / aspect_ratio), unit)>>> => <<<f2("{}{}", &fstr(width / aspect_ratio), &unit)>>>
//@ replace[R-fmt-tag] <<<format!("{}{}", fstr(height * aspect_ratio), unit)>>> => <<<f2("{}{}", &fstr(height * aspect_ratio), &unit)>>>
//@ replace[R-fmt-tag] <<<format!("{} {} {} {}", fstr(x1), fstr(y1), view_width, view_height).as_str()>>> => <<<f4("{} {} {} {}", &fstr(x1), &fstr(y1), &view_width, &view_height).as_str()>>>
//@ replace[R-abstract] <<<        OutputList::from(\n            [OutputEvent::Start(SvgElement::new(\n                "svg",\n                &new_svg_attrs.to_vec(),\n            ))]\n            .as_slice(),\n        )\n        .write_to(writer)>>> => <<<        write_root(&new_svg_attrs, writer)>>>
//@ ensures
//@ - r is Ok ==> final(writer).roots().len() == old(writer).roots().len() + 1     @@C02.root.single
//@ - r is Ok ==> ({ let m = final(writer).roots().last(); let o = orig_attrs(first_svg);
//@       m.dom().contains("xmlns"@) && m.dom().contains("version"@)
//@       && (o.dom().contains("xmlns"@) ==> m["xmlns"@] == o["xmlns"@]) && (!o.dom().contains("xmlns"@) ==> m["xmlns"@] == svg_ns())
//@       && (o.dom().contains("version"@) ==> m["version"@] == o["version"@]) && (!o.dom().contains("version"@) ==> m["version"@] == "1.1"@) })     @@C02.root.ns_version @@C05.root.ns
//@ - r is Ok && orig_attrs(first_svg).dom().contains("xmlns"@) ==> final(writer).roots().last()["xmlns"@] == svg_ns()     @@C05.root.ns.author
//@ - r is Ok ==> ({ let m = final(writer).roots().last(); let o = orig_attrs(first_svg);
//@       forall|k: Seq<char>| #[trigger] o.dom().contains(k) && !(k == "style"@ && self.context.config.svg_style is Some) ==> m.dom().contains(k) && m[k] == o[k] })     @@C08.root.kept
//@ - r is Ok && bbox is Some ==> ({ let m = final(writer).roots().last(); let o = orig_attrs(first_svg);
//@       let (x1, y1, x2, y2) = extent_of(bbox->Some_0, self.context.config.border as real);
//@       (!o.dom().contains("viewBox"@) ==> m.dom().contains("viewBox"@) && m["viewBox"@] == fmt4("{} {} {} {}"@, fstr_spec(x1), fstr_spec(y1), fstr_spec(x2 - x1), fstr_spec(y2 - y1)))
//@       && (!o.dom().contains("width"@) && !o.dom().contains("height"@) ==>
//@              m.dom().contains("width"@) && m["width"@] == fmt1("{}mm"@, fstr_spec((x2 - x1) * val(self.context.config.scale)))
//@           && m.dom().contains("height"@) && m["height"@] == fmt1("{}mm"@, fstr_spec((y2 - y1) * val(self.context.config.scale))))
//@       && (o.dom().contains("width"@) && !o.dom().contains("height"@) && x2 - x1 > 0real && y2 - y1 > 0real ==>
//@              m.dom().contains("height"@) && m["height"@] == fmt2("{}{}"@, fstr_spec(rdiv(unit_value(o["width"@]), rdiv(x2 - x1, y2 - y1))), unit_suffix(o["width"@])))
//@       && (!o.dom().contains("width"@) && o.dom().contains("height"@) && x2 - x1 > 0real && y2 - y1 > 0real ==>
//@              m.dom().contains("width"@) && m["width"@] == fmt2("{}{}"@, fstr_spec(unit_value(o["height"@]) * rdiv(x2 - x1, y2 - y1)), unit_suffix(o["height"@]))) })     @@C08.root.derived
//@ - r is Ok && bbox is Some ==> ({ let m = final(writer).roots().last(); let o = orig_attrs(first_svg);
//@       let (x1, y1, x2, y2) = extent_of(bbox->Some_0, self.context.config.border as real);
//@       !(x2 - x1 > 0real && y2 - y1 > 0real) ==> (!o.dom().contains("height"@) && o.dom().contains("width"@) ==> !m.dom().contains("height"@))
//@                                              && (!o.dom().contains("width"@) && o.dom().contains("height"@) ==> !m.dom().contains("width"@)) })     @@C08.root.no_dimension_from_a_degenerate_extent
//@ - r is Ok && bbox is None ==> ({ let m = final(writer).roots().last(); let o = orig_attrs(first_svg);
//@       forall|k: Seq<char>| (k == "width"@ || k == "height"@ || k == "viewBox"@) && !o.dom().contains(k) ==> !#[trigger] m.dom().contains(k) })     @@C08.root.nothing_without_content
//@end
}

} // verus!
fn main() {}
