//@unit classlist
//@props C05 C06
// U-classlist: the class list of an element (src/types.rs ClassList) is a duplicate-free sequence
// in first-insertion order; every public mutator keeps that invariant (the writer joins the list
// with single blanks and SvgElement::new re-reads it through insert(): a duplicate would be
// dropped on the second pass).
//@assume std: `[T]::contains(&x)` is "some element equals x", String equality is equality of the character sequences (uninterpreted `same`, axiom for String)
//@assume R-rename: the parameter `old` of ClassList::replace is renamed old_class (it shadows Verus' old())
//@assume R-abstract: `self.classes.iter().position(|c| *c == class)` is first_index_of() (first index holding an equal string, None if there is none); `s.split_whitespace()` is split_ws() (an opaque sequence of words)
use vstd::prelude::*;
verus! {
//@prelude std_specs vecstr

//@item src/types.rs :: struct ClassList
//@end

pub open spec fn no_dups(s: Seq<String>) -> bool {
    forall|i: int, j: int| 0 <= i < j < s.len() ==> (#[trigger] s[i])@ != (#[trigger] s[j])@
}
pub open spec fn holds(s: Seq<String>, c: Seq<char>) -> bool { exists|i: int| 0 <= i < s.len() && (#[trigger] s[i])@ == c }

/// R-abstract: `v.iter().position(|c| *c == class)`
#[verifier::external_body]
pub fn first_index_of(v: &Vec<String>, class: &String) -> (r: Option<usize>)
    ensures
        (match r {
            Some(p) => p < v@.len() && v@[p as int]@ == class@ && forall|i: int| 0 <= i < p ==> (#[trigger] v@[i])@ != class@,
            None => !holds(v@, class@),
        })
{ unimplemented!() }
/// R-abstract: `s.split_whitespace()` collected
#[verifier::external_body]
pub fn split_ws(s: String) -> (r: Vec<String>) { unimplemented!() }

impl ClassList {
    pub open spec fn wf(&self) -> bool { no_dups(self.classes@) }

//@item src/types.rs :: impl ClassList :: fn new
//@ ensures
//@ - r.wf() && r.classes@.len() == 0     @@C05.class.new_wf
//@end

//@item src/types.rs :: impl ClassList :: fn insert
//@ requires
//@ - old(self).wf()
//@ ensures
//@ - final(self).wf()     @@C05.class.insert_keeps_no_duplicates @@C06.class.insert_keeps_no_duplicates
//@ - old(self).classes@ =~= final(self).classes@.subrange(0, old(self).classes@.len() as int)     @@C06.class.first_insertion_order
//@ - final(self).classes@.len() <= old(self).classes@.len() + 1
//@end

//@item src/types.rs :: impl ClassList :: fn remove
//@ replace[R-abstract] <<<self.classes.iter().position(|c| *c == class)>>> => <<<first_index_of(&self.classes, &class)>>>
//@ requires
//@ - old(self).wf()
//@ ensures
//@ - final(self).wf()     @@C05.class.remove_keeps_no_duplicates
//@end

//@item src/types.rs :: impl ClassList :: fn replace
//@ replace[R-abstract] <<<new.into().split_whitespace()>>> => <<<split_ws(new.into())>>>
//@ replace[R-rename] <<<old: impl Into<String>, new>>> => <<<old_class: impl Into<String>, new>>>
//@ replace[R-rename] <<<let old = old.into();>>> => <<<let old = old_class.into();>>>
//@ requires
//@ - old(self).wf()
//@ ensures
//@ - final(self).wf()     @@C05.class.replace_keeps_no_duplicates
//@ loop 1
//@ invariant
//@ - self.wf()     @@C05.class.replace_keeps_no_duplicates
//@end

//@item src/types.rs :: impl ClassList :: fn extend
//@ replace[R-inline] <<<other.iter()>>> => <<<other.classes.iter()>>>
//@ requires
//@ - old(self).wf()
//@ ensures
//@ - final(self).wf()     @@C05.class.extend_keeps_no_duplicates
//@ loop 1
//@ invariant
//@ - self.wf()     @@C05.class.extend_keeps_no_duplicates
//@end
}
//@expect src/types.rs :: impl ClassList :: fn iter <<<self.classes.iter()>>>

impl vstd::std_specs::convert::FromSpecImpl<Vec<String>> for ClassList {
    open spec fn obeys_from_spec() -> bool { false }
    uninterp spec fn from_spec(v: Vec<String>) -> Self;
}
impl From<Vec<String>> for ClassList {
//@item src/types.rs :: impl From<Vec<String>> for ClassList :: fn from
//@ ensures
//@ - r.wf()     @@C05.class.from_vec_no_duplicates
//@ loop 1
//@ invariant
//@ - cl.wf()     @@C05.class.from_vec_no_duplicates
//@end
}
} // verus!
fn main() {}
