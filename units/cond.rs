//@unit cond
//@props C16
// U-cond: the truth value of a condition (src/expression.rs eval_condition): the closure applied
// to the parsed number is extracted as a function of its own; "non-zero" is the statement's word.
//@assume the surrounding text handling of eval_condition (strip_prefix/strip_suffix of `{{ }}`, eval_str, str::parse::<f32>) is not under contract here; the expression evaluator is U-expr
use vstd::prelude::*;
//@prelude fmt_macro
verus! {
//@prelude std_specs r32

//@rewrite f32
//@item src/expression.rs :: fn eval_condition
//@ fragment-name cond_truth
//@ fragment-inner
//@ fragment-from <<<        .parse::<f32>()\n        .map(|v| >>>
//@ fragment-to <<<)\n        .map_err(>>>
//@ fragment-head <<<fn cond_truth(v: f32) -> bool {>>>
//@ fragment-tail <<<}>>>
//@ ensures
//@ - r == (val(v) != 0real)     @@C16.cond.nonzero
//@end

} // verus!
fn main() {}
