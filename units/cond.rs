//@unit cond
//@props C16
// U-cond: the truth value of a condition (src/expression.rs eval_condition): a condition whose value
// is a number is true exactly when THAT NUMBER is non-zero ("non-zero" is the statement's word) - the
// number itself, not its 3-decimal rendering.
//@assume tokenize + evaluate are a deterministic partial function of the text and the context (value_spec; U-expr proves evaluate against the semantics); one_number is as in U-expr (a number, or a list holding exactly one number); the `{{ }}` stripping (strip_prefix / strip_suffix) is abstracted as strip_braces; rendering + str::parse::<f32> of a non-numeric value are uninterpreted
use vstd::prelude::*;
//@prelude fmt_macro
verus! {
//@prelude std_specs r32

pub enum SvgdxError { ParseError(String), Other }
pub type Result<T> = core::result::Result<T, SvgdxError>;
#[verifier::external_body] pub struct Ctx { _p: u8 }
#[verifier::external_body] pub struct ExprValue { _p: u8 }
#[verifier::external_body] pub struct Token { _p: u8 }
#[verifier::external_body] pub struct ParseFloatError { _p: u8 }

/// the value of the expression text in the context, when it has one
pub uninterp spec fn value_spec(text: Seq<char>, ctx: Ctx) -> Option<ExprValue>;
/// the numeric reading of a value (U-expr: as_num)
pub uninterp spec fn num_of(v: ExprValue) -> Option<real>;
pub uninterp spec fn tokens_of(text: Seq<char>) -> Option<Seq<Token>>;
pub uninterp spec fn eval_tokens(t: Seq<Token>, ctx: Ctx) -> Option<ExprValue>;
pub uninterp spec fn braces_stripped(text: Seq<char>) -> Option<Seq<char>>;

#[verifier::external_body]
pub fn tokenize(input: &str) -> (r: Result<Vec<Token>>)
    ensures (match tokens_of(input@) { Some(t) => r is Ok && r->Ok_0@ == t, None => r is Err })
{ unimplemented!() }
#[verifier::external_body]
pub fn evaluate(tokens: Vec<Token>, context: &Ctx) -> (r: Result<ExprValue>)
    ensures (match eval_tokens(tokens@, *context) { Some(v) => r == Ok::<ExprValue, SvgdxError>(v), None => r is Err })
{ unimplemented!() }
/// R-andthen: `tokenize(value).and_then(|tokens| evaluate(tokens, context))`
pub fn tokenize_and_evaluate(value: &str, context: &Ctx) -> (r: Result<ExprValue>)
    ensures (match tokens_of(value@) { Some(t) => (match eval_tokens(t, *context) { Some(v) => r == Ok::<ExprValue, SvgdxError>(v), None => r is Err }), None => r is Err })
{
    match tokenize(value) { Ok(tokens) => evaluate(tokens, context), Err(e) => Err(e) }
}
/// R-abstract: the `{{ }}` stripping at the head of eval_condition
#[verifier::external_body]
pub fn strip_braces(value: &str) -> (r: Result<&str>)
    ensures (match braces_stripped(value@) { Some(s) => r is Ok && r->Ok_0@ == s, None => r is Err })
{ unimplemented!() }
impl ExprValue {
    #[verifier::external_body]
    pub fn one_number(&self) -> (r: Result<R32>)
        ensures (match num_of(*self) { Some(x) => r is Ok && val(r->Ok_0) == x, None => r is Err })
    { unimplemented!() }
    /// R-abstract: `.to_string().parse::<f32>()` of a value that is not a number
    #[verifier::external_body]
    pub fn render_and_parse(&self) -> core::result::Result<R32, ParseFloatError> { unimplemented!() }
}

//@rewrite f32 fmt
//@item src/expression.rs :: fn eval_condition
//@ replace[R-opaque-type] <<<context: &impl ContextView>>> => <<<context: &Ctx>>>
//@ cut[R-abstract] <<<    let mut value = value;\n    if let Some(inner) = value.strip_prefix(EXPR_START) {>>> .. <<<            )))?;\n    }>>> => <<<    let value = strip_braces(value)?;>>>
//@ replace[R-andthen] <<<tokenize(value).and_then(|tokens| evaluate(tokens, context))?>>> => <<<tokenize_and_evaluate(value, context)?>>>
//@ replace[R-abstract] <<<    result\n        .to_string()\n        .parse::<f32>()>>> => <<<    result\n        .render_and_parse()>>>
//@ replace[R-closure-param] <<<.map_err(|_| SvgdxError::ParseError(>>> => <<<.map_err(|_e| SvgdxError::ParseError(>>>
//@ ensures
//@ - (match braces_stripped(value@) { Some(s) => (match tokens_of(s) { Some(t) => (match eval_tokens(t, *context) {
//@       Some(v) => num_of(v) is Some ==> r == Ok::<bool, SvgdxError>(num_of(v)->Some_0 != 0real),
//@       None => r is Err }), None => r is Err }), None => r is Err })     @@C16.cond.nonzero
//@end

} // verus!
fn main() {}
