//@unit geom
//@props C08 C09 C11 C12
// U-geom: the numeric kernel of src/position.rs in the real-number model (R-f32).
use vstd::prelude::*;
//@prelude fmt_macro
verus! {
//@prelude std_specs r32

pub enum SvgdxError { ParseError(String), InvalidData(String), Other }
pub type Result<T> = core::result::Result<T, SvgdxError>;

//@rewrite f32 strlit
//@item src/position.rs :: struct Size
//@ keep-derive Clone Copy
//@end
//@item src/position.rs :: struct Position
//@end
//@item src/position.rs :: enum Length
//@ keep-derive Clone Copy
//@end
//@item src/position.rs :: enum DirSpec
//@ keep-derive Clone Copy
//@end
//@item src/position.rs :: enum LocSpec
//@ keep-derive Clone Copy
//@end
//@item src/position.rs :: enum ScalarSpec
//@ keep-derive Clone Copy
//@end
//@item src/position.rs :: struct BoundingBox
//@ keep-derive Clone Copy
//@end
//@item src/position.rs :: struct BoundingBoxBuilder
//@end
//@item src/position.rs :: struct TrblLength
//@ keep-derive Clone Copy
//@end

// ------------------------------------------------------------------------------ spec vocabulary
pub open spec fn ov(o: Option<R32>) -> Option<real> {
    match o { Some(x) => Some(val(x)), None => None }
}
pub open spec fn given(o: Option<R32>) -> int { if o is Some { 1 } else { 0 } }

/// the interval (a, b) satisfies every constraint that is present
pub open spec fn axis_consistent(start: Option<R32>, end: Option<R32>, middle: Option<R32>, length: Option<R32>, a: real, b: real) -> bool {
    &&& (start is Some ==> val(start->Some_0) == a)
    &&& (end is Some ==> val(end->Some_0) == b)
    &&& (middle is Some ==> (a + b) / 2real == val(middle->Some_0))
    &&& (length is Some ==> b - a == val(length->Some_0))
}
pub open spec fn n_given(start: Option<R32>, end: Option<R32>, middle: Option<R32>, length: Option<R32>) -> int {
    given(start) + given(end) + given(middle) + given(length)
}
pub open spec fn is_line(s: String) -> bool { s@ == "line"@ }
/// an axis that carries only a length: the position is absent, which SVG reads as zero - the start of a
/// rect / line / image .., the CENTRE of an ellipse (cx / cy default to 0)
pub open spec fn only_length(start: Option<R32>, end: Option<R32>, middle: Option<R32>, length: Option<R32>) -> bool {
    start is None && end is None && middle is None && length is Some
}
pub open spec fn origin_extent(shape: String, len: real) -> (real, real) {
    if shape@ == "ellipse"@ { (0real - len / 2real, len / 2real) } else { (0real, len) }
}
pub open spec fn plain_shape(shape: String) -> bool { shape@ != "circle"@ && shape@ != "point"@ && shape@ != "text"@ }
/// shapes without extent: a point, and a text (its anchor): located by ONE value per axis, whichever spelling gives it
pub open spec fn located_shape(shape: String) -> bool { shape@ == "point"@ || shape@ == "text"@ }
pub open spec fn first_of(a: Option<R32>, b: Option<R32>, c: Option<R32>) -> Option<R32> { if a is Some { a } else if b is Some { b } else { c } }

pub open spec fn bx(b: BoundingBox) -> (real, real, real, real) { (val(b.x1), val(b.y1), val(b.x2), val(b.y2)) }
pub open spec fn len_offset(l: Length, start: real, end: real) -> real {
    match l {
        Length::Absolute(a) => {
            let m = if end < start { -1real } else { 1real };
            if val(a) < 0real { end + val(a) * m } else { start + val(a) * m }
        },
        Length::Ratio(r) => start + (end - start) * val(r),
    }
}
pub open spec fn len_eval(l: Length, base: real) -> real {
    match l { Length::Absolute(a) => val(a), Length::Ratio(r) => base * val(r) }
}
/// the statement's table of named locations (t, tr, r, br, b, bl, l, c, tl) and edge offsets
pub open spec fn loc_point(b: BoundingBox, ls: LocSpec) -> (real, real) {
    let (x1, y1, x2, y2) = bx(b);
    let mx = (x1 + x2) / 2real;
    let my = (y1 + y2) / 2real;
    match ls {
        LocSpec::TopLeft => (x1, y1),
        LocSpec::Top => (mx, y1),
        LocSpec::TopRight => (x2, y1),
        LocSpec::Right => (x2, my),
        LocSpec::BottomRight => (x2, y2),
        LocSpec::Bottom => (mx, y2),
        LocSpec::BottomLeft => (x1, y2),
        LocSpec::Left => (x1, my),
        LocSpec::Center => (mx, my),
        LocSpec::TopEdge(l) => (len_offset(l, x1, x2), y1),
        LocSpec::RightEdge(l) => (x2, len_offset(l, y1, y2)),
        LocSpec::BottomEdge(l) => (len_offset(l, x1, x2), y2),
        LocSpec::LeftEdge(l) => (x1, len_offset(l, y1, y2)),
    }
}
pub open spec fn scalar_of(b: BoundingBox, ss: ScalarSpec) -> real {
    let (x1, y1, x2, y2) = bx(b);
    match ss {
        ScalarSpec::Minx => x1,
        ScalarSpec::Maxx => x2,
        ScalarSpec::Miny => y1,
        ScalarSpec::Maxy => y2,
        ScalarSpec::Width => rabs(x2 - x1),
        ScalarSpec::Height => rabs(y2 - y1),
        ScalarSpec::Cx => (x1 + x2) / 2real,
        ScalarSpec::Cy => (y1 + y2) / 2real,
        ScalarSpec::Rx => rabs(x2 - x1) / 2real,
        ScalarSpec::Ry => rabs(y2 - y1) / 2real,
        ScalarSpec::Radius => rmax(rabs(x2 - x1) / 2real, rabs(y2 - y1) / 2real),
    }
}
pub open spec fn encloses(outer: BoundingBox, inner: BoundingBox) -> bool {
    val(outer.x1) <= val(inner.x1) && val(outer.y1) <= val(inner.y1) && val(outer.x2) >= val(inner.x2) && val(outer.y2) >= val(inner.y2)
}

pub assume_specification<T> [std::option::Option::<T>::or] (_0: std::option::Option<T>, _1: std::option::Option<T>) -> (r: std::option::Option<T>)
    ensures r == (if _0 is Some { _0 } else { _1 });

// ------------------------------------------------------------------------------ Position
impl Position {
//@item src/position.rs :: impl Position :: fn extent
//@ replace[R-orguard] <<<            (Some(m), None, None, None)\n            | (None, Some(m), None, None)\n            | (None, None, Some(m), None)\n                if self.shape == "line" =>\n            {\n                Some((m, m))\n            }>>> => <<<            (Some(m), None, None, None) if self.shape == "line" => { Some((m, m)) }\n            (None, Some(m), None, None) if self.shape == "line" => { Some((m, m)) }\n            (None, None, Some(m), None) if self.shape == "line" => { Some((m, m)) }>>>
//@ ensures
//@ - n_given(start, end, middle, length) >= 2 ==> r is Some     @@C11.extent.sufficient
//@ - forall|a: real, b: real| n_given(start, end, middle, length) >= 2 && #[trigger] axis_consistent(start, end, middle, length, a, b)
//@     ==> r is Some && val(r->Some_0.0) == a && val(r->Some_0.1) == b     @@C11.extent.consistent
//@ - n_given(start, end, middle, length) == 0 ==> r is None     @@C11.extent.none
//@ - n_given(start, end, middle, length) == 1 && length is Some ==> r is None     @@C11.extent.length_only
//@ - n_given(start, end, middle, length) == 1 && length is None ==> (r is Some <==> is_line(self.shape))     @@C11.extent.line
//@ - n_given(start, end, middle, length) == 1 && length is None && r is Some ==>
//@     (forall|a: real, b: real| #[trigger] axis_consistent(start, end, middle, length, a, b) && a == b ==> val(r->Some_0.0) == a && val(r->Some_0.1) == b)     @@C11.extent.line.degenerate
//@end

//@item src/position.rs :: impl Position :: fn three_point
//@ ensures
//@ - (start is Some || middle is Some || end is Some) <==> r is Some     @@C11.three_point.some
//@ - r is Some ==> val(r->Some_0.1) - val(r->Some_0.0) == val(extent)     @@C11.three_point.length
//@ - r is Some && start is Some ==> val(r->Some_0.0) == val(start->Some_0)     @@C11.three_point.start
//@ - r is Some && start is None && middle is Some ==> (val(r->Some_0.0) + val(r->Some_0.1)) / 2real == val(middle->Some_0)     @@C11.three_point.middle
//@ - r is Some && start is None && middle is None ==> val(r->Some_0.1) == val(end->Some_0)     @@C11.three_point.end
//@end

//@item src/position.rs :: impl Position :: fn x_def
//@ ensures
//@ - n_given(self.xmin, self.xmax, self.cx, self.width) >= 2 ==> r is Some
//@ - forall|a: real, b: real| n_given(self.xmin, self.xmax, self.cx, self.width) >= 2 && #[trigger] axis_consistent(self.xmin, self.xmax, self.cx, self.width, a, b)
//@     ==> r is Some && val(r->Some_0.0) == a && val(r->Some_0.1) == b     @@C11.xdef.consistent
//@ - n_given(self.xmin, self.xmax, self.cx, self.width) < 2 && !is_line(self.shape) ==> r is None     @@C11.xdef.insufficient
//@ - only_length(self.xmin, self.xmax, self.cx, self.width) ==> r is None     @@C11.xdef.length_only
//@end
//@item src/position.rs :: impl Position :: fn y_def
//@ ensures
//@ - n_given(self.ymin, self.ymax, self.cy, self.height) >= 2 ==> r is Some
//@ - forall|a: real, b: real| n_given(self.ymin, self.ymax, self.cy, self.height) >= 2 && #[trigger] axis_consistent(self.ymin, self.ymax, self.cy, self.height, a, b)
//@     ==> r is Some && val(r->Some_0.0) == a && val(r->Some_0.1) == b     @@C11.ydef.consistent
//@ - n_given(self.ymin, self.ymax, self.cy, self.height) < 2 && !is_line(self.shape) ==> r is None     @@C11.ydef.insufficient
//@ - only_length(self.ymin, self.ymax, self.cy, self.height) ==> r is None     @@C11.ydef.length_only
//@end

//@item src/position.rs :: impl Position :: fn origin_extent
//@ strlit "ellipse"
//@ ensures
//@ - length is Some ==> r is Some && (val(r->Some_0.0), val(r->Some_0.1)) == origin_extent(self.shape, val(length->Some_0))     @@C11.to_bbox.absent_position_is_zero
//@ - length is None ==> r is None
//@end
//@item src/position.rs :: impl Position :: fn to_bbox
//@ strlit "line" "ellipse" "circle" "point" "text"
//@ ensures
//@ - n_given(self.xmin, self.xmax, self.cx, self.width) >= 2 && n_given(self.ymin, self.ymax, self.cy, self.height) >= 2 ==> r is Some     @@C11.to_bbox.sufficient
//@ - forall|x1: real, y1: real, x2: real, y2: real|
//@     n_given(self.xmin, self.xmax, self.cx, self.width) >= 2 && n_given(self.ymin, self.ymax, self.cy, self.height) >= 2
//@     && #[trigger] axis_consistent(self.xmin, self.xmax, self.cx, self.width, x1, x2) && #[trigger] axis_consistent(self.ymin, self.ymax, self.cy, self.height, y1, y2)
//@     ==> r is Some && bx(r->Some_0) == (x1, y1, x2, y2)     @@C11.to_bbox.consistent
//@ - plain_shape(self.shape) && n_given(self.xmin, self.xmax, self.cx, self.width) >= 2 && only_length(self.ymin, self.ymax, self.cy, self.height) ==> r is Some
//@     && (val(r->Some_0.y1), val(r->Some_0.y2)) == origin_extent(self.shape, val(self.height->Some_0))
//@     && (forall|a: real, b: real| #[trigger] axis_consistent(self.xmin, self.xmax, self.cx, self.width, a, b) ==> val(r->Some_0.x1) == a && val(r->Some_0.x2) == b)     @@C11.to_bbox.y_at_origin
//@ - plain_shape(self.shape) && n_given(self.ymin, self.ymax, self.cy, self.height) >= 2 && only_length(self.xmin, self.xmax, self.cx, self.width) ==> r is Some
//@     && (val(r->Some_0.x1), val(r->Some_0.x2)) == origin_extent(self.shape, val(self.width->Some_0))
//@     && (forall|a: real, b: real| #[trigger] axis_consistent(self.ymin, self.ymax, self.cy, self.height, a, b) ==> val(r->Some_0.y1) == a && val(r->Some_0.y2) == b)     @@C11.to_bbox.x_at_origin
//@ - plain_shape(self.shape) && only_length(self.xmin, self.xmax, self.cx, self.width) && only_length(self.ymin, self.ymax, self.cy, self.height) ==> r is Some
//@     && (val(r->Some_0.x1), val(r->Some_0.x2)) == origin_extent(self.shape, val(self.width->Some_0))
//@     && (val(r->Some_0.y1), val(r->Some_0.y2)) == origin_extent(self.shape, val(self.height->Some_0))     @@C11.to_bbox.both_at_origin
//@ - located_shape(self.shape) && !(n_given(self.xmin, self.xmax, self.cx, self.width) >= 2 && n_given(self.ymin, self.ymax, self.cy, self.height) >= 2)
//@     && first_of(self.xmin, self.xmax, self.cx) is Some && first_of(self.ymin, self.ymax, self.cy) is Some ==> r is Some
//@       && val(r->Some_0.x1) == val(first_of(self.xmin, self.xmax, self.cx)->Some_0) && val(r->Some_0.x2) == val(r->Some_0.x1)
//@       && val(r->Some_0.y1) == val(first_of(self.ymin, self.ymax, self.cy)->Some_0) && val(r->Some_0.y2) == val(r->Some_0.y1)     @@C19.anchor.any_spelling @@C09.point.any_spelling
//@ - self.shape@ == "circle"@ && n_given(self.xmin, self.xmax, self.cx, self.width) >= 2 && n_given(self.ymin, self.ymax, self.cy, self.height) < 2
//@     && (self.ymin is Some || self.cy is Some || self.ymax is Some) ==> r is Some
//@       && val(r->Some_0.y2) - val(r->Some_0.y1) == val(r->Some_0.x2) - val(r->Some_0.x1)     @@C11.to_bbox.circle_x.square
//@ - self.shape@ == "circle"@ && n_given(self.xmin, self.xmax, self.cx, self.width) >= 2 && n_given(self.ymin, self.ymax, self.cy, self.height) < 2
//@     && (self.ymin is Some || self.cy is Some || self.ymax is Some) ==> r is Some
//@       && (forall|a: real, b: real| #[trigger] axis_consistent(self.xmin, self.xmax, self.cx, self.width, a, b) ==> val(r->Some_0.x1) == a && val(r->Some_0.x2) == b)     @@C11.to_bbox.circle_x.xaxis
//@ - self.shape@ == "circle"@ && n_given(self.xmin, self.xmax, self.cx, self.width) >= 2 && n_given(self.ymin, self.ymax, self.cy, self.height) < 2
//@     && (self.ymin is Some || self.cy is Some || self.ymax is Some) ==> r is Some
//@       && (forall|a: real, b: real| #[trigger] axis_consistent(self.ymin, self.ymax, self.cy, None, a, b) && b - a == val(r->Some_0.x2) - val(r->Some_0.x1) ==> val(r->Some_0.y1) == a && val(r->Some_0.y2) == b)     @@C11.to_bbox.circle_x.yaxis
//@ - self.shape@ == "circle"@ && n_given(self.ymin, self.ymax, self.cy, self.height) >= 2 && n_given(self.xmin, self.xmax, self.cx, self.width) < 2
//@     && (self.xmin is Some || self.cx is Some || self.xmax is Some) ==> r is Some
//@       && val(r->Some_0.y2) - val(r->Some_0.y1) == val(r->Some_0.x2) - val(r->Some_0.x1)     @@C11.to_bbox.circle_y.square
//@ - self.shape@ == "circle"@ && n_given(self.ymin, self.ymax, self.cy, self.height) >= 2 && n_given(self.xmin, self.xmax, self.cx, self.width) < 2
//@     && (self.xmin is Some || self.cx is Some || self.xmax is Some) ==> r is Some
//@       && (forall|a: real, b: real| #[trigger] axis_consistent(self.ymin, self.ymax, self.cy, self.height, a, b) ==> val(r->Some_0.y1) == a && val(r->Some_0.y2) == b)     @@C11.to_bbox.circle_y.yaxis
//@ - self.shape@ == "circle"@ && n_given(self.ymin, self.ymax, self.cy, self.height) >= 2 && n_given(self.xmin, self.xmax, self.cx, self.width) < 2
//@     && (self.xmin is Some || self.cx is Some || self.xmax is Some) ==> r is Some
//@       && (forall|a: real, b: real| #[trigger] axis_consistent(self.xmin, self.xmax, self.cx, None, a, b) && b - a == val(r->Some_0.y2) - val(r->Some_0.y1) ==> val(r->Some_0.x1) == a && val(r->Some_0.x2) == b)     @@C11.to_bbox.circle_y.xaxis
//@end

//@item src/position.rs :: impl Position :: fn has_x_position
//@ ensures
//@ - r == (self.xmin is Some || self.xmax is Some || self.cx is Some || self.dx is Some)
//@end
//@item src/position.rs :: impl Position :: fn has_y_position
//@ ensures
//@ - r == (self.ymin is Some || self.ymax is Some || self.cy is Some || self.dy is Some)
//@end
//@item src/position.rs :: impl Position :: fn update_size
//@ ensures
//@ - final(self).width == Some(sz.0) && final(self).height == Some(sz.1)
//@ - final(self).xmin == old(self).xmin && final(self).xmax == old(self).xmax && final(self).cx == old(self).cx
//@ - final(self).ymin == old(self).ymin && final(self).ymax == old(self).ymax && final(self).cy == old(self).cy
//@ - final(self).dx == old(self).dx && final(self).dy == old(self).dy && final(self).shape == old(self).shape
//@end
//@item src/position.rs :: impl Position :: fn x
//@end
//@item src/position.rs :: impl Position :: fn y
//@end
}

// ------------------------------------------------------------------------------ Length / specs
impl Length {
//@item src/position.rs :: impl Length :: fn evaluate
//@ ensures
//@ - val(r) == len_eval(*self, val(base))     @@C12.length.evaluate
//@end
//@item src/position.rs :: impl Length :: fn adjust
//@ ensures
//@ - self is Absolute ==> val(r) == val(value) + val(self->Absolute_0)     @@C09.adjust.abs
//@ - self is Ratio ==> val(r) == val(value) * val(self->Ratio_0)     @@C09.adjust.ratio
//@end
//@item src/position.rs :: impl Length :: fn calc_offset
//@ ensures
//@ - val(r) == len_offset(*self, val(start), val(end))     @@C09.offset.spec @@C13.offset.spec
//@ - self is Absolute && val(self->Absolute_0) >= 0real && val(start) <= val(end) ==> val(r) == val(start) + val(self->Absolute_0)     @@C09.offset.from_start
//@ - self is Absolute && val(self->Absolute_0) < 0real && val(start) <= val(end) ==> val(r) == val(end) + val(self->Absolute_0)     @@C09.offset.from_end
//@ - self is Absolute && val(self->Absolute_0) >= 0real && val(start) > val(end) ==> val(r) == val(start) - val(self->Absolute_0)     @@C09.offset.reversed_start @@C13.offset.reversed_start
//@ - self is Absolute && val(self->Absolute_0) < 0real && val(start) > val(end) ==> val(r) == val(end) - val(self->Absolute_0)     @@C09.offset.reversed_end @@C13.offset.reversed_end
//@ - self is Ratio ==> val(r) == val(start) + (val(end) - val(start)) * val(self->Ratio_0)     @@C09.offset.ratio
//@end
}

impl DirSpec {
//@item src/position.rs :: impl DirSpec :: fn to_locspec
//@ ensures
//@ - self is InFront ==> r is Right     @@C09.dir.h
//@ - self is Behind ==> r is Left     @@C09.dir.H
//@ - self is Below ==> r is Bottom     @@C09.dir.v
//@ - self is Above ==> r is Top     @@C09.dir.V
//@end
}

impl LocSpec {
//@item src/position.rs :: impl LocSpec :: fn is_top
//@ ensures
//@ - r == (self is Top || self is TopLeft || self is TopRight || self is TopEdge)     @@C19.loc.is_top
//@end
//@item src/position.rs :: impl LocSpec :: fn is_right
//@ ensures
//@ - r == (self is Right || self is TopRight || self is BottomRight || self is RightEdge)     @@C19.loc.is_right
//@end
//@item src/position.rs :: impl LocSpec :: fn is_bottom
//@ ensures
//@ - r == (self is Bottom || self is BottomLeft || self is BottomRight || self is BottomEdge)     @@C19.loc.is_bottom
//@end
//@item src/position.rs :: impl LocSpec :: fn is_left
//@ ensures
//@ - r == (self is Left || self is TopLeft || self is BottomLeft || self is LeftEdge)     @@C19.loc.is_left
//@end
}

// ------------------------------------------------------------------------------ BoundingBox
impl BoundingBoxBuilder {
//@item src/position.rs :: impl BoundingBoxBuilder :: fn new
//@ ensures
//@ - r.bbox is None
//@end
//@item src/position.rs :: impl BoundingBoxBuilder :: fn build
//@ ensures
//@ - r == self.bbox
//@end
}

/// R-vec-iter: `v.into_iter()` followed by `.next()` calls yields the elements of the vector in order, then None
/// (std::vec::IntoIter); written out as a verified cursor so that the loop below is the real loop
pub struct VecCursor { pub items: Vec<BoundingBox>, pub pos: usize }
impl VecCursor {
    pub fn new(v: Vec<BoundingBox>) -> (r: VecCursor) ensures r.items@ == v@, r.pos == 0 { VecCursor { items: v, pos: 0 } }
    pub fn next(&mut self) -> (r: Option<BoundingBox>)
        requires old(self).pos <= old(self).items@.len()
        ensures final(self).items@ == old(self).items@,
            old(self).pos < old(self).items@.len() ==> r == Some(old(self).items@[old(self).pos as int]) && final(self).pos == old(self).pos + 1,
            old(self).pos >= old(self).items@.len() ==> r is None && final(self).pos == old(self).pos,
    {
        if self.pos < self.items.len() { let b = self.items[self.pos]; self.pos = self.pos + 1; Some(b) } else { None }
    }
}
impl BoundingBox {
//@item src/position.rs :: impl BoundingBox :: fn new
//@ ensures
//@ - r.x1 == x1 && r.y1 == y1 && r.x2 == x2 && r.y2 == y2
//@end

//@item src/position.rs :: impl BoundingBox :: fn locspec
//@ replace[R-use-enum] <<<use LocSpec::*;>>> => <<<>>>
//@ replace[R-use-enum] <<<            TopLeft => tl,\n            Top =>>>> => <<<            LocSpec::TopLeft => tl,\n            LocSpec::Top =>>>>
//@ replace[R-use-enum] <<<            TopRight => tr,\n            Right =>>>> => <<<            LocSpec::TopRight => tr,\n            LocSpec::Right =>>>>
//@ replace[R-use-enum] <<<            BottomRight => br,\n            Bottom =>>>> => <<<            LocSpec::BottomRight => br,\n            LocSpec::Bottom =>>>>
//@ replace[R-use-enum] <<<            BottomLeft => bl,\n            Left =>>>> => <<<            LocSpec::BottomLeft => bl,\n            LocSpec::Left =>>>>
//@ replace[R-use-enum] <<<            Center => c,\n            TopEdge(len) =>>>> => <<<            LocSpec::Center => c,\n            LocSpec::TopEdge(len) =>>>>
//@ replace[R-use-enum] <<<            RightEdge(len) =>>>> => <<<            LocSpec::RightEdge(len) =>>>>
//@ replace[R-use-enum] <<<            BottomEdge(len) =>>>> => <<<            LocSpec::BottomEdge(len) =>>>>
//@ replace[R-use-enum] <<<            LeftEdge(len) =>>>> => <<<            LocSpec::LeftEdge(len) =>>>>
//@ ensures
//@ - (val(r.0), val(r.1)) == loc_point(*self, ls)     @@C09.locspec.table
//@end

//@item src/position.rs :: impl BoundingBox :: fn scalarspec
//@ ensures
//@ - val(r) == scalar_of(*self, ss)     @@C09.scalar.table
//@ decreases
//@ - (if ss is Radius { 1int } else { 0int })
//@end

//@item src/position.rs :: impl BoundingBox :: fn combine
//@ ensures
//@ - encloses(r, *self) && encloses(r, *other)     @@C08.combine.encloses @@C12.combine.encloses
//@ - forall|b: BoundingBox| #[trigger] encloses(b, *self) && encloses(b, *other) ==> encloses(b, r)     @@C08.combine.least
//@end

//@item src/position.rs :: impl BoundingBox :: fn intersect
//@ ensures
//@ - r is Some ==> encloses(*self, r->Some_0) && encloses(*other, r->Some_0)     @@C12.intersect.inside
//@ - r is Some ==> val(r->Some_0.x1) <= val(r->Some_0.x2) && val(r->Some_0.y1) <= val(r->Some_0.y2)     @@C12.intersect.proper
//@ - r is Some ==> (forall|b: BoundingBox| #[trigger] encloses(*self, b) && encloses(*other, b) ==> encloses(r->Some_0, b))     @@C12.intersect.greatest @@C08.clip.intersect_greatest
//@ - r is None ==> !(exists|b: BoundingBox| #[trigger] encloses(*self, b) && encloses(*other, b) && val(b.x1) <= val(b.x2) && val(b.y1) <= val(b.y2))     @@C12.intersect.none @@C08.clip.intersect_none
//@end

//@item src/position.rs :: impl BoundingBox :: fn intersection
//@ replace[R-vec-iter] <<<bb_iter: impl IntoIterator<Item = Self>>>> => <<<bb_iter: Vec<Self>>>>
//@ replace[R-vec-iter] <<<let mut bb_iter = bb_iter.into_iter();>>> => <<<let ghost g_all = bb_iter@;\n        let mut bb_iter = VecCursor::new(bb_iter);>>>
//@ before? <<<                bb = bb?.intersect(&other);>>>
//@ | let ghost bb0 = bb; let ghost p0 = bb_iter.pos - 1;
//@ after? <<<                bb = bb?.intersect(&other);>>>
//@ | proof {
//@ |     if bb is Some {
//@ |         assert forall|b: BoundingBox| (forall|i: int| 0 <= i < bb_iter.pos ==> encloses(#[trigger] g_all[i], b)) implies encloses(bb->Some_0, b) by {
//@ |             assert(forall|i: int| 0 <= i < p0 ==> encloses(#[trigger] g_all[i], b));
//@ |             assert(encloses(bb0->Some_0, b));
//@ |             assert(encloses(g_all[p0 as int], b));
//@ |             assert(encloses(bb0->Some_0, b) && encloses(other, b));
//@ |         }
//@ |     }
//@ | }
//@ ensures
//@ - bb_iter@.len() == 0 ==> r is None     @@C12.intersection.of_nothing
//@ - r is Some ==> (forall|i: int| 0 <= i < bb_iter@.len() ==> encloses(#[trigger] bb_iter@[i], r->Some_0))     @@C12.intersection.within_every_box
//@ - r is Some ==> (forall|b: BoundingBox| (forall|i: int| 0 <= i < bb_iter@.len() ==> encloses(#[trigger] bb_iter@[i], b)) ==> encloses(r->Some_0, b))     @@C12.intersection.greatest
//@ - bb_iter@.len() == 1 ==> r == Some(bb_iter@[0])     @@C12.intersection.single
//@ loop 1
//@ invariant
//@ - bb_iter.items@ == g_all && bb_iter.pos <= g_all.len()
//@ - g_all.len() == 0 ==> bb is None
//@ - bb is Some ==> bb_iter.pos >= 1
//@ - g_all.len() >= 1 ==> bb_iter.pos >= 1
//@ - bb_iter.pos == 1 ==> bb == Some(g_all[0])
//@ - bb is Some ==> (forall|i: int| 0 <= i < bb_iter.pos ==> encloses(#[trigger] g_all[i], bb->Some_0))     @@C12.intersection.within_every_box
//@ - bb is Some ==> (forall|b: BoundingBox| (forall|i: int| 0 <= i < bb_iter.pos ==> encloses(#[trigger] g_all[i], b)) ==> encloses(bb->Some_0, b))     @@C12.intersection.greatest
//@ ensures
//@ - bb is Some ==> bb_iter.pos == g_all.len()
//@ decreases
//@ - g_all.len() - bb_iter.pos
//@end

//@item src/position.rs :: impl BoundingBox :: fn expand
//@ replace[R-retself] <<<) -> &Self {>>> => <<<) {>>>
//@ replace-re[R-retself] <<<;\n\s*self\n\s*\}\s*$>>> => <<<;\n    }>>>
//@ ensures
//@ - bx(*final(self)) == (val(old(self).x1) - val(exp_x), val(old(self).y1) - val(exp_y), val(old(self).x2) + val(exp_x), val(old(self).y2) + val(exp_y))     @@C08.expand
//@end

//@item src/position.rs :: impl BoundingBox :: fn expand_trbl_length
//@ replace[R-retself] <<<) -> &Self {>>> => <<<) {>>>
//@ replace-re[R-retself] <<<;\n\s*self\n\s*\}\s*$>>> => <<<;\n    }>>>
//@ ensures
//@ - ({ let base = rmax(val(old(self).x2) - val(old(self).x1), val(old(self).y2) - val(old(self).y1));
//@      bx(*final(self)) == (val(old(self).x1) - len_eval(trbl.left, base), val(old(self).y1) - len_eval(trbl.top, base),
//@                           val(old(self).x2) + len_eval(trbl.right, base), val(old(self).y2) + len_eval(trbl.bottom, base)) })     @@C12.expand.trbl
//@end

//@item src/position.rs :: impl BoundingBox :: fn shrink_trbl_length
//@ replace[R-retself] <<<) -> &Self {>>> => <<<) {>>>
//@ replace-re[R-retself] <<<;\n\s*self\n\s*\}\s*$>>> => <<<;\n    }>>>
//@ ensures
//@ - ({ let base = rmin(val(old(self).x2) - val(old(self).x1), val(old(self).y2) - val(old(self).y1));
//@      bx(*final(self)) == (val(old(self).x1) + len_eval(trbl.left, base), val(old(self).y1) + len_eval(trbl.top, base),
//@                           val(old(self).x2) - len_eval(trbl.right, base), val(old(self).y2) - len_eval(trbl.bottom, base)) })     @@C12.shrink.trbl
//@end

//@item src/position.rs :: impl BoundingBox :: fn translated
//@ ensures
//@ - bx(r) == (val(self.x1) + val(dx), val(self.y1) + val(dy), val(self.x2) + val(dx), val(self.y2) + val(dy))     @@C08.translated
//@end
//@item src/position.rs :: impl BoundingBox :: fn width
//@ ensures
//@ - val(r) == val(self.x2) - val(self.x1)
//@end
//@item src/position.rs :: impl BoundingBox :: fn height
//@ ensures
//@ - val(r) == val(self.y2) - val(self.y1)
//@end
//@item src/position.rs :: impl BoundingBox :: fn size
//@ ensures
//@ - val(r.0) == val(self.x2) - val(self.x1) && val(r.1) == val(self.y2) - val(self.y1)
//@end
//@item src/position.rs :: impl BoundingBox :: fn center
//@ ensures
//@ - val(r.0) == (val(self.x1) + val(self.x2)) / 2real && val(r.1) == (val(self.y1) + val(self.y2)) / 2real     @@C09.center
//@end

//@item src/position.rs :: impl BoundingBox :: fn round
//@ replace[R-retself] <<<) -> &Self {>>> => <<<) {>>>
//@ replace-re[R-retself] <<<;\n\s*self\n\s*\}\s*$>>> => <<<;\n    }>>>
//@ ensures
//@ - encloses(*final(self), *old(self))     @@C08.round.outward
//@ - is_integral(val(final(self).x1)) && is_integral(val(final(self).y1)) && is_integral(val(final(self).x2)) && is_integral(val(final(self).y2))     @@C08.round.integral
//@ - val(old(self).x1) - val(final(self).x1) < 1real && val(old(self).y1) - val(final(self).y1) < 1real
//@     && val(final(self).x2) - val(old(self).x2) < 1real && val(final(self).y2) - val(old(self).y2) < 1real     @@C08.round.tight
//@end
}

impl TrblLength {
//@item src/position.rs :: impl TrblLength :: fn new
//@ ensures
//@ - r.top == top && r.right == right && r.bottom == bottom && r.left == left
//@end
}

/// stands for the first statement of TrblLength::from_str (attr_split + strp_length + collect)
#[verifier::external_body]
pub fn split_lengths(value: &str) -> (r: Result<Vec<Length>>)
    ensures r is Ok ==> r->Ok_0@ == split_lengths_spec(value)
{ unimplemented!() }
pub uninterp spec fn split_lengths_spec(value: &str) -> Seq<Length>;

impl TrblLength {
//@item src/position.rs :: impl FromStr for TrblLength :: fn from_str
//@ replace[R-abstract] <<<let parts: Result<Vec<_>> = attr_split(value).map(|v| strp_length(&v)).collect();>>> => <<<let parts: Result<Vec<Length>> = split_lengths(value);>>>
//@ ensures
//@ - r is Ok ==> ({ let p = split_lengths_spec(value); let t = r->Ok_0;
//@      1 <= p.len() <= 4 && t.top == p[0]
//@      && t.right == (if p.len() >= 2 { p[1] } else { p[0] })
//@      && t.bottom == (if p.len() >= 3 { p[2] } else { p[0] })
//@      && t.left == (if p.len() == 4 { p[3] } else if p.len() >= 2 { p[1] } else { p[0] }) })     @@C12.trbl.order
//@end
}

} // verus!
fn main() {}
