//@unit xmlsink
//@props C02 C03 C05 C19 C01 C16
// U-xmlsink: the boundary with quick-xml (src/events.rs): conversion of input events to output
// events, the writer loop, attribute serialisation. The single consistent payload convention is
// checked: OutputEvent::Text holds CHARACTER DATA (it is escaped when written), attribute values
// held by SvgElement are unescaped and must be escaped when serialised, and no `expect("utf8")` may
// be reachable with a payload the reader did not validate.
//@assume the quick-xml interface model in vx/prelude/qxml.rs (escape/unescape round trip, raw vs escaping constructors, reader does not validate UTF-8)
//@assume write_to: R-writer (the quick_xml::Writer wrapper is dropped, the sink records what it is given), R-maperr (`.map_err(SvgdxError::from_err)?` is `?`), R-continue (`{ ..; continue; } else if c { A } B` is `{ .. } else { if c { A } B }`), R-string (String::new/push_str/clear/is_empty by their obvious specs); blank_line_remover is an uninterpreted function of its argument
//@assume R-iter-vec: `for (k, v) in &self.attrs` iterates the map's vector of pairs; R-abstract: joining the class list
use vstd::prelude::*;
//@prelude fmt_macro
verus! {
//@prelude std_specs qxml attrmap

pub enum SvgdxError { ParseError(String), Other }
pub type Result<T> = core::result::Result<T, SvgdxError>;
#[verifier::external_body] pub struct ClassList { _p: u8 }
#[verifier::external_body] pub struct OrderIndex { _p: u8 }
#[verifier::external_body] pub struct BoundingBox { _p: u8 }

//@item src/element.rs :: struct SvgElement
//@end
//@item src/events.rs :: struct InputEvent
//@ replace[R-opaque-type] <<<Event<'static>>>> => <<<Event>>>
//@end
//@item src/events.rs :: enum OutputEvent
//@ replace[R-opaque-type] <<<Event<'static>>>> => <<<Event>>>
//@end

/// payloads the reader hands out are raw bytes; nothing guarantees UTF-8 except what svgdx checks
pub open spec fn payload_utf8(ev: Event) -> bool {
    match ev {
        Event::Text(t) => is_utf8(t.raw()),
        Event::CData(t) => is_utf8(t.raw()),
        Event::Comment(t) => is_utf8(t.raw()),
        Event::End(e) => is_utf8(e.nm()),
        _ => true,
    }
}

#[verifier::external_body]
pub fn svg_element_try_from(e: &BytesStart) -> Result<SvgElement> { unimplemented!() }
#[verifier::external_body]
pub fn attr_pairs(m: &AttrMap) -> (r: Vec<(String, String)>)
    ensures forall|i: int| 0 <= i < r@.len() ==> m@.dom().contains((#[trigger] r@[i]).0@) && m@[r@[i].0@] == r@[i].1@
{ unimplemented!() }
impl ClassList {
    #[verifier::external_body] pub fn is_empty(&self) -> bool { unimplemented!() }
}
/// R-abstract: `self.classes.into_iter().collect::<Vec<String>>().join(" ")`
#[verifier::external_body]
pub fn class_string(c: ClassList) -> String { unimplemented!() }

impl InputEvent {
//@item src/events.rs :: impl InputEvent :: fn text_string
//@ implicit C01
//@ replace?[R-utf8] <<<String::from_utf8(t.to_vec())>>> => <<<string_from_utf8(t.to_vec())>>>
//@ ensures
//@ - self.event is Text && r is Some ==> xml_unescape(self.event->Text_0.raw()) == Some(r->Some_0@)     @@C19.content.decoded
//@ - self.event is Text ==> (r is Some) == (xml_unescape(self.event->Text_0.raw()) is Some)     @@C19.content.decoded_whenever_possible
//@end
}

impl InputEvent {
//@item src/events.rs :: impl InputEvent :: fn cdata_string
//@ implicit C01
//@ replace[R-utf8] <<<String::from_utf8(c.to_vec()).ok()>>> => <<<(match string_from_utf8(c.to_vec()) { Ok(s) => Some(s), Err(_) => None })>>>
//@ ensures
//@ - self.event is CData && r is Some ==> str_bytes(r->Some_0@) == self.event->CData_0.raw()     @@C19.cdata.verbatim
//@ - self.event is CData && is_utf8(self.event->CData_0.raw()) ==> r is Some
//@end
}

impl OutputEvent {
//@item src/events.rs :: impl From<InputEvent> for OutputEvent :: fn from
//@ implicit C01
//@ replace-all[R-tryfrom] <<<SvgElement::try_from(e)>>> => <<<svg_element_try_from(e)>>>
//@ replace-all[R-utf8] <<<String::from_utf8(>>> => <<<string_from_utf8(>>>
//@ replace?[R-closure-param] <<<Err(_) => OutputEvent::Other(Event::End(e)),>>> => <<<Err(_) => OutputEvent::Other(Event::End(e)),>>>
//@ ensures
//@ - value.event is Text && r is Text ==> xml_unescape(value.event->Text_0.raw()) == Some(r->Text_0@)     @@C03.text.decoded @@C05.text.decoded
//@ - value.event is Comment && r is Comment ==> str_bytes(r->Comment_0@) == value.event->Comment_0.raw()     @@C03.comment.verbatim @@C05.comment.verbatim
//@ - value.event is CData && r is CData ==> str_bytes(r->CData_0@) == value.event->CData_0.raw()     @@C03.cdata.verbatim @@C05.cdata.verbatim
//@ - value.event is Comment && is_utf8(value.event->Comment_0.raw()) ==> r is Comment     @@C02.comment.reaches_the_sink
//@ - value.event is CData && is_utf8(value.event->CData_0.raw()) ==> r is CData     @@C02.cdata.reaches_the_sink
//@ - value.event is Text && xml_unescape(value.event->Text_0.raw()) is Some ==> r is Text     @@C02.text.reaches_the_sink
//@end
}


// ------------------------------------------------------------------------------ serialisation
/// every serialised attribute value is well-formed XML and decodes to the element's value
pub open spec fn attrs_ok(bs: BytesStart, m: Map<Seq<char>, Seq<char>>) -> bool {
    forall|i: int| 0 <= i < bs.attrs().len() ==> attr_safe((#[trigger] bs.attrs()[i]).1)
}
impl SvgElement {
//@item src/events.rs :: impl SvgElement :: fn into_bytesstart
//@ replace[R-opaque-type] <<<BytesStart<'static>>>> => <<<BytesStart>>>
//@ replace[R-iter-vec] <<<for (k, v) in &self.attrs {>>> => <<<for (k, v) in attr_pairs(&self.attrs) {>>>
//@ cut[R-abstract] <<<            bs.push_attribute(Attribute::from((\n                "class">>> .. <<<            )));>>> => <<<            bs.push_attribute(Attribute::from(("class", class_string(self.classes).as_str())));>>>
//@ ensures
//@ - forall|i: int| 0 <= i < r.attrs().len() ==> attr_safe((#[trigger] r.attrs()[i]).1)     @@C02.attr.escaped @@C03.attr.value_preserved @@C05.attr.value_preserved
//@ loop 1
//@ iter it
//@ invariant
//@ - forall|i: int| 0 <= i < bs.attrs().len() ==> attr_safe((#[trigger] bs.attrs()[i]).1)     @@C02.attr.escaped.loop @@C03.attr.value_preserved.loop @@C05.attr.value_preserved.loop
//@end
}

/// XML 1.0 section 2.5: the text of a comment contains no "--" and does not end with '-'
pub open spec fn comment_ok(s: Seq<char>) -> bool {
    (forall|i: int| 0 <= i < s.len() - 1 ==> !(#[trigger] s[i] == '-' && s[i + 1] == '-'))
    && (s.len() > 0 ==> s.last() != '-')
}
/// the raw payload handed to the writer is the encoding of a valid comment text
pub open spec fn comment_payload_ok(b: Bytes) -> bool { exists|s: Seq<char>| #[trigger] str_bytes(s) == b && comment_ok(s) }
/// XML 1.0 section 2.7: a CDATA section's text does not contain "]]>"
pub open spec fn cdata_ok(s: Seq<char>) -> bool { !contains_seq(s, "]]>") }

//@item src/events.rs :: fn comment_text
//@ ensures
//@ - comment_ok(r@)     @@C02.comment.text_valid
//@ - comment_ok(c@) ==> r@ == c@     @@C03.comment.valid_text_unchanged @@C05.comment.valid_text_unchanged
//@ loop? 1
//@ iter it
//@ invariant
//@ - comment_ok(if prev_hyphen { out@.push(' ') } else { out@ })
//@ - prev_hyphen == (out@.len() > 0 && out@.last() == '-')
//@ - comment_ok(c@) ==> out@ == c@.take(it.index@)
//@end

/// what the writer receives for one OutputEvent
impl Event {
//@item src/events.rs :: impl<'a> From<OutputEvent> for Event<'a> :: fn from
//@ replace[R-opaque-type] <<<-> Event<'a> {>>> => <<<-> Event {>>>
//@ ensures
//@ - svg_ev is Comment ==> r is Comment && comment_payload_ok(r->Comment_0.raw())     @@C02.comment.delimited
//@ - svg_ev is Comment && comment_ok(svg_ev->Comment_0@) ==> r is Comment && r->Comment_0.raw() == str_bytes(svg_ev->Comment_0@)     @@C03.comment.written_verbatim @@C05.comment.written_verbatim
//@ - svg_ev is CData ==> (r is CData && r->CData_0.raw() == str_bytes(svg_ev->CData_0@) && cdata_ok(svg_ev->CData_0@))
//@       || (r is Text && r->Text_0.raw() == xml_escape(svg_ev->CData_0@))     @@C02.cdata.delimited
//@ - svg_ev is CData && cdata_ok(svg_ev->CData_0@) ==> r is CData && r->CData_0.raw() == str_bytes(svg_ev->CData_0@)     @@C03.cdata.written_verbatim @@C05.cdata.written_verbatim
//@ - svg_ev is Start ==> r is Start && (forall|i: int| 0 <= i < r->Start_0.attrs().len() ==> attr_safe((#[trigger] r->Start_0.attrs()[i]).1))     @@C02.attr.escaped.start
//@ - svg_ev is Empty ==> r is Empty && (forall|i: int| 0 <= i < r->Empty_0.attrs().len() ==> attr_safe((#[trigger] r->Empty_0.attrs()[i]).1))     @@C02.attr.escaped.empty
//@end
}

// ------------------------------------------------------------------------------ the writer loop
impl Clone for OutputEvent { #[verifier::external_body] fn clone(&self) -> (r: Self) ensures r == *self { unimplemented!() } }
//@item src/events.rs :: struct OutputList
//@end
/// what reaches the XML writer, in order: a text event is observed by its RAW payload (the bytes
/// that will be written), any other output event as itself (its conversion is From<OutputEvent> for Event)
pub enum Written { Text(Bytes), Out(OutputEvent), Other(Event) }
pub trait IntoWritten: Sized { spec fn written(self) -> Written; }
impl IntoWritten for Event {
    open spec fn written(self) -> Written { match self { Event::Text(t) => Written::Text(t.raw()), e => Written::Other(e) } }
}
impl IntoWritten for OutputEvent { open spec fn written(self) -> Written { Written::Out(self) } }
/// R-writer: stands for `quick_xml::Writer<&mut dyn Write>`
#[verifier::external_body] pub struct Sink { _p: u8 }
impl Sink {
    pub uninterp spec fn log(&self) -> Seq<Written>;
    #[verifier::external_body]
    pub fn write_event<E: IntoWritten>(&mut self, e: E) -> (r: Result<()>) ensures final(self).log() == old(self).log().push(e.written()) { unimplemented!() }
}
pub uninterp spec fn blr(s: Seq<char>) -> Seq<char>;      // OutputList::blank_line_remover (string code, not under contract)
#[verifier::external_body] pub fn string_new() -> (r: String) ensures r@.len() == 0 { unimplemented!() }
#[verifier::external_body] pub fn string_push_str(s: &mut String, t: &String) ensures final(s)@ == old(s)@ + t@ { unimplemented!() }
#[verifier::external_body] pub fn string_clear(s: &mut String) ensures final(s)@.len() == 0 { unimplemented!() }
#[verifier::external_body] pub fn string_is_empty(s: &String) -> (r: bool) ensures r == (s@.len() == 0) { unimplemented!() }

/// the text buffered after the first n events: consecutive Text payloads are coalesced
pub open spec fn buf_after(evs: Seq<OutputEvent>, n: int) -> Seq<char> decreases n {
    if n <= 0 { Seq::<char>::empty() } else { match evs[n - 1] { OutputEvent::Text(c) => buf_after(evs, n - 1) + c@, _ => Seq::<char>::empty() } }
}
/// a pending text run is written ESCAPED, once, after trailing blanks of its lines are removed
pub open spec fn flush(buf: Seq<char>) -> Seq<Written> {
    if buf.len() == 0 { Seq::<Written>::empty() } else { seq![Written::Text(xml_escape(blr(buf)))] }
}
pub open spec fn log_after(evs: Seq<OutputEvent>, n: int) -> Seq<Written> decreases n {
    if n <= 0 { Seq::<Written>::empty() } else { match evs[n - 1] {
        OutputEvent::Text(_) => log_after(evs, n - 1),
        e => log_after(evs, n - 1) + flush(buf_after(evs, n - 1)) + seq![Written::Out(e)] } }
}
// ------------------------------------------------------------------------------ text after an element
/// formatting whitespace only (what str::trim removes entirely)
pub open spec fn blank(s: Seq<char>) -> bool { str_trim(s).len() == 0 }
//@item src/transform.rs :: fn push_tail
//@ replace[R-inline] <<<!events.is_empty()>>> => <<<!(events.events.len() == 0)>>>
//@ replace[R-into] <<<events.push(OutputEvent::Text(tail.to_owned()));>>> => <<<events.events.push(OutputEvent::Text(tail.clone()));>>>
//@ ensures
//@ - tail is Some && !blank(tail->Some_0@) ==> final(events).events@ == old(events).events@.push(OutputEvent::Text(tail->Some_0))     @@C16.tail.text_after_element_kept @@C19.tail.text_after_element_kept @@C03.tail.text_after_element_kept
//@ - tail is Some && old(events).events@.len() > 0 ==> final(events).events@ == old(events).events@.push(OutputEvent::Text(tail->Some_0))     @@C16.tail.kept_after_output
//@ - tail is None || (blank(tail->Some_0@) && old(events).events@.len() == 0) ==> final(events).events@ == old(events).events@     @@C16.tail.only_formatting_dropped
//@end

impl OutputList {
    #[verifier::external_body]
    pub fn blank_line_remover(s: &str) -> (r: String) ensures r@ == blr(s@) { unimplemented!() }
//@rewrite continue
//@item src/events.rs :: impl OutputList :: fn write_to
//@ replace[R-writer] <<<writer: &mut dyn Write>>> => <<<writer: &mut Sink>>>
//@ replace[R-writer] <<<        let mut writer = Writer::new(writer);\n>>> => <<<>>>
//@ replace-all[R-maperr] <<<.map_err(SvgdxError::from_err)?>>> => <<<?>>>
//@ replace[R-string] <<<let mut text_buf = String::new();>>> => <<<let mut text_buf = string_new();>>>
//@ replace[R-string] <<<text_buf.push_str(content);>>> => <<<string_push_str(&mut text_buf, content);>>>
//@ replace[R-string] <<<text_buf.clear();>>> => <<<string_clear(&mut text_buf);>>>
//@ replace-all[R-string] <<<!text_buf.is_empty()>>> => <<<!string_is_empty(&text_buf)>>>
//@ after?#1 <<<let content = Self::blank_line_remover(&text_buf);>>>
//@ | assert(content@ == text_buf@); // the character data written is the character data of the events @C03.text.whole
//@ after?#2 <<<let content = Self::blank_line_remover(&text_buf);>>>
//@ | assert(content@ == text_buf@); // (trailing text) @C03.text.whole.trailing
//@ ensures
//@ - r is Ok ==> final(writer).log() == old(writer).log() + log_after(self.events@, self.events@.len() as int) + flush(buf_after(self.events@, self.events@.len() as int))     @@C02.text.escaped_once @@C03.write.in_order @@C05.write.in_order
//@ loop 1
//@ iter it
//@ invariant
//@ - self.events@ == (it.history@ + vstd::std_specs::iter::IteratorSpec::remaining(&it.iter)).map(|i: int, e: &OutputEvent| *e)
//@ - it.index@ == it.history@.len()
//@ - text_buf@ == buf_after(self.events@, it.index@)
//@ - writer.log() == old(writer).log() + log_after(self.events@, it.index@)     @@C02.text.escaped_once.loop
//@end
}

} // verus!
fn main() {}
