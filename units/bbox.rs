//@unit bbox
//@props C08 C10
// U-bbox: the bounding box of one element from its own attributes (SvgElement::bbox / bbox_raw in
// src/element.rs, TransformAttr::apply and xfrm_* in src/transform_attr.rs), real-number model.
//@assume strp is a deterministic partial function of the string (strp_spec); AttrMap contracts as in the attrmap prelude
//@assume the polyline/polygon arm (split_whitespace / split iterator chain) and path_bbox are abstracted (path scanner totality is U-path)
use vstd::prelude::*;
//@prelude fmt_macro
verus! {
//@prelude std_specs r32 attrmap pending

pub enum SvgdxError { ParseError(String), Other }
pub type Result<T> = core::result::Result<T, SvgdxError>;
#[verifier::external_body] pub struct ClassList { _p: u8 }
#[verifier::external_body] pub struct OrderIndex { _p: u8 }

//@rewrite f32 strlit strmatch
//@item src/position.rs :: struct BoundingBox
//@ keep-derive Clone Copy
//@end
//@item src/element.rs :: struct SvgElement
//@end
//@item src/transform_attr.rs :: enum TransformType
//@end
//@item src/transform_attr.rs :: struct TransformAttr
//@end
//@item src/constants.rs :: const VAR_PREFIX
//@end
//@item src/constants.rs :: const ELREF_ID_PREFIX
//@end
//@item src/constants.rs :: const ELREF_PREVIOUS
//@end

pub uninterp spec fn strp_spec(s: Seq<char>) -> Option<real>;
pub uninterp spec fn has_ref_char(s: Seq<char>) -> bool;   // contains '$', '#' or '^'
#[verifier::external_body]
pub fn strp(s: &str) -> (r: Result<R32>)
    ensures (match strp_spec(s@) { Some(x) => r is Ok && val(r->Ok_0) == x, None => r is Err })
{ unimplemented!() }
#[verifier::external_body]
pub fn str_has_ref_char(s: &str) -> (r: bool) ensures r == has_ref_char(s@) { unimplemented!() }
#[verifier::external_body]
pub fn polyline_bbox(e: &SvgElement) -> Result<Option<BoundingBox>> { unimplemented!() }
#[verifier::external_body]
pub fn path_bbox(e: &SvgElement) -> Result<Option<BoundingBox>> { unimplemented!() }
#[verifier::external_body]
pub fn parse_transform(s: &String) -> Result<TransformAttr> { unimplemented!() }

pub open spec fn bx(b: BoundingBox) -> (real, real, real, real) { (val(b.x1), val(b.y1), val(b.x2), val(b.y2)) }

impl BoundingBox {
//@item src/position.rs :: impl BoundingBox :: fn new
//@ ensures
//@ - r.x1 == x1 && r.y1 == y1 && r.x2 == x2 && r.y2 == y2
//@end
//@item src/transform_attr.rs :: impl BoundingBox :: fn xfrm_scale
//@ ensures
//@ - bx(r) == (rmin(val(self.x1) * val(sx), val(self.x2) * val(sx)), rmin(val(self.y1) * val(sy), val(self.y2) * val(sy)),
//@             rmax(val(self.x1) * val(sx), val(self.x2) * val(sx)), rmax(val(self.y1) * val(sy), val(self.y2) * val(sy)))     @@C08.transform.scale
//@end
//@item src/transform_attr.rs :: impl BoundingBox :: fn xfrm_translate
//@ ensures
//@ - bx(r) == (val(self.x1) + val(dx), val(self.y1) + val(dy), val(self.x2) + val(dx), val(self.y2) + val(dy))     @@C08.transform.translate
//@end
}

// ------------------------------------------------------------------------------ transforms
pub open spec fn xf_one(t: TransformType, b: (real, real, real, real)) -> (real, real, real, real) {
    match t {
        TransformType::Translate(tx, ty) => (b.0 + val(tx), b.1 + val(ty), b.2 + val(tx), b.3 + val(ty)),
        // the bounding box of the scaled box: a negative factor mirrors it, the result is still left <= right, top <= bottom
        TransformType::Scale(sx, sy) => (rmin(b.0 * val(sx), b.2 * val(sx)), rmin(b.1 * val(sy), b.3 * val(sy)), rmax(b.0 * val(sx), b.2 * val(sx)), rmax(b.1 * val(sy), b.3 * val(sy))),
        _ => b,
    }
}
/// SVG applies a transform list right to left: the last entry acts on the shape first
pub open spec fn xf_from(ts: Seq<TransformType>, k: int, b: (real, real, real, real)) -> (real, real, real, real)
    decreases ts.len() - k
{
    if k >= ts.len() || k < 0 { b } else { xf_one(ts[k], xf_from(ts, k + 1, b)) }
}

impl TransformAttr {
//@item src/transform_attr.rs :: impl TransformAttr :: fn apply
//@ ensures
//@ - bx(r) == xf_from(self.transforms@, 0, bx(*bbox))     @@C08.transform.order
//@ loop 1
//@ iter it
//@ invariant
//@ - (it.history@ + vstd::std_specs::iter::IteratorSpec::remaining(&it.iter)).map(|i: int, e: &TransformType| *e) == self.transforms@.reverse()
//@ - it.index@ == it.history@.len()
//@ - it.index@ <= self.transforms@.len()
//@ - bx(result) == xf_from(self.transforms@, self.transforms@.len() - it.index@, bx(*bbox))     @@C08.transform.order.loop
//@end
}


// ------------------------------------------------------------------------------ bbox_raw / bbox
pub type M = Map<Seq<char>, Seq<char>>;
/// numeric value of attribute k, "0" when absent (SVG: an unspecified x/y/cx/.. is 0)
pub open spec fn num0(m: M, k: Seq<char>) -> Option<real> { if m.dom().contains(k) { strp_spec(m[k]) } else { strp_spec("0"@) } }
pub open spec fn numk(m: M, k: Seq<char>) -> Option<real> { if m.dom().contains(k) { strp_spec(m[k]) } else { None } }
pub open spec fn is_rectlike(n: Seq<char>) -> bool { n == "box"@ || n == "rect"@ || n == "image"@ || n == "svg"@ || n == "foreignObject"@ }
pub open spec fn has_table_entry(n: Seq<char>) -> bool {
    n == "point"@ || n == "text"@ || is_rectlike(n) || n == "line"@ || n == "polyline"@ || n == "polygon"@ || n == "path"@ || n == "circle"@ || n == "ellipse"@
}

/// one of the first n names is an attribute of the element
pub open spec fn has_any(m: Map<Seq<char>, Seq<char>>, ks: Seq<&str>, n: int) -> bool decreases n {
    if n <= 0 { false } else { has_any(m, ks, n - 1) || m.dom().contains(ks[n - 1]@) }
}
/// R-any: `names.iter().any(|a| self.has_attr(a))`
#[verifier::external_body]
pub fn any_attr(e: &SvgElement, names: &[&str]) -> (r: bool) ensures r == has_any(e.attrs@, names@, names@.len() as int) { unimplemented!() }
impl SvgElement {
    #[verifier::external_body]
    pub fn get_attr(&self, key: &str) -> (r: Option<String>) ensures opt_sv(r) == map_get(self.attrs@, key@) { unimplemented!() }

//@item src/element.rs :: impl SvgElement :: fn has_attr
//@ ensures
//@ - r == self.attrs@.dom().contains(key@)
//@end
//@item src/element.rs :: impl SvgElement :: fn has_foreign_position
//@ strlit "rect" "box" "point" "text" "use" "reuse" "image" "svg" "foreignObject" "circle" "ellipse" "line" "polyline" "polygon" "path" "cx" "cy" "x1" "y1" "x2" "y2" "x" "y" "width" "height"
//@ replace[R-any] <<<foreign.iter().any(|a| self.has_attr(a))>>> => <<<any_attr(self, foreign)>>>
//@ body-start
//@ | proof { reveal_with_fuel(has_any, 10); }
//@ ensures
//@ - r == foreign_pos(self.name@, self.attrs@)     @@C10.pending.foreign_spec
//@end
//@item src/element.rs :: impl SvgElement :: fn is_connector
//@ strlit "start" "end" "line" "polyline"
//@ ensures
//@ - r == connector_pending(self.name@, self.attrs@)     @@C10.pending.connector_spec
//@end
//@item src/element.rs :: impl SvgElement :: fn has_pending_offset
//@ strlit "text" "tspan" "feOffset" "dx" "dy"
//@ replace[R-matches] <<<!matches!(self.name.as_str(), "text" | "tspan" | "feOffset")>>> => <<<!(self.name.as_str() == "text" || self.name.as_str() == "tspan" || self.name.as_str() == "feOffset")>>>
//@ ensures
//@ - r == offset_pending(self.name@, self.attrs@)     @@C10.pending.offset_spec
//@end
//@item src/element.rs :: impl SvgElement :: fn has_pending_geometry
//@ ensures
//@ - r == unresolved(self.name@, self.attrs@)     @@C10.pending.spec @@C09.pending.spec
//@end

//@item src/element.rs :: impl SvgElement :: fn bbox_raw
//@ replace[R-contract] <<<fn passthrough(value: &str) -> bool {>>> => <<<fn passthrough(value: &str) -> (r: bool) ensures r == (strp_spec(value@) is None && !has_ref_char(value@)) {>>>
//@ strlit "xy" "cxy" "xy1" "xy2" "xy-loc" "dxy" "wh" "dwh" "dw" "dh" "surround" "inside"
//@ replace[R-abstract] <<<            strp(value).is_err()\n                && !(value.contains(VAR_PREFIX)\n                    || value.contains(ELREF_ID_PREFIX)\n                    || value.contains(ELREF_PREVIOUS))>>> => <<<            strp(value).is_err() && !str_has_ref_char(value)>>>
//@ cut[R-abstract] <<<                let mut min_x = f32::MAX;>>> .. <<<                } else {\n                    None\n                }\n            }\n            "path">>> => <<<                return polyline_bbox(self);\n            }\n            "path">>>
//@ ensures
//@ - !unresolved(self.name@, self.attrs@) && is_rectlike(self.name@) && numk(self.attrs@, "width"@) is Some && numk(self.attrs@, "height"@) is Some
//@     && num0(self.attrs@, "x"@) is Some && num0(self.attrs@, "y"@) is Some ==> r is Ok && r->Ok_0 is Some && ({
//@       let x = num0(self.attrs@, "x"@)->Some_0; let y = num0(self.attrs@, "y"@)->Some_0;
//@       bx(r->Ok_0->Some_0) == (x, y, x + numk(self.attrs@, "width"@)->Some_0, y + numk(self.attrs@, "height"@)->Some_0) })     @@C08.bbox.table.rect
//@ - !unresolved(self.name@, self.attrs@) && self.name@ == "circle"@ && numk(self.attrs@, "r"@) is Some && num0(self.attrs@, "cx"@) is Some && num0(self.attrs@, "cy"@) is Some ==> r is Ok && r->Ok_0 is Some && ({
//@       let cx = num0(self.attrs@, "cx"@)->Some_0; let cy = num0(self.attrs@, "cy"@)->Some_0; let rr = numk(self.attrs@, "r"@)->Some_0;
//@       bx(r->Ok_0->Some_0) == (cx - rr, cy - rr, cx + rr, cy + rr) })     @@C08.bbox.table.circle
//@ - !unresolved(self.name@, self.attrs@) && self.name@ == "ellipse"@ && numk(self.attrs@, "rx"@) is Some && numk(self.attrs@, "ry"@) is Some && num0(self.attrs@, "cx"@) is Some && num0(self.attrs@, "cy"@) is Some ==> r is Ok && r->Ok_0 is Some && ({
//@       let cx = num0(self.attrs@, "cx"@)->Some_0; let cy = num0(self.attrs@, "cy"@)->Some_0;
//@       bx(r->Ok_0->Some_0) == (cx - numk(self.attrs@, "rx"@)->Some_0, cy - numk(self.attrs@, "ry"@)->Some_0, cx + numk(self.attrs@, "rx"@)->Some_0, cy + numk(self.attrs@, "ry"@)->Some_0) })     @@C08.bbox.table.ellipse
//@ - !unresolved(self.name@, self.attrs@) && self.name@ == "line"@ && num0(self.attrs@, "x1"@) is Some && num0(self.attrs@, "y1"@) is Some && num0(self.attrs@, "x2"@) is Some && num0(self.attrs@, "y2"@) is Some ==> r is Ok && r->Ok_0 is Some && ({
//@       let x1 = num0(self.attrs@, "x1"@)->Some_0; let y1 = num0(self.attrs@, "y1"@)->Some_0; let x2 = num0(self.attrs@, "x2"@)->Some_0; let y2 = num0(self.attrs@, "y2"@)->Some_0;
//@       bx(r->Ok_0->Some_0) == (rmin(x1, x2), rmin(y1, y2), rmax(x1, x2), rmax(y1, y2)) })     @@C08.bbox.table.line
//@ - !unresolved(self.name@, self.attrs@) && (self.name@ == "point"@ || self.name@ == "text"@) && num0(self.attrs@, "x"@) is Some && num0(self.attrs@, "y"@) is Some ==> r is Ok && r->Ok_0 is Some && ({
//@       let x = num0(self.attrs@, "x"@)->Some_0; let y = num0(self.attrs@, "y"@)->Some_0;
//@       bx(r->Ok_0->Some_0) == (x, y, x, y) })     @@C08.bbox.table.point
//@ - !has_table_entry(self.name@) ==> r is Ok && r->Ok_0 is None     @@C08.bbox.table.other
//@ - is_rectlike(self.name@) && r is Ok && r->Ok_0 is Some ==> !unresolved(self.name@, self.attrs@)     @@C10.bbox.only_resolved.rect
//@ - self.name@ == "circle"@ && r is Ok && r->Ok_0 is Some ==> !unresolved(self.name@, self.attrs@)     @@C10.bbox.only_resolved.circle
//@ - self.name@ == "ellipse"@ && r is Ok && r->Ok_0 is Some ==> !unresolved(self.name@, self.attrs@)     @@C10.bbox.only_resolved.ellipse
//@ - self.name@ == "line"@ && r is Ok && r->Ok_0 is Some ==> !unresolved(self.name@, self.attrs@)     @@C10.bbox.only_resolved.line
//@ - (self.name@ == "point"@ || self.name@ == "text"@) && r is Ok && r->Ok_0 is Some ==> !unresolved(self.name@, self.attrs@)     @@C10.bbox.only_resolved.point
//@end

//@item src/element.rs :: impl SvgElement :: fn bbox
//@ replace[R-parse] <<<let transform: TransformAttr = transform.parse()?;>>> => <<<let transform: TransformAttr = parse_transform(&transform)?;>>>
//@ ensures
//@ - self.content_bbox is Some && !self.attrs@.dom().contains("transform"@) ==> r is Ok && r->Ok_0 == self.content_bbox     @@C08.bbox.group_content
//@end
}
} // verus!
fn main() {}
