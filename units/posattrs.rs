//@unit posattrs
//@props C11 C18
// U-posattrs: writing the resolved box back as the element's NATIVE geometry attributes
// (Position::set_position_attrs / position_via_transform, src/position.rs): only native
// attributes remain, and their values are the box's corner / centre / size plus dx,dy.
//@assume Position::to_bbox is a deterministic function (its contract is proved in U-geom); fstr/strp uninterpreted; the `"g"` arm (format! + iterator chain building the transform string) is abstracted
use vstd::prelude::*;
//@prelude fmt_macro
verus! {
//@prelude std_specs r32 attrmap

pub enum SvgdxError { ParseError(String), Other }
pub type Result<T> = core::result::Result<T, SvgdxError>;
#[verifier::external_body] pub struct ClassList { _p: u8 }
#[verifier::external_body] pub struct OrderIndex { _p: u8 }

//@rewrite f32 strlit strmatch
//@item src/position.rs :: struct BoundingBox
//@ keep-derive Clone Copy
//@end
//@item src/position.rs :: struct Position
//@end
//@item src/element.rs :: struct SvgElement
//@end
pub enum LocSpec { TopLeft, BottomRight, Other }

pub type M = Map<Seq<char>, Seq<char>>;
pub uninterp spec fn fstr_spec(x: real) -> Seq<char>;
pub uninterp spec fn strp_spec(s: Seq<char>) -> Option<real>;
pub uninterp spec fn to_bbox_spec(p: Position) -> Option<BoundingBox>;
pub open spec fn written(m: M, k: Seq<char>, x: real) -> bool { m.dom().contains(k) && m[k] == fstr_spec(x) }
pub open spec fn or0(o: Option<R32>) -> real { match o { Some(x) => val(x), None => 0real } }
#[verifier::external_body]
pub fn fstr(x: R32) -> (r: String) ensures r@ == fstr_spec(val(x)) { unimplemented!() }
#[verifier::external_body]
pub fn strp(s: &str) -> (r: Result<R32>) ensures (match strp_spec(s@) { Some(x) => r is Ok && val(r->Ok_0) == x, None => r is Err }) { unimplemented!() }

impl BoundingBox {
    #[verifier::external_body] pub fn width(&self) -> (r: R32) ensures val(r) == val(self.x2) - val(self.x1) { unimplemented!() }
    #[verifier::external_body] pub fn height(&self) -> (r: R32) ensures val(r) == val(self.y2) - val(self.y1) { unimplemented!() }
    #[verifier::external_body] pub fn center(&self) -> (r: (R32, R32)) ensures val(r.0) == (val(self.x1) + val(self.x2)) / 2real && val(r.1) == (val(self.y1) + val(self.y2)) / 2real { unimplemented!() }
    /// proved in U-geom (C08.translate)
    #[verifier::external_body] pub fn translated(&self, dx: R32, dy: R32) -> (r: BoundingBox)
        ensures val(r.x1) == val(self.x1) + val(dx) && val(r.x2) == val(self.x2) + val(dx) && val(r.y1) == val(self.y1) + val(dy) && val(r.y2) == val(self.y2) + val(dy) { unimplemented!() }
    #[verifier::external_body] pub fn locspec(&self, ls: LocSpec) -> (r: (R32, R32))
        ensures ls is TopLeft ==> r.0 == self.x1 && r.1 == self.y1, ls is BottomRight ==> r.0 == self.x2 && r.1 == self.y2 { unimplemented!() }
}
impl SvgElement {
//@item src/element.rs :: impl SvgElement :: fn get_attr
//@ replace[R-optmap] <<<self.attrs.get(key).map(|x| x.to_owned())>>> => <<<match self.attrs.get(key) { Some(x) => Some(x.clone()), None => None }>>>
//@ ensures
//@ - opt_sv(r) == map_get(self.attrs@, key@)
//@end
//@item src/element.rs :: impl SvgElement :: fn set_attr
//@ ensures
//@ - final(self).attrs@ == old(self).attrs@.insert(key@, value@) && final(self).name == old(self).name
//@end
//@item src/element.rs :: impl SvgElement :: fn pop_attr
//@ ensures
//@ - opt_sv(r) == map_get(old(self).attrs@, key@)
//@ - final(self).attrs@ == old(self).attrs@.remove(key@) && final(self).name == old(self).name
//@end
//@item src/position.rs :: impl SvgElement :: fn remove_attrs
//@ ensures
//@ - final(self).name == old(self).name
//@ - final(self).attrs@ == remove_seq(old(self).attrs@, keys@, keys@.len() as int)     @@C11.remove_attrs
//@ loop 1
//@ iter it
//@ invariant
//@ - self.name == old(self).name
//@ - keys@ == (it.history@ + vstd::std_specs::iter::IteratorSpec::remaining(&it.iter)).map(|i: int, e: &&str| *e)
//@ - it.index@ == it.history@.len()
//@ - self.attrs@ == remove_seq(old(self).attrs@, keys@, it.index@)
//@end
}
/// m with the first n keys of ks removed (unfolds over literal key lists)
pub open spec fn remove_seq(m: M, ks: Seq<&str>, n: int) -> M decreases n {
    if n <= 0 { m } else { remove_seq(m, ks, n - 1).remove(ks[n - 1]@) }
}
/// `format!("translate({x1}, {y1})")`
pub uninterp spec fn translate_str(x: real, y: real) -> Seq<char>;
#[verifier::external_body]
pub fn translate_fmt(x1: R32, y1: R32) -> (r: String) ensures r@ == translate_str(val(x1), val(y1)) { unimplemented!() }
/// `[a, b].into_iter().flatten().collect()`: the present values, in the order written
#[verifier::external_body]
pub fn flatten2(a: Option<String>, b: Option<String>) -> (r: Vec<String>)
    ensures
        a is Some && b is Some ==> r@.len() == 2 && r@[0]@ == a->Some_0@ && r@[1]@ == b->Some_0@,
        a is Some && b is None ==> r@.len() == 1 && r@[0]@ == a->Some_0@,
        a is None && b is Some ==> r@.len() == 1 && r@[0]@ == b->Some_0@,
        a is None && b is None ==> r@.len() == 0,
{ unimplemented!() }
/// itertools `iter().join(" ")` for one or two items
#[verifier::external_body]
pub fn join_space(v: &Vec<String>) -> (r: String)
    ensures v@.len() == 1 ==> r@ == v@[0]@, v@.len() == 2 ==> r@ == v@[0]@ + " "@ + v@[1]@
{ unimplemented!() }
/// `format!("{} {}", a, b)`
#[verifier::external_body]
pub fn join2(a: &String, b: &String) -> (r: String) ensures r@ == a@ + " "@ + b@ { unimplemented!() }
/// R-abstract: body of position_via_transform after the offsets are known
#[verifier::external_body]
pub fn write_translate(element: &mut SvgElement, x: R32, y: R32) ensures final(element).name == old(element).name { unimplemented!() }

// ------------------------------------------------------------------------------ attribute harvesting (From<&SvgElement> for Position)
pub open spec fn num(m: M, k: Seq<char>) -> Option<real> { if m.dom().contains(k) { strp_spec(m[k]) } else { None } }
pub open spec fn num_or(m: M, k1: Seq<char>, k2: Seq<char>) -> Option<real> { if m.dom().contains(k1) { strp_spec(m[k1]) } else { num(m, k2) } }
pub open spec fn oval(o: Option<R32>) -> Option<real> { match o { Some(x) => Some(val(x)), None => None } }
pub open spec fn twice(o: Option<real>) -> Option<real> { match o { Some(x) => Some(x * 2real), None => None } }
/// R-optmap: `o.map(|v| strp(v.as_ref()))`
#[verifier::external_body]
pub fn opt_strp(o: Option<String>) -> (r: Option<Result<R32>>)
    ensures (o is None) == (r is None), o is Some ==> (match strp_spec(o->Some_0@) { Some(x) => r->Some_0 is Ok && val(r->Some_0->Ok_0) == x, None => r->Some_0 is Err })
{ unimplemented!() }
/// R-optmap: `o.and_then(|v| strp(v.as_ref()).ok())`
#[verifier::external_body]
pub fn opt_strp_ok(o: Option<String>) -> (r: Option<R32>)
    ensures oval(r) == (match o { Some(s) => strp_spec(s@), None => None })
{ unimplemented!() }
/// `a.or(b)` on attribute lookups
#[verifier::external_body]
pub fn opt_or(a: Option<String>, b: Option<String>) -> (r: Option<String>) ensures r == (if a is Some { a } else { b }) { unimplemented!() }
impl Position {
    /// `Self { shape: shape.into(), ..Default::default() }`
    #[verifier::external_body]
    pub fn new(shape: &String) -> (r: Position)
        ensures r.shape@ == shape@, r.xmin is None, r.ymin is None, r.xmax is None, r.ymax is None, r.cx is None, r.cy is None,
            r.width is None, r.height is None, r.dx is None, r.dy is None
    { unimplemented!() }
//@item src/position.rs :: impl From<&SvgElement> for Position :: fn from
//@ strlit "circle" "ellipse" "use" "reuse"
//@ replace-re[R-optmap] <<<(\w+)\.map\(\|\w+\| strp\(\w+\.as_ref\(\)\)\)>>> => <<<opt_strp(\1)>>>
//@ replace-re[R-optmap] <<<value\.get_attr\("(\w+)"\)\.and_then\(\|\w+\| strp\(\w+\.as_ref\(\)\)\.ok\(\)\)>>> => <<<opt_strp_ok(value.get_attr("\1"))>>>
//@ replace-re[R-optor] <<<value\.get_attr\("(\w+)"\)\.or\(value\.get_attr\("(\w+)"\)\)>>> => <<<opt_or(value.get_attr("\1"), value.get_attr("\2"))>>>
//@ replace?[R-strmatch] <<<if let "circle" | "ellipse" = value.name.as_str() {>>> => <<<if value.name.as_str() == "circle" || value.name.as_str() == "ellipse" {>>>
//@ ensures
//@ - oval(r.dx) == num(value.attrs@, "dx"@) && oval(r.dy) == num(value.attrs@, "dy"@)     @@C11.harvest.offsets
//@ - oval(r.xmin) == num_or(value.attrs@, "x1"@, "x"@) && oval(r.ymin) == num_or(value.attrs@, "y1"@, "y"@)     @@C11.harvest.start
//@ - oval(r.xmax) == num(value.attrs@, "x2"@) && oval(r.ymax) == num(value.attrs@, "y2"@)     @@C11.harvest.end
//@ - oval(r.cx) == num(value.attrs@, "cx"@) && oval(r.cy) == num(value.attrs@, "cy"@)     @@C11.harvest.centre
//@ - ({ let m = value.attrs@; let n = value.name@;
//@      let plain_w = if n == "use"@ || n == "reuse"@ { None } else { num(m, "width"@) };
//@      let plain_h = if n == "use"@ || n == "reuse"@ { None } else { num(m, "height"@) };
//@      let round = n == "circle"@ || n == "ellipse"@;
//@      oval(r.width) == (if round && num_or(m, "rx"@, "r"@) is Some { twice(num_or(m, "rx"@, "r"@)) } else { plain_w })
//@      && oval(r.height) == (if round && num_or(m, "ry"@, "r"@) is Some { twice(num_or(m, "ry"@, "r"@)) } else { plain_h }) })     @@C11.harvest.length
//@ - r.shape@ == value.name@
//@end
}

// ------------------------------------------------------------------------------ dx / dy applied as a translation (transmute)
pub uninterp spec fn translated_spec(e: SvgElement, dx: real, dy: real) -> Option<SvgElement>;
impl SvgElement {
    /// (under contract in U-relpos: C11.shorthand.*) only what place_instance needs: the element keeps its name, and is
    /// untouched when it carries no position shorthand
    #[verifier::external_body]
    pub fn expand_compound_pos(&mut self)
        ensures final(self).name == old(self).name,
            !old(self).attrs@.dom().contains("xy"@) && !old(self).attrs@.dom().contains("cxy"@) && !old(self).attrs@.dom().contains("xy1"@) && !old(self).attrs@.dom().contains("xy2"@)
                && !old(self).attrs@.dom().contains("dxy"@) && !old(self).attrs@.dom().contains("xy-loc"@) ==> *final(self) == *old(self),
    { unimplemented!() }
    #[verifier::external_body]
    pub fn translated(&self, dx: R32, dy: R32) -> (r: Result<SvgElement>)
        ensures (match translated_spec(*self, val(dx), val(dy)) { Some(e) => r == Ok::<SvgElement, SvgdxError>(e), None => r is Err })
    { unimplemented!() }
//@item src/element.rs :: impl SvgElement :: fn transmute
//@ strlit "text" "tspan" "feOffset" "dx" "dy"
//@ fragment-name dxdy_block
//@ fragment-from <<<        if !matches!(self.name.as_str(), "text" | "tspan" | "feOffset") {>>>
//@ fragment-to <<<                *self = self.translated(d_x.unwrap_or_default(), d_y.unwrap_or_default())?;\n            }\n        }>>>
//@ fragment-head <<<fn dxdy_block(&mut self) -> Result<()> {>>>
//@ fragment-tail <<<        Ok(())\n}>>>
//@ replace-all[R-default] <<<.unwrap_or_default()>>> => <<<.unwrap_or(0.)>>>
//@ body-start
//@ | let ghost mut g_mid = *self;
//@ | let ghost mut g_done = false;
//@ before <<<*self = self.translated(>>>
//@ | proof { g_mid = *self; g_done = true; }
//@ before <<<        Ok(())\n}>>>
//@ | proof {
//@ |     let o = old(self).attrs@;
//@ |     let ddx = if o.dom().contains("dx"@) { strp_spec(o["dx"@])->Some_0 } else { 0real };
//@ |     let ddy = if o.dom().contains("dy"@) { strp_spec(o["dy"@])->Some_0 } else { 0real };
//@ |     let any_d = o.dom().contains("dx"@) || o.dom().contains("dy"@);
//@ |     if g_done {
//@ |         assert(g_mid.attrs@ == o.remove("dx"@).remove("dy"@));
//@ |         assert(g_mid.name == old(self).name);
//@ |         assert(translated_spec(g_mid, ddx, ddy) == Some(*self));
//@ |         assert(any_d);
//@ |     } else if !(old(self).name@ == "text"@ || old(self).name@ == "tspan"@ || old(self).name@ == "feOffset"@) {
//@ |         assert(!any_d);
//@ |         assert(o.remove("dx"@).remove("dy"@) =~= o);
//@ |     }
//@ | }
//@ ensures
//@ - (old(self).name@ == "text"@ || old(self).name@ == "tspan"@ || old(self).name@ == "feOffset"@) ==> r is Ok && *final(self) == *old(self)     @@C11.dxdy.text_keeps_own_meaning
//@ - !(old(self).name@ == "text"@ || old(self).name@ == "tspan"@ || old(self).name@ == "feOffset"@) && r is Ok
//@       && !(old(self).attrs@.dom().contains("dx"@) || old(self).attrs@.dom().contains("dy"@)) ==> final(self).attrs@ == old(self).attrs@ && final(self).name == old(self).name     @@C11.dxdy.absent_untouched
//@ - !(old(self).name@ == "text"@ || old(self).name@ == "tspan"@ || old(self).name@ == "feOffset"@) && r is Ok
//@       && (old(self).attrs@.dom().contains("dx"@) || old(self).attrs@.dom().contains("dy"@)) ==> ({
//@       let o = old(self).attrs@;
//@       let ddx = if o.dom().contains("dx"@) { strp_spec(o["dx"@])->Some_0 } else { 0real }; let ddy = if o.dom().contains("dy"@) { strp_spec(o["dy"@])->Some_0 } else { 0real };
//@       exists|e0: SvgElement, ax: real, ay: real| ax == ddx && ay == ddy && e0.attrs@ == o.remove("dx"@).remove("dy"@) && e0.name == old(self).name
//@           && #[trigger] translated_spec(e0, ax, ay) == Some(*final(self)) })     @@C11.dxdy.translation
//@ - !(old(self).name@ == "text"@ || old(self).name@ == "tspan"@ || old(self).name@ == "feOffset"@)
//@       && ((old(self).attrs@.dom().contains("dx"@) && strp_spec(old(self).attrs@["dx"@]) is None) || (old(self).attrs@.dom().contains("dy"@) && strp_spec(old(self).attrs@["dy"@]) is None)) ==> r is Err     @@C11.dxdy.unresolved_is_error
//@end
}

// ------------------------------------------------------------------------------ native attribute sets
pub open spec fn lacks(m: M, ks: Seq<Seq<char>>) -> bool { forall|i: int| 0 <= i < ks.len() ==> !m.dom().contains(#[trigger] ks[i]) }
/// the element kinds located by x / y / width / height: from the property (C09 / C11 quantify over box and point
/// too) and from bbox_raw, which reads x, y, width, height for exactly these
pub open spec fn is_rectlike(n: Seq<char>) -> bool { n == ""@ || n == "rect"@ || n == "box"@ || n == "use"@ || n == "image"@ || n == "svg"@ || n == "foreignObject"@ }

impl Position {
    #[verifier::external_body]
    pub fn to_bbox(&self) -> (r: Option<BoundingBox>) ensures r == to_bbox_spec(*self) { unimplemented!() }
//@item src/position.rs :: impl Position :: fn has_x_position
//@ ensures
//@ - r == (self.xmin is Some || self.xmax is Some || self.cx is Some || self.dx is Some)
//@end
//@item src/position.rs :: impl Position :: fn has_y_position
//@ ensures
//@ - r == (self.ymin is Some || self.ymax is Some || self.cy is Some || self.dy is Some)
//@end
    /// Position::x() / y(): the start of the extent when two constraints give it, else xmin / ymin, else 0 (U-geom: x_def / y_def)
    pub uninterp spec fn px(&self) -> real;
    pub uninterp spec fn py(&self) -> real;
    #[verifier::external_body] pub fn x(&self) -> (r: R32) ensures val(r) == self.px() { unimplemented!() }
    #[verifier::external_body] pub fn y(&self) -> (r: R32) ensures val(r) == self.py() { unimplemented!() }
//@item src/position.rs :: impl Position :: fn position_via_transform
//@ body-start
//@ | proof { reveal_with_fuel(remove_seq, 20); }
//@ replace[R-fmt-tag] <<<format!("translate({x}, {y})")>>> => <<<translate_fmt(x, y)>>>
//@ replace[R-fmt-tag] <<<format!("{} {}", exist_xfrm, xy_xfrm)>>> => <<<join2(&exist_xfrm, &xy_xfrm)>>>
//@ ensures
//@ - final(element).name == old(element).name
//@ - ({ let x = self.px() + or0(self.dx); let y = self.py() + or0(self.dy); let o = old(element).attrs@; let m = final(element).attrs@;
//@      if x != 0real || y != 0real {
//@          m.dom().contains("transform"@) && m["transform"@] == (if o.dom().contains("transform"@) { o["transform"@] + " "@ + translate_str(x, y) } else { translate_str(x, y) })
//@          && !m.dom().contains("x"@) && !m.dom().contains("y"@) && !m.dom().contains("dx"@) && !m.dom().contains("dy"@)
//@      } else { m == o } })     @@C18.place.via_transform @@C11.place.via_transform
//@end

//@item src/position.rs :: impl Position :: fn set_position_attrs
//@ body-start
//@ | proof { reveal_with_fuel(remove_seq, 16); }
//@ replace[R-fmt-tag] <<<format!("translate({x1}, {y1})")>>> => <<<translate_fmt(x1, y1)>>>
//@ replace-re[R-flatten] <<<\[(\w+), (\w+)\]\.into_iter\(\)\.flatten\(\)\.collect\(\)>>> => <<<flatten2(\1, \2)>>>
//@ replace[R-join] <<<xfrm.iter().join(" ")>>> => <<<join_space(&xfrm)>>>
//@ ensures
//@ - final(element).name == old(element).name
//@ - to_bbox_spec(*self) is Some && old(element).name@ == "g"@ ==> ({ let b = to_bbox_spec(*self)->Some_0; let o = old(element).attrs@; let m = final(element).attrs@;
//@       if val(b.x1) != 0real || val(b.y1) != 0real {
//@           m == o.insert("transform"@, if o.dom().contains("transform"@) { o["transform"@] + " "@ + translate_str(val(b.x1), val(b.y1)) } else { translate_str(val(b.x1), val(b.y1)) })
//@       } else { m == o } })     @@C18.group.translate_after
//@ - (old(element).name@ == "polyline"@ || old(element).name@ == "polygon"@ || old(element).name@ == "path"@) ==>
//@     ({ let x = self.px() + or0(self.dx); let y = self.py() + or0(self.dy); let o = old(element).attrs@; let m = final(element).attrs@;
//@      if x != 0real || y != 0real {
//@          m.dom().contains("transform"@) && m["transform"@] == (if o.dom().contains("transform"@) { o["transform"@] + " "@ + translate_str(x, y) } else { translate_str(x, y) })
//@          && !m.dom().contains("x"@) && !m.dom().contains("y"@) && !m.dom().contains("dx"@) && !m.dom().contains("dy"@)
//@      } else { m == o } })     @@C18.place.shape_moved_by_transform @@C11.place.shape_moved_by_transform
//@ - to_bbox_spec(*self) is Some && is_rectlike(old(element).name@) ==> lacks(final(element).attrs@,
//@       seq!["dx"@, "dy"@, "dw"@, "dh"@, "x1"@, "y1"@, "x2"@, "y2"@, "cx"@, "cy"@, "r"@])     @@C11.native.only.rect
//@ - to_bbox_spec(*self) is Some && old(element).name@ == "circle"@ ==> lacks(final(element).attrs@,
//@       seq!["dx"@, "dy"@, "dw"@, "dh"@, "x"@, "y"@, "x1"@, "y1"@, "x2"@, "y2"@, "rx"@, "ry"@, "width"@, "height"@])     @@C11.native.only.circle
//@ - to_bbox_spec(*self) is Some && old(element).name@ == "ellipse"@ ==> lacks(final(element).attrs@,
//@       seq!["dx"@, "dy"@, "dw"@, "dh"@, "x"@, "y"@, "x1"@, "y1"@, "x2"@, "y2"@, "r"@, "width"@, "height"@])     @@C11.native.only.ellipse
//@ - to_bbox_spec(*self) is Some && old(element).name@ == "line"@ ==> lacks(final(element).attrs@,
//@       seq!["dx"@, "dy"@, "dw"@, "dh"@, "x"@, "y"@, "cx"@, "cy"@, "rx"@, "ry"@, "r"@, "width"@, "height"@])     @@C11.native.only.line
//@ - to_bbox_spec(*self) is Some && is_rectlike(old(element).name@) ==> ({ let b = to_bbox_spec(*self)->Some_0; let m = final(element).attrs@;
//@       ((self.xmin is Some || self.xmax is Some || self.cx is Some || self.dx is Some) ==> written(m, "x"@, val(b.x1) + or0(self.dx)))
//@       && ((self.ymin is Some || self.ymax is Some || self.cy is Some || self.dy is Some) ==> written(m, "y"@, val(b.y1) + or0(self.dy)))
//@       && (old(element).name@ != "use"@ ==> written(m, "width"@, val(b.x2) - val(b.x1)) && written(m, "height"@, val(b.y2) - val(b.y1))) })     @@C11.native.values.rect
//@ - to_bbox_spec(*self) is Some && old(element).name@ == "text"@ ==> ({ let b = to_bbox_spec(*self)->Some_0; let m = final(element).attrs@; let o = old(element).attrs@;
//@       written(m, "x"@, val(b.x1)) && written(m, "y"@, val(b.y1)) && lacks(m, seq!["x1"@, "y1"@, "x2"@, "y2"@, "cx"@, "cy"@])
//@       && map_get(m, "dx"@) == map_get(o, "dx"@) && map_get(m, "dy"@) == map_get(o, "dy"@) })     @@C19.anchor.text_located_by_xy
//@ - to_bbox_spec(*self) is Some && old(element).name@ == "point"@ ==> ({ let b = to_bbox_spec(*self)->Some_0; let m = final(element).attrs@;
//@       written(m, "x"@, val(b.x1) + or0(self.dx)) && written(m, "y"@, val(b.y1) + or0(self.dy))
//@       && lacks(m, seq!["dx"@, "dy"@, "x1"@, "y1"@, "x2"@, "y2"@, "cx"@, "cy"@]) })     @@C09.point.placed @@C11.native.values.point
//@ - to_bbox_spec(*self) is Some && old(element).name@ == "circle"@ ==> ({ let b = to_bbox_spec(*self)->Some_0; let m = final(element).attrs@;
//@       written(m, "r"@, (val(b.x2) - val(b.x1)) / 2real)
//@       && ((self.xmin is Some || self.xmax is Some || self.cx is Some || self.dx is Some) ==> written(m, "cx"@, (val(b.x1) + val(b.x2)) / 2real + or0(self.dx)))
//@       && ((self.ymin is Some || self.ymax is Some || self.cy is Some || self.dy is Some) ==> written(m, "cy"@, (val(b.y1) + val(b.y2)) / 2real + or0(self.dy))) })     @@C11.native.values.circle
//@ - to_bbox_spec(*self) is Some && old(element).name@ == "ellipse"@ ==> ({ let b = to_bbox_spec(*self)->Some_0; let m = final(element).attrs@;
//@       written(m, "rx"@, (val(b.x2) - val(b.x1)) / 2real) && written(m, "ry"@, (val(b.y2) - val(b.y1)) / 2real)
//@       && ((self.xmin is Some || self.xmax is Some || self.cx is Some || self.dx is Some) ==> written(m, "cx"@, (val(b.x1) + val(b.x2)) / 2real + or0(self.dx)))
//@       && ((self.ymin is Some || self.ymax is Some || self.cy is Some || self.dy is Some) ==> written(m, "cy"@, (val(b.y1) + val(b.y2)) / 2real + or0(self.dy))) })     @@C11.native.values.ellipse
//@ - to_bbox_spec(*self) is Some && old(element).name@ == "line"@ ==> ({ let b = to_bbox_spec(*self)->Some_0; let m = final(element).attrs@; let o = old(element).attrs@;
//@       (!o.dom().contains("x1"@) ==> written(m, "x1"@, val(b.x1) + or0(self.dx)))
//@       && (!o.dom().contains("y1"@) ==> written(m, "y1"@, val(b.y1) + or0(self.dy)))
//@       && (!o.dom().contains("x2"@) ==> written(m, "x2"@, val(b.x2) + or0(self.dx)))
//@       && (!o.dom().contains("y2"@) ==> written(m, "y2"@, val(b.y2) + or0(self.dy)))
//@       && (o.dom().contains("x1"@) && self.dx is Some && strp_spec(o["x1"@]) is Some ==> written(m, "x1"@, strp_spec(o["x1"@])->Some_0 + val(self.dx->Some_0)))
//@       && (o.dom().contains("y2"@) && self.dy is Some && strp_spec(o["y2"@]) is Some ==> written(m, "y2"@, strp_spec(o["y2"@])->Some_0 + val(self.dy->Some_0))) })     @@C11.native.values.line @@C09.native.values.line
//@end
}

// ------------------------------------------------------------------------------ placing a reuse instance
// R-fragment of ReuseElement::generate_events (src/reuse.rs): the statements which move the fresh
// instance to the reuse element's x / y. From the property (C18) and docs/dev-notes.md ("xy on the
// reuse should translate the bbox of the target, overriding any position it may have"): whatever
// kind of element the template is, the instance ends up at x / y.
pub type Size = (R32, R32);      // src/position.rs: `pub type Size = (f32, f32);` under R-f32
impl BoundingBox {
    #[verifier::external_body]
    pub fn size(&self) -> (r: (R32, R32)) ensures val(r.0) == val(self.x2) - val(self.x1), val(r.1) == val(self.y2) - val(self.y1) { unimplemented!() }
}
impl Position {
//@item src/position.rs :: impl Position :: fn update_size
//@ ensures
//@ - *final(self) == (Position { width: Some(sz.0), height: Some(sz.1), ..*old(self) })
//@end
//@item src/position.rs :: impl Position :: fn update_shape
//@ replace[R-clone] <<<shape.to_owned()>>> => <<<str_to_owned(shape)>>>
//@ ensures
//@ - final(self).shape@ == shape@
//@ - (Position { shape: old(self).shape, ..*final(self) }) == *old(self)
//@end
}
#[verifier::external_body] pub fn str_to_owned(s: &str) -> (r: String) ensures r@ == s@ { unimplemented!() }
/// start + length on both axes and nothing else: the instance of C11.to_bbox.consistent (proved in U-geom) that place_instance needs
pub axiom fn ax_to_bbox_start_length(p: Position)
    ensures p.xmin is Some && p.width is Some && p.xmax is None && p.cx is None && p.ymin is Some && p.height is Some && p.ymax is None && p.cy is None ==>
        to_bbox_spec(p) is Some && val(to_bbox_spec(p)->Some_0.x1) == val(p.xmin->Some_0) && val(to_bbox_spec(p)->Some_0.y1) == val(p.ymin->Some_0)
        && val(to_bbox_spec(p)->Some_0.x2) == val(p.xmin->Some_0) + val(p.width->Some_0) && val(to_bbox_spec(p)->Some_0.y2) == val(p.ymin->Some_0) + val(p.height->Some_0);
pub open spec fn rmin2(a: real, b: real) -> real { if a <= b { a } else { b } }
/// the reuse element gives a numeric x and y and no other position attribute
/// the reuse element gives no position of its own: the instance is the template as written (its own cx / cy / dx ... are resolved as for any hand-written element)
pub open spec fn no_position(e: SvgElement) -> bool {
    let m = e.attrs@;
    num(m, "x"@) is None && num(m, "y"@) is None && num(m, "x1"@) is None && num(m, "y1"@) is None && num(m, "x2"@) is None && num(m, "y2"@) is None
    && num(m, "cx"@) is None && num(m, "cy"@) is None && num(m, "dx"@) is None && num(m, "dy"@) is None
}
pub open spec fn only_xy(e: SvgElement) -> bool {
    let m = e.attrs@;
    e.name@ == "reuse"@ && num(m, "x"@) is Some && num(m, "y"@) is Some
    && !m.dom().contains("x1"@) && !m.dom().contains("y1"@) && !m.dom().contains("x2"@) && !m.dom().contains("y2"@)
    && !m.dom().contains("cx"@) && !m.dom().contains("cy"@) && !m.dom().contains("dx"@) && !m.dom().contains("dy"@)
}

//@item src/reuse.rs :: impl EventGen for ReuseElement :: fn generate_events
//@ fragment-name place_instance
//@ fragment-from <<<        let mut pos = Position::from(&reuse_element);>>>
//@ fragment-to <<<            pos.set_position_attrs(&mut instance_element);\n        }>>>
//@ fragment-head <<<fn place_instance(reuse_element: SvgElement, inst_el: &SvgElement, instance_size: Option<(f32, f32)>, mut instance_element: SvgElement) -> SvgElement {>>>
//@ fragment-tail <<<    instance_element\n}>>>
//@ before <<<            pos.set_position_attrs(&mut instance_element);>>>
//@ | proof { ax_to_bbox_start_length(pos); }
//@ | assert(!(instance_element.name@ == "g"@) && num(reuse_element.attrs@, "y"@) is None && num(reuse_element.attrs@, "y1"@) is None && num(reuse_element.attrs@, "y2"@) is None
//@ |        && num(reuse_element.attrs@, "cy"@) is None && num(reuse_element.attrs@, "dy"@) is None
//@ |        ==> oval(pos.cy) == num(instance_element.attrs@, "cy"@) && oval(pos.ymax) == num(instance_element.attrs@, "y2"@) && oval(pos.ymin) == num_or(instance_element.attrs@, "y1"@, "y"@)); // an axis the reuse does not position keeps the template's own constraints (they are about to be removed from the element as superseded) @C18.place.unpositioned_axis_keeps_template
//@ | assert(!(instance_element.name@ == "g"@) && num(reuse_element.attrs@, "x"@) is None && num(reuse_element.attrs@, "x1"@) is None && num(reuse_element.attrs@, "x2"@) is None
//@ |        && num(reuse_element.attrs@, "cx"@) is None && num(reuse_element.attrs@, "dx"@) is None
//@ |        ==> oval(pos.cx) == num(instance_element.attrs@, "cx"@) && oval(pos.xmax) == num(instance_element.attrs@, "x2"@) && oval(pos.xmin) == num_or(instance_element.attrs@, "x1"@, "x"@)); // (same for x) @C18.place.unpositioned_axis_keeps_template
//@ ensures
//@ - r.name == instance_element.name     @@C18.place.frame
//@ - no_position(reuse_element) ==> r == instance_element     @@C18.place.no_position_keeps_template
//@ - is_rectlike(instance_element.name@) && only_xy(reuse_element) && instance_size is Some ==>
//@       written(r.attrs@, "x"@, num(reuse_element.attrs@, "x"@)->Some_0) && written(r.attrs@, "y"@, num(reuse_element.attrs@, "y"@)->Some_0)     @@C18.place.rectlike
//@ - is_rectlike(instance_element.name@) && instance_element.name@ != "use"@ && only_xy(reuse_element) && instance_size is Some ==>
//@       written(r.attrs@, "width"@, val(instance_size->Some_0.0)) && written(r.attrs@, "height"@, val(instance_size->Some_0.1))     @@C18.place.shape_size_is_its_own
//@ - instance_element.name@ == "circle"@ && only_xy(reuse_element) && instance_size is Some ==>
//@       written(r.attrs@, "cx"@, num(reuse_element.attrs@, "x"@)->Some_0 + val(instance_size->Some_0.0) / 2real)
//@       && written(r.attrs@, "cy"@, num(reuse_element.attrs@, "y"@)->Some_0 + val(instance_size->Some_0.1) / 2real)     @@C18.place.circle
//@ - instance_element.name@ == "g"@ && only_xy(reuse_element) && inst_el.content_bbox is Some && instance_size is None ==> ({
//@       let (x, y) = (num(reuse_element.attrs@, "x"@)->Some_0, num(reuse_element.attrs@, "y"@)->Some_0); let o = instance_element.attrs@;
//@       (x != 0real || y != 0real) ==> r.attrs@ == o.insert("transform"@, if o.dom().contains("transform"@) { o["transform"@] + " "@ + translate_str(x, y) } else { translate_str(x, y) }) })     @@C18.place.group
//@ - instance_element.name@ == "line"@ && num(reuse_element.attrs@, "x"@) is Some && num(reuse_element.attrs@, "y"@) is Some
//@     && num(instance_element.attrs@, "x1"@) is Some && num(instance_element.attrs@, "x2"@) is Some
//@     && num(instance_element.attrs@, "y1"@) is Some && num(instance_element.attrs@, "y2"@) is Some ==> ({
//@       let o = instance_element.attrs@; let m = r.attrs@;
//@       let (x1, y1, x2, y2) = (num(o, "x1"@)->Some_0, num(o, "y1"@)->Some_0, num(o, "x2"@)->Some_0, num(o, "y2"@)->Some_0);
//@       let dx = num(reuse_element.attrs@, "x"@)->Some_0 - rmin2(x1, x2); let dy = num(reuse_element.attrs@, "y"@)->Some_0 - rmin2(y1, y2);
//@       written(m, "x1"@, x1 + dx) && written(m, "y1"@, y1 + dy) && written(m, "x2"@, x2 + dx) && written(m, "y2"@, y2 + dy) })     @@C18.place.line
//@ - instance_element.name@ == "text"@ && num(reuse_element.attrs@, "x"@) is Some && num(reuse_element.attrs@, "y"@) is Some
//@     && !instance_element.attrs@.dom().contains("x"@) && !instance_element.attrs@.dom().contains("y"@) ==>
//@       written(r.attrs@, "x"@, num(reuse_element.attrs@, "x"@)->Some_0) && written(r.attrs@, "y"@, num(reuse_element.attrs@, "y"@)->Some_0)     @@C18.place.text
//@ - instance_element.name@ == "reuse"@ && num(reuse_element.attrs@, "x"@) is Some && num(reuse_element.attrs@, "y"@) is Some
//@     && !instance_element.attrs@.dom().contains("x"@) && !instance_element.attrs@.dom().contains("y"@) ==>
//@       written(r.attrs@, "x"@, num(reuse_element.attrs@, "x"@)->Some_0) && written(r.attrs@, "y"@, num(reuse_element.attrs@, "y"@)->Some_0)     @@C18.place.nested_reuse
//@end

} // verus!
fn main() {}
