//@unit contain
//@props C12 C10
// U-contain: surround / inside (src/element.rs: handle_containment, position_from_bbox,
// inscribed_bbox; src/position.rs: remove_attrs). A surrounding rect equals the box exactly, a
// circle / ellipse circumscribes it (nonlinear lemma over sqrt2^2 = 2), inscribed shapes stay inside,
// the containment attributes are removed. Real-number model.
//@assume SQRT_2^2 = 2 and FRAC_1_SQRT_2^2 = 1/2 exactly (real model); fstr/strp uninterpreted; collecting the referenced boxes (attr_split iterator loop) and BoundingBox::union (`reduce` with a closure) is an uninterpreted fold, BoundingBox::intersection is the fold whose meaning is PROVED on the real loop in U-geom (C12.intersection.within_every_box / .greatest / .of_nothing; here only its name inter_spec is used); both are abstracted to union_spec/inter_spec of the listed boxes
use vstd::prelude::*;
//@prelude fmt_macro
verus! {
//@prelude std_specs r32 attrmap pending

pub enum SvgdxError { InvalidData(String), MissingBoundingBox(String), ParseError(String), Other }
pub type Result<T> = core::result::Result<T, SvgdxError>;
#[verifier::external_body] pub struct ClassList { _p: u8 }
#[verifier::external_body] pub struct OrderIndex { _p: u8 }
#[verifier::external_body] pub struct Ctx { _p: u8 }
#[verifier::external_body] pub struct TrblLength { _p: u8 }

//@rewrite f32 strlit strmatch
//@item src/position.rs :: struct BoundingBox
//@ keep-derive Clone Copy
//@end
//@item src/element.rs :: struct SvgElement
//@end
pub enum LocSpec { TopLeft, Other }

pub open spec fn bx(b: BoundingBox) -> (real, real, real, real) { (val(b.x1), val(b.y1), val(b.x2), val(b.y2)) }
pub uninterp spec fn fstr_spec(x: real) -> Seq<char>;
pub uninterp spec fn strp_spec(s: Seq<char>) -> Option<real>;
#[verifier::external_body]
pub fn fstr(x: R32) -> (r: String) ensures r@ == fstr_spec(val(x)) { unimplemented!() }
#[verifier::external_body]
pub fn strp(s: &str) -> (r: Result<R32>) ensures (match strp_spec(s@) { Some(x) => r is Ok && val(r->Ok_0) == x, None => r is Err }) { unimplemented!() }
/// std::f32::consts::SQRT_2 / FRAC_1_SQRT_2 in the real model
pub uninterp spec fn sqrt2v() -> real;
pub uninterp spec fn isqrt2v() -> real;
pub axiom fn ax_sqrt2() ensures sqrt2v() > 0real, sqrt2v() * sqrt2v() == 2real, isqrt2v() > 0real, isqrt2v() * isqrt2v() == 0.5real;
#[verifier::external_body]
pub fn sqrt_2() -> (r: R32) ensures val(r) == sqrt2v() { unimplemented!() }
#[verifier::external_body]
pub fn frac_1_sqrt_2() -> (r: R32) ensures val(r) == isqrt2v() { unimplemented!() }

impl BoundingBox {
    #[verifier::external_body] pub fn new(x1: R32, y1: R32, x2: R32, y2: R32) -> (r: BoundingBox) ensures r.x1 == x1 && r.y1 == y1 && r.x2 == x2 && r.y2 == y2 { unimplemented!() }
    #[verifier::external_body] pub fn width(&self) -> (r: R32) ensures val(r) == val(self.x2) - val(self.x1) { unimplemented!() }
    #[verifier::external_body] pub fn height(&self) -> (r: R32) ensures val(r) == val(self.y2) - val(self.y1) { unimplemented!() }
    #[verifier::external_body] pub fn center(&self) -> (r: (R32, R32)) ensures val(r.0) == (val(self.x1) + val(self.x2)) / 2real && val(r.1) == (val(self.y1) + val(self.y2)) / 2real { unimplemented!() }
    #[verifier::external_body] pub fn locspec(&self, ls: LocSpec) -> (r: (R32, R32)) ensures ls is TopLeft ==> r.0 == self.x1 && r.1 == self.y1 { unimplemented!() }
}

pub type M = Map<Seq<char>, Seq<char>>;
/// the written attribute is the formatted value of some number with property p
pub open spec fn written(m: M, k: Seq<char>, x: real) -> bool { m.dom().contains(k) && m[k] == fstr_spec(x) }

// ---- the geometric facts behind "circumscribes" / "inscribed" (nonlinear, proved once)
pub proof fn lemma_circumscribe(w: real, h: real, s: real, r: real)
    requires w >= 0real, h >= 0real, s > 0real, s * s == 2real, r == 0.5real * rmax(w, h) * s
    ensures r * r >= (w / 2real) * (w / 2real) + (h / 2real) * (h / 2real)
{
    let m = rmax(w, h);
    assert(m * m >= w * w && m * m >= h * h) by(nonlinear_arith) requires m >= w, m >= h, w >= 0real, h >= 0real;
    assert(r * r == 0.25real * (m * m) * (s * s)) by(nonlinear_arith) requires r == 0.5real * m * s;
    assert((w / 2real) * (w / 2real) + (h / 2real) * (h / 2real) == 0.25real * (w * w) + 0.25real * (h * h)) by(nonlinear_arith);
}
pub proof fn lemma_ellipse_circumscribe(w: real, s: real, rx: real)
    requires w > 0real, s > 0real, s * s == 2real, rx == 0.5real * w * s
    ensures 2real * ((w / 2real) * (w / 2real)) == rx * rx
{
    assert(rx * rx == 0.25real * (w * w) * (s * s)) by(nonlinear_arith) requires rx == 0.5real * w * s;
    assert((w / 2real) * (w / 2real) == 0.25real * (w * w)) by(nonlinear_arith);
}

impl SvgElement {
//@item src/element.rs :: impl SvgElement :: fn position_from_bbox
//@ replace-all[R-const] <<<SQRT_2>>> => <<<sqrt_2()>>>
//@ before <<<self.attrs.insert("r", fstr(r));>>>
//@ | proof { ax_sqrt2(); if !inscribe && val(width) >= 0real && val(height) >= 0real { lemma_circumscribe(val(width), val(height), sqrt2v(), val(r)); } }
//@ after <<<self.attrs.insert("r", fstr(r));>>>
//@ | proof { assert(written(self.attrs@, "r"@, val(r))); }
//@ ensures
//@ - final(self).name == old(self).name
//@ - forall|k: Seq<char>| k != "x"@ && k != "y"@ && k != "width"@ && k != "height"@ && k != "cx"@ && k != "cy"@ && k != "r"@ && k != "rx"@ && k != "ry"@ ==>
//@       final(self).attrs@.dom().contains(k) == old(self).attrs@.dom().contains(k) && (old(self).attrs@.dom().contains(k) ==> #[trigger] final(self).attrs@[k] == old(self).attrs@[k])     @@C12.position.frame
//@ - (old(self).name@ == "rect"@ || old(self).name@ == "box"@) ==> ({ let m = final(self).attrs@; let (x1, y1, x2, y2) = bx(*bb);
//@       written(m, "x"@, x1) && written(m, "y"@, y1) && written(m, "width"@, x2 - x1) && written(m, "height"@, y2 - y1) })     @@C12.surround.rect
//@ - old(self).name@ == "circle"@ ==> ({ let m = final(self).attrs@; let (x1, y1, x2, y2) = bx(*bb);
//@       written(m, "cx"@, (x1 + x2) / 2real) && written(m, "cy"@, (y1 + y2) / 2real) })     @@C12.round.centre
//@ - old(self).name@ == "circle"@ && !inscribe && val(bb.x2) >= val(bb.x1) && val(bb.y2) >= val(bb.y1) ==> ({ let (x1, y1, x2, y2) = bx(*bb);
//@       exists|rr: real| #[trigger] written(final(self).attrs@, "r"@, rr) && rr * rr >= ((x2 - x1) / 2real) * ((x2 - x1) / 2real) + ((y2 - y1) / 2real) * ((y2 - y1) / 2real) })     @@C12.surround.circle_circumscribes
//@ - old(self).name@ == "circle"@ && inscribe ==> ({ let (x1, y1, x2, y2) = bx(*bb);
//@       written(final(self).attrs@, "r"@, 0.5real * rmin(x2 - x1, y2 - y1)) })     @@C12.inside.circle_inscribed
//@ - old(self).name@ == "ellipse"@ && inscribe ==> ({ let (x1, y1, x2, y2) = bx(*bb); let m = final(self).attrs@;
//@       written(m, "cx"@, (x1 + x2) / 2real) && written(m, "cy"@, (y1 + y2) / 2real) && written(m, "rx"@, 0.5real * (x2 - x1)) && written(m, "ry"@, 0.5real * (y2 - y1)) })     @@C12.inside.ellipse_inscribed
//@ - old(self).name@ == "ellipse"@ && !inscribe ==> ({ let (x1, y1, x2, y2) = bx(*bb); let m = final(self).attrs@;
//@       written(m, "rx"@, 0.5real * (x2 - x1) * sqrt2v()) && written(m, "ry"@, 0.5real * (y2 - y1) * sqrt2v()) })     @@C12.surround.ellipse_scaled
//@end
}


// ------------------------------------------------------------------------------ inscribed_bbox / handle_containment
pub uninterp spec fn elem_bbox(e: SvgElement) -> Option<BoundingBox>;
pub uninterp spec fn union_spec(s: Seq<BoundingBox>) -> Option<BoundingBox>;
pub uninterp spec fn inter_spec(s: Seq<BoundingBox>) -> Option<BoundingBox>;
pub uninterp spec fn boxes_of(ctx: Ctx, refs: Seq<char>, surround: bool, shape: Seq<char>) -> Option<Seq<BoundingBox>>;
pub uninterp spec fn trbl_parse(s: Seq<char>) -> Option<TrblLength>;
pub uninterp spec fn expanded(b: BoundingBox, t: TrblLength) -> BoundingBox;
pub uninterp spec fn shrunk(b: BoundingBox, t: TrblLength) -> BoundingBox;
pub open spec fn num0(m: M, k: Seq<char>) -> Option<real> { if m.dom().contains(k) { strp_spec(m[k]) } else { strp_spec("0"@) } }

impl BoundingBox {
    /// R-abstract: BoundingBox::union over a Vec (`reduce` with a closure: not translated; its step combine is proved in
    /// U-geom); BoundingBox::intersection: the real loop is proved in U-geom (C12.intersection.*), only named here
    #[verifier::external_body] pub fn union(v: Vec<BoundingBox>) -> (r: Option<BoundingBox>) ensures r == union_spec(v@) { unimplemented!() }
    #[verifier::external_body] pub fn intersection(v: Vec<BoundingBox>) -> (r: Option<BoundingBox>) ensures r == inter_spec(v@) { unimplemented!() }
    #[verifier::external_body] pub fn expand_trbl_length(&mut self, t: TrblLength) ensures *final(self) == expanded(*old(self), t) { unimplemented!() }
    #[verifier::external_body] pub fn shrink_trbl_length(&mut self, t: TrblLength) ensures *final(self) == shrunk(*old(self), t) { unimplemented!() }
}
#[verifier::external_body]
pub fn parse_trbl(s: &String) -> (r: Result<TrblLength>) ensures (match trbl_parse(s@) { Some(t) => r == Ok::<TrblLength, SvgdxError>(t), None => r is Err }) { unimplemented!() }
/// R-abstract: the loop collecting the boxes of the listed elements (attr_split iterator, element lookup)
#[verifier::external_body]
pub fn collect_boxes(ctx: &Ctx, ref_list: &String, is_surround: bool, shape: &String) -> (r: Result<Vec<BoundingBox>>)
    ensures (match boxes_of(*ctx, ref_list@, is_surround, shape@) { Some(s) => r is Ok && r->Ok_0@ == s, None => r is Err })
{ unimplemented!() }

/// one of the first n names is an attribute of the element
pub open spec fn has_any(m: Map<Seq<char>, Seq<char>>, ks: Seq<&str>, n: int) -> bool decreases n {
    if n <= 0 { false } else { has_any(m, ks, n - 1) || m.dom().contains(ks[n - 1]@) }
}
/// R-any: `names.iter().any(|a| self.has_attr(a))`
#[verifier::external_body]
pub fn any_attr(e: &SvgElement, names: &[&str]) -> (r: bool) ensures r == has_any(e.attrs@, names@, names@.len() as int) { unimplemented!() }
/// the element's `transform` attribute as a function on boxes (TransformAttr::from_str + apply: U-bbox, C08.transform.*)
#[verifier::external_body] pub struct TransformAttr { _p: u8 }
pub uninterp spec fn xf_parse(s: Seq<char>) -> Option<TransformAttr>;
pub uninterp spec fn xf_apply(t: TransformAttr, b: (real, real, real, real)) -> (real, real, real, real);
/// a box given in the element's own coordinates, in the coordinates the element is drawn in (as bbox() reports it)
pub open spec fn drawn(m: M, b: (real, real, real, real)) -> (real, real, real, real) {
    if m.dom().contains("transform"@) { xf_apply(xf_parse(m["transform"@])->Some_0, b) } else { b }
}
#[verifier::external_body]
pub fn parse_transform(s: &String) -> (r: Result<TransformAttr>) ensures (match xf_parse(s@) { Some(t) => r == Ok::<TransformAttr, SvgdxError>(t), None => r is Err }) { unimplemented!() }
impl TransformAttr {
    #[verifier::external_body]
    pub fn apply(&self, b: &BoundingBox) -> (r: BoundingBox) ensures bx(r) == xf_apply(*self, bx(*b)) { unimplemented!() }
}
impl SvgElement {
    #[verifier::external_body]
    pub fn bbox(&self) -> (r: Result<Option<BoundingBox>>) ensures r is Ok ==> r->Ok_0 == elem_bbox(*self) { unimplemented!() }
//@item src/element.rs :: impl SvgElement :: fn get_attr
//@ replace[R-optmap] <<<self.attrs.get(key).map(|x| x.to_owned())>>> => <<<match self.attrs.get(key) { Some(x) => Some(x.clone()), None => None }>>>
//@ ensures
//@ - opt_sv(r) == map_get(self.attrs@, key@)
//@end
//@item src/element.rs :: impl SvgElement :: fn pop_attr
//@ ensures
//@ - final(self).attrs@ == old(self).attrs@.remove(key@) && final(self).name == old(self).name
//@end
    #[verifier::external_body]
    pub fn add_class(&mut self, class: &str) -> (r: SvgElement) ensures final(self).attrs == old(self).attrs && final(self).name == old(self).name { unimplemented!() }

//@item src/position.rs :: impl SvgElement :: fn remove_attrs
//@ ensures
//@ - final(self).name == old(self).name
//@ - forall|i: int| 0 <= i < keys@.len() ==> !final(self).attrs@.dom().contains((#[trigger] keys@[i])@)     @@C12.attrs.removed.helper
//@ - forall|k: Seq<char>| #[trigger] final(self).attrs@.dom().contains(k) ==> old(self).attrs@.dom().contains(k) && final(self).attrs@[k] == old(self).attrs@[k]
//@ - forall|k: Seq<char>| #[trigger] old(self).attrs@.dom().contains(k) && (forall|i: int| 0 <= i < keys@.len() ==> (#[trigger] keys@[i])@ != k) ==> final(self).attrs@.dom().contains(k)     @@C12.attrs.removed.only_listed
//@ loop 1
//@ iter it
//@ invariant
//@ - self.name == old(self).name
//@ - keys@ == (it.history@ + vstd::std_specs::iter::IteratorSpec::remaining(&it.iter)).map(|i: int, e: &&str| *e)
//@ - it.index@ == it.history@.len()
//@ - forall|i: int| 0 <= i < it.index@ ==> !self.attrs@.dom().contains((#[trigger] keys@[i])@)
//@ - forall|k: Seq<char>| #[trigger] self.attrs@.dom().contains(k) ==> old(self).attrs@.dom().contains(k) && self.attrs@[k] == old(self).attrs@[k]
//@ - forall|k: Seq<char>| #[trigger] old(self).attrs@.dom().contains(k) && (forall|i: int| 0 <= i < it.index@ ==> (#[trigger] keys@[i])@ != k) ==> self.attrs@.dom().contains(k)
//@end

//@item src/element.rs :: impl SvgElement :: fn has_attr
//@ ensures
//@ - r == self.attrs@.dom().contains(key@)
//@end
//@item src/element.rs :: impl SvgElement :: fn has_foreign_position
//@ strlit "rect" "box" "point" "text" "use" "reuse" "image" "svg" "foreignObject" "circle" "ellipse" "line" "polyline" "polygon" "path" "cx" "cy" "x1" "y1" "x2" "y2" "x" "y" "width" "height"
//@ replace[R-any] <<<foreign.iter().any(|a| self.has_attr(a))>>> => <<<any_attr(self, foreign)>>>
//@ body-start
//@ | proof { reveal_with_fuel(has_any, 10); }
//@ ensures
//@ - r == foreign_pos(self.name@, self.attrs@)     @@C10.pending.foreign_spec
//@end
//@item src/element.rs :: impl SvgElement :: fn is_connector
//@ strlit "start" "end" "line" "polyline"
//@ ensures
//@ - r == connector_pending(self.name@, self.attrs@)     @@C10.pending.connector_spec
//@end
//@item src/element.rs :: impl SvgElement :: fn has_pending_offset
//@ strlit "text" "tspan" "feOffset" "dx" "dy"
//@ replace[R-matches] <<<!matches!(self.name.as_str(), "text" | "tspan" | "feOffset")>>> => <<<!(self.name.as_str() == "text" || self.name.as_str() == "tspan" || self.name.as_str() == "feOffset")>>>
//@ ensures
//@ - r == offset_pending(self.name@, self.attrs@)     @@C10.pending.offset_spec
//@end
//@item src/element.rs :: impl SvgElement :: fn has_pending_geometry
//@ ensures
//@ - r == unresolved(self.name@, self.attrs@)     @@C10.pending.spec
//@end
//@item src/element.rs :: impl SvgElement :: fn inscribed_bbox
//@ replace-all[R-const] <<<FRAC_1_SQRT_2>>> => <<<frac_1_sqrt_2()>>>
//@ replace[R-strmatch-tuple] <<<let inscribed = match (target_shape, self.name.as_str()) {>>> => <<<let m_ = (target_shape, self.name.as_str());\n        let inscribed =>>>
//@ replace[R-strmatch-tuple] <<<            // rect inside circle\n            ("rect", "circle") => {>>> => <<<            if m_.0 == "rect" && m_.1 == "circle" {>>>
//@ replace[R-strmatch-tuple] <<<            }\n            // rect inside ellipse\n            ("rect", "ellipse") => {>>> => <<<            } else if m_.0 == "rect" && m_.1 == "ellipse" {>>>
//@ replace-re[R-strmatch-tuple] <<<\}\n\s*// Trivial cases: same shape\n\s*_ => ([^\n]*?),\n\s*\};>>> => <<<} else { \1 };>>>
//@ replace[R-parse] <<<let transform: TransformAttr = transform.parse()?;>>> => <<<let transform: TransformAttr = parse_transform(&transform)?;>>>
//@ body-start
//@ | proof { ax_sqrt2(); }
//@ ensures
//@ - target_shape@ == "rect"@ && self.name@ == "circle"@ && r is Ok && r->Ok_0 is Some ==> ({
//@       let cx = num0(self.attrs@, "cx"@)->Some_0; let cy = num0(self.attrs@, "cy"@)->Some_0; let rr = strp_spec(self.attrs@["r"@])->Some_0;
//@       bx(r->Ok_0->Some_0) == drawn(self.attrs@, (cx - rr * isqrt2v(), cy - rr * isqrt2v(), cx + rr * isqrt2v(), cy + rr * isqrt2v())) })     @@C12.inside.rect_in_circle
//@ - target_shape@ == "rect"@ && self.name@ == "ellipse"@ && r is Ok && r->Ok_0 is Some ==> ({
//@       let cx = num0(self.attrs@, "cx"@)->Some_0; let cy = num0(self.attrs@, "cy"@)->Some_0;
//@       let rx = strp_spec(self.attrs@["rx"@])->Some_0; let ry = strp_spec(self.attrs@["ry"@])->Some_0;
//@       bx(r->Ok_0->Some_0) == drawn(self.attrs@, (cx - rx * isqrt2v(), cy - ry * isqrt2v(), cx + rx * isqrt2v(), cy + ry * isqrt2v())) })     @@C12.inside.rect_in_ellipse
//@ - unresolved(self.name@, self.attrs@) && r is Ok ==> r->Ok_0 is None     @@C10.pending.inscribed
//@ - !unresolved(self.name@, self.attrs@) && !(target_shape@ == "rect"@ && (self.name@ == "circle"@ || self.name@ == "ellipse"@)) && r is Ok ==> r->Ok_0 == elem_bbox(*self)     @@C12.inside.same_shape
//@end

//@item src/element.rs :: impl SvgElement :: fn handle_containment
//@ replace[R-opaque-type] <<<ctx: &dyn ContextView>>> => <<<ctx: &Ctx>>>
//@ replace[R-closure] <<<let ref_list = surround.unwrap_or_else(|| inside.unwrap());>>> => <<<let ref_list = match surround { Some(s) => s, None => inside.unwrap() };>>>
//@ cut[R-abstract] <<<        let mut bbox_list = vec![];>>> .. <<<                    return Err(SvgdxError::MissingBoundingBox(el.to_string()));\n                }\n            }\n        }>>> => <<<        let bbox_list = collect_boxes(ctx, &ref_list, is_surround, &self.name)?;>>>
//@ replace[R-parse] <<<let margin: TrblLength = margin.parse()?;>>> => <<<let margin: TrblLength = parse_trbl(&margin)?;>>>
//@ replace[R-fmt-tag] <<<self.add_class(&format!("d-{contain_str}"));>>> => <<<self.add_class(contain_str);>>>
//@ ensures
//@ - old(self).attrs@.dom().contains("surround"@) && old(self).attrs@.dom().contains("inside"@) ==> r is Err     @@C12.both.error
//@ - r is Ok ==> !final(self).attrs@.dom().contains("surround"@) && !final(self).attrs@.dom().contains("inside"@) && !final(self).attrs@.dom().contains("margin"@)     @@C12.attrs.removed
//@ - r is Ok && old(self).attrs@.dom().contains("inside"@) ==> inter_spec(boxes_of(*ctx, old(self).attrs@["inside"@], false, old(self).name@)->Some_0) is Some     @@C12.inside.empty_intersection_is_error
//@ - r is Ok && old(self).attrs@.dom().contains("surround"@) ==> union_spec(boxes_of(*ctx, old(self).attrs@["surround"@], true, old(self).name@)->Some_0) is Some     @@C12.surround.nothing_to_enclose_is_error
//@ - r is Ok && old(self).attrs@.dom().contains("inside"@) ==> ({
//@       let i = inter_spec(boxes_of(*ctx, old(self).attrs@["inside"@], false, old(self).name@)->Some_0)->Some_0;
//@       let b = if old(self).attrs@.dom().contains("margin"@) { shrunk(i, trbl_parse(old(self).attrs@["margin"@])->Some_0) } else { i };
//@       val(b.x2) >= val(b.x1) && val(b.y2) >= val(b.y1) })     @@C12.margin.leaves_an_area
//@ - r is Ok && old(self).attrs@.dom().contains("surround"@) ==> ({
//@       let u = union_spec(boxes_of(*ctx, old(self).attrs@["surround"@], true, old(self).name@)->Some_0)->Some_0;
//@       let b = if old(self).attrs@.dom().contains("margin"@) { expanded(u, trbl_parse(old(self).attrs@["margin"@])->Some_0) } else { u };
//@       val(b.x2) >= val(b.x1) && val(b.y2) >= val(b.y1) })     @@C12.margin.leaves_an_area
//@ - r is Ok && old(self).attrs@.dom().contains("surround"@) && (old(self).name@ == "rect"@ || old(self).name@ == "box"@) ==> ({
//@       let bs = boxes_of(*ctx, old(self).attrs@["surround"@], true, old(self).name@)->Some_0;
//@       let u = union_spec(bs);
//@       let m = final(self).attrs@;
//@       u is Some ==> ({ let b = if old(self).attrs@.dom().contains("margin"@) { expanded(u->Some_0, trbl_parse(old(self).attrs@["margin"@])->Some_0) } else { u->Some_0 };
//@           let (x1, y1, x2, y2) = bx(b);
//@           written(m, "x"@, x1) && written(m, "y"@, y1) && written(m, "width"@, x2 - x1) && written(m, "height"@, y2 - y1) }) })     @@C12.surround.rect_exact
//@end
}
} // verus!
fn main() {}
