//@unit path
//@props C01 C08
// U-path: totality of the SVG path-data scanner (src/path.rs): every scanner step that returns Ok
// consumed at least one character, so the `evaluate` loop terminates; no unwrap/expect can panic.
//@assume str::parse::<f32>("") is an error (R-parse: `s.parse()` replaced by parse_r32 with that contract)
use vstd::prelude::*;
//@prelude fmt_macro
verus! {
//@prelude std_specs r32

pub enum SvgdxError { ParseError(String), InvalidData(String), Other }
pub type Result<T> = core::result::Result<T, SvgdxError>;
#[verifier::external_body] pub struct ParseFloatError { _p: u8 }
impl vstd::std_specs::convert::FromSpecImpl<ParseFloatError> for SvgdxError {
    open spec fn obeys_from_spec() -> bool { false }
    uninterp spec fn from_spec(v: ParseFloatError) -> Self;
}
impl From<ParseFloatError> for SvgdxError {
    #[verifier::external_body]
    fn from(err: ParseFloatError) -> SvgdxError { unimplemented!() }
}
/// R-parse: stands for `str::parse::<f32>`; assumed: the empty string does not parse
#[verifier::external_body]
pub fn parse_r32(s: &String) -> (r: core::result::Result<R32, ParseFloatError>)
    ensures s@.len() == 0 ==> r is Err
{ unimplemented!() }

#[verifier::external_body] pub struct SvgElement { _p: u8 }
impl SvgElement {
    #[verifier::external_body]
    pub fn get_attr(&self, key: &str) -> Option<String> { unimplemented!() }
}
pub struct BoundingBox { pub x1: R32, pub y1: R32, pub x2: R32, pub y2: R32 }
impl BoundingBox {
    #[verifier::external_body]
    pub fn new(x1: R32, y1: R32, x2: R32, y2: R32) -> (r: BoundingBox) { unimplemented!() }
}

//@rewrite f32
//@item src/path.rs :: struct PathParser
//@end
//@item src/path.rs :: struct SvgPathSyntax
//@end

pub trait PathSyntax: Sized {
    /// ghost view of the scanner: position and input length
    spec fn idx(&self) -> nat;
    spec fn len(&self) -> nat;
    /// is the current character a command letter (a function of the scanner state)
    spec fn cmd_here(&self) -> bool;
    /// the character under the cursor (meaningful while idx() < len())
    spec fn cur(&self) -> char;

//@item src/path.rs :: trait PathSyntax :: fn at_command
//@ ensures
//@ - r is Ok ==> self.idx() < self.len()
//@ - r is Ok ==> r->Ok_0 == self.cmd_here()
//@end
//@item src/path.rs :: trait PathSyntax :: fn current
//@ ensures
//@ - r is Some <==> self.idx() < self.len()
//@ - r is Some ==> r->Some_0 == self.cur()
//@end
//@item src/path.rs :: trait PathSyntax :: fn advance
//@ requires
//@ - old(self).idx() < old(self).len()
//@ ensures
//@ - final(self).idx() == old(self).idx() + 1
//@ - final(self).len() == old(self).len()
//@end
//@item src/path.rs :: trait PathSyntax :: fn at_end
//@ ensures
//@ - r == (self.idx() >= self.len())
//@end

//@item src/path.rs :: trait PathSyntax :: fn check_not_end
//@ ensures
//@ - r is Ok <==> self.idx() < self.len()
//@end

//@item src/path.rs :: trait PathSyntax :: fn skip_whitespace
//@ ensures
//@ - final(self).idx() >= old(self).idx()    @@C01.path.ws_monotone
//@ - final(self).len() == old(self).len()
//@ loop 1
//@ invariant
//@ - self.idx() >= old(self).idx()
//@ - self.len() == old(self).len()
//@ decreases
//@ - self.len() - self.idx()     @@C01.path.ws_terminates
//@end

//@item src/path.rs :: trait PathSyntax :: fn skip_wsp_comma
//@ ensures
//@ - final(self).idx() >= old(self).idx()
//@ - final(self).len() == old(self).len()
//@end

//@item src/path.rs :: trait PathSyntax :: fn read_number
//@ replace[R-parse] <<<Ok(s.parse()?)>>> => <<<Ok(parse_r32(&s)?)>>>
//@ ensures
//@ - r is Ok ==> final(self).idx() > old(self).idx()     @@C01.path.num_progress
//@ - final(self).idx() >= old(self).idx()
//@ - final(self).len() == old(self).len()
//@ loop 1
//@ invariant
//@ - self.idx() >= old(self).idx()
//@ - self.len() == old(self).len()
//@ - s@.len() > 0 ==> self.idx() > old(self).idx()
//@ decreases
//@ - self.len() - self.idx()     @@C01.path.num_terminates
//@end

//@item src/path.rs :: trait PathSyntax :: fn read_coord
//@ ensures
//@ - r is Ok ==> final(self).idx() > old(self).idx()     @@C01.path.coord_progress
//@ - final(self).idx() >= old(self).idx()
//@ - final(self).len() == old(self).len()
//@end

//@item src/path.rs :: trait PathSyntax :: fn read_command
//@ ensures
//@ - r is Ok ==> final(self).idx() > old(self).idx()     @@C01.path.cmd_progress
//@ - r is Ok ==> r->Ok_0 == old(self).cur() && old(self).cmd_here() && old(self).idx() < old(self).len()
//@ - final(self).idx() >= old(self).idx()
//@ - final(self).len() == old(self).len()
//@end
}

impl PathSyntax for SvgPathSyntax {
    open spec fn idx(&self) -> nat { self.index as nat }
    open spec fn len(&self) -> nat { self.data@.len() }
    open spec fn cmd_here(&self) -> bool { contains_spec("MmLlHhVvZzCcSsQqTtAa", self.data@[self.index as int]) }
    open spec fn cur(&self) -> char { self.data@[self.index as int] }

//@item src/path.rs :: impl PathSyntax for SvgPathSyntax :: fn at_command
//@end
//@item src/path.rs :: impl PathSyntax for SvgPathSyntax :: fn current
//@ ensures
//@ - r is Some ==> r->Some_0 == self.data@[self.index as int]
//@end
//@item src/path.rs :: impl PathSyntax for SvgPathSyntax :: fn advance
//@ before <<<self.index += 1;>>>
//@ | proof { let _ = self.data.len(); }
//@end
//@item src/path.rs :: impl PathSyntax for SvgPathSyntax :: fn at_end
//@end
}

impl PathParser {
    /// data-structure invariant between instructions: closepath is never the remembered command
    /// (it takes no arguments, so it must not be implicitly repeated)
    /// this instruction reads a command letter, and it is one of the two given (lower / upper case)
    pub open spec fn explicit_cmd(p: PathParser, a: char, b: char) -> bool {
        (p.command is None || p.tokens.cmd_here()) && p.tokens.idx() < p.tokens.len() && (p.tokens.cur() == a || p.tokens.cur() == b)
    }
    pub open spec fn cmd_ok(&self) -> bool {
        self.command != Some('z') && self.command != Some('Z')
    }

//@item src/path.rs :: impl PathParser :: fn new
//@ replace[R-abstract] <<<SvgPathSyntax::new(data)>>> => <<<new_syntax(data)>>>
//@ ensures
//@ - r.cmd_ok()
//@end

//@item src/path.rs :: impl PathParser :: fn update_position
//@ ensures
//@ - final(self).tokens == old(self).tokens
//@ - final(self).command == old(self).command
//@ - final(self).position == Some(pos)
//@ - final(self).start_pos == (if old(self).start_pos is None { Some(pos) } else { old(self).start_pos })
//@ - old(self).position is None ==> val(final(self).min_x) == val(pos.0) && val(final(self).max_x) == val(pos.0) && val(final(self).min_y) == val(pos.1) && val(final(self).max_y) == val(pos.1)
//@ - old(self).position is Some ==> val(final(self).min_x) == rmin(val(old(self).min_x), val(pos.0)) && val(final(self).max_x) == rmax(val(old(self).max_x), val(pos.0))
//@       && val(final(self).min_y) == rmin(val(old(self).min_y), val(pos.1)) && val(final(self).max_y) == rmax(val(old(self).max_y), val(pos.1))     @@C08.path.extent_covers_every_point
//@end

//@item src/path.rs :: impl PathParser :: fn get_bbox
//@end

//@item src/path.rs :: impl PathParser :: fn process_instruction
//@ requires
//@ - old(self).cmd_ok()
//@ ensures
//@ - r is Ok ==> final(self).cmd_ok()     @@C01.path.cmd_invariant
//@ - r is Ok && Self::explicit_cmd(*old(self), 'z', 'Z') ==> old(self).start_pos is Some && final(self).position == old(self).start_pos     @@C08.path.closepath_returns_to_subpath_start
//@ - r is Ok && Self::explicit_cmd(*old(self), 'm', 'M') ==> final(self).position is Some && final(self).start_pos == final(self).position     @@C08.path.moveto_starts_subpath
//@ - r is Ok && !Self::explicit_cmd(*old(self), 'm', 'M') && old(self).start_pos is Some ==> final(self).start_pos == old(self).start_pos     @@C08.path.subpath_start_kept
//@ - r is Ok ==> final(self).tokens.idx() > old(self).tokens.idx()     @@C01.path.progress
//@ - final(self).tokens.len() == old(self).tokens.len()
//@end

//@item src/path.rs :: impl PathParser :: fn evaluate
//@ requires
//@ - old(self).cmd_ok()
//@ loop 1
//@ invariant
//@ - self.cmd_ok()
//@ - self.tokens.len() == old(self).tokens.len()
//@ decreases
//@ - (if self.tokens.len() >= self.tokens.idx() { self.tokens.len() - self.tokens.idx() } else { 0 })     @@C01.path.terminates
//@end
}

/// stands for SvgPathSyntax::new (`data.chars().collect()`: iterator adapter, not translated)
#[verifier::external_body]
pub fn new_syntax(data: &str) -> SvgPathSyntax { unimplemented!() }

//@item src/path.rs :: fn path_bbox
//@end

// ------------------------------------------------------------------ src/bearing.rs
#[verifier::external_body]
pub fn fstr(x: R32) -> String { unimplemented!() }
#[verifier::external_body]
pub fn new_bearing_syntax(data: &str) -> BearingPathSyntax { unimplemented!() }

//@item src/bearing.rs :: struct BearingPathSyntax
//@end
//@item src/bearing.rs :: struct PathBearing
//@end

impl PathSyntax for BearingPathSyntax {
    open spec fn idx(&self) -> nat { self.index as nat }
    open spec fn len(&self) -> nat { self.data@.len() }
    open spec fn cmd_here(&self) -> bool { contains_spec("MmBbLlHhVvZzCcSsQqTtAa", self.data@[self.index as int]) }
    open spec fn cur(&self) -> char { self.data@[self.index as int] }

//@item src/bearing.rs :: impl PathSyntax for BearingPathSyntax :: fn at_command
//@end
//@item src/bearing.rs :: impl PathSyntax for BearingPathSyntax :: fn current
//@ ensures
//@ - r is Some ==> r->Some_0 == self.data@[self.index as int]
//@end
//@item src/bearing.rs :: impl PathSyntax for BearingPathSyntax :: fn advance
//@ before <<<self.index += 1;>>>
//@ | proof { let _ = self.data.len(); }
//@end
//@item src/bearing.rs :: impl PathSyntax for BearingPathSyntax :: fn at_end
//@end
}

impl PathBearing {
//@item src/bearing.rs :: impl PathBearing :: fn new
//@ replace[R-abstract] <<<BearingPathSyntax::new(data)>>> => <<<new_bearing_syntax(data)>>>
//@end

//@item src/bearing.rs :: impl PathBearing :: fn process_instruction
//@ replace[R-orguard] <<<'m' | 'l' if self.bearing != 0. =>>>> => <<<g_ if (g_ == 'm' || g_ == 'l') && self.bearing != 0. =>>>>
//@ replace[R-orguard] <<<'h' | 'v' if self.bearing != 0. =>>>> => <<<g_ if (g_ == 'h' || g_ == 'v') && self.bearing != 0. =>>>>
//@ ensures
//@ - r is Ok ==> final(self).tokens.idx() > old(self).tokens.idx()     @@C01.bearing.progress
//@ - final(self).tokens.len() == old(self).tokens.len()
//@ loop 1
//@ invariant
//@ - self.tokens.len() == old(self).tokens.len()
//@ - self.tokens.idx() >= old(self).tokens.idx()
//@ - self.tokens.idx() > old(self).tokens.idx() || (self.tokens.idx() < self.tokens.len() && !self.tokens.cmd_here())
//@ ensures
//@ - self.tokens.idx() > old(self).tokens.idx()
//@ decreases
//@ - (if self.tokens.len() >= self.tokens.idx() { self.tokens.len() - self.tokens.idx() } else { 0 })     @@C01.bearing.copy_terminates
//@end

//@item src/bearing.rs :: impl PathBearing :: fn evaluate
//@ loop 1
//@ invariant
//@ - self.tokens.len() == old(self).tokens.len()
//@ decreases
//@ - (if self.tokens.len() >= self.tokens.idx() { self.tokens.len() - self.tokens.idx() } else { 0 })     @@C01.bearing.terminates
//@end
}

//@item src/bearing.rs :: fn process_path_bearing
//@end

} // verus!
fn main() {}
