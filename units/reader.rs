//@unit reader
//@props C01 C02 C19 C03
// U-reader: the two loops every input goes through first (src/events.rs): InputList::from_reader
// (the XML reader loop with the open-tag index stack) and tagify_events (the indexed scan with its
// skip-ahead). Proved: no index out of bounds, no `expect` on an Err, no arithmetic overflow, both
// loops terminate (tagify: strictly advancing cursor), reader errors become Err values; and the
// start/end links written into the list are in range and point backwards / forwards correctly.
//@assume quick-xml Reader model: read_event_into returns an arbitrary event or error and consumes at least one byte (and at least one per newline reported) of an input of fewer than usize::MAX bytes; the reader reaches Eof or an error after finitely many events (termination of from_reader's `loop` is by the input length: decreases on the unread byte budget)
//@assume inner_events / all_events: the element's event_range lies within context.events (precondition: the range comes from from_reader's links via tagify_events and set_event_range; not proved as a global invariant of the element table)
//@assume R-deref: `is_xml_blank(t)` with `t: &BytesText` is `is_xml_blank(bytes_of(t))` (quick-xml's Deref to the raw payload bytes); R-abstract: counting newlines of an event (iterator + closure) is event_lines(); the trailing-indent computation on the text (rsplit_once / trim_end_matches) is trailing_indent(); SvgElement::try_from(InputEvent) is opaque
use vstd::prelude::*;
//@prelude fmt_macro
verus! {
//@prelude std_specs qxml attrmap seqlemmas

pub enum SvgdxError { ParseError(String), DocumentError(String), Utf8(Utf8Err), Other }
pub type Result<T> = core::result::Result<T, SvgdxError>;
#[verifier::external_body] pub struct ClassList { _p: u8 }
#[verifier::external_body] pub struct OrderIndex { _p: u8 }
#[verifier::external_body] pub struct BoundingBox { _p: u8 }
#[verifier::external_body] pub struct DynBufRead { _p: u8 }

//@rewrite strlit
//@item src/element.rs :: struct SvgElement
//@end
//@item src/events.rs :: struct InputEvent
//@ replace[R-opaque-type] <<<Event<'static>>>> => <<<Event>>>
//@end
impl Clone for InputEvent { #[verifier::external_body] fn clone(&self) -> (r: Self) ensures r == *self { unimplemented!() } }
impl Clone for Event { #[verifier::external_body] fn clone(&self) -> (r: Self) ensures r == *self { unimplemented!() } }
//@item src/events.rs :: struct InputList
//@end
//@item src/events.rs :: enum Tag
//@end

/// quick_xml::Reader over the input: `budget` = bytes not yet consumed
#[verifier::external_body] pub struct XmlReader { _p: u8 }
pub uninterp spec fn nl(ev: Event) -> nat;      // newlines inside an event
impl XmlReader {
    pub uninterp spec fn budget(&self) -> nat;
    #[verifier::external_body]
    pub fn from_reader(r: &mut DynBufRead) -> (x: XmlReader) ensures x.budget() < usize::MAX { unimplemented!() }
    #[verifier::external_body]
    pub fn read_event_into(&mut self, buf: &mut Vec<u8>) -> (r: core::result::Result<Event, XmlError>)
        ensures
            final(self).budget() <= old(self).budget(),
            r is Ok && !(r->Ok_0 is Eof) ==> old(self).budget() >= final(self).budget() + 1 && old(self).budget() >= final(self).budget() + nl(r->Ok_0),
    { unimplemented!() }
}
impl Event { #[verifier::external_body] pub fn into_owned(self) -> (r: Event) ensures r == self { unimplemented!() } }
impl std::fmt::Debug for XmlError { #[verifier::external_body] fn fmt(&self, f: &mut std::fmt::Formatter<'_>) -> std::fmt::Result { unimplemented!() } }
impl Clone for XmlError { #[verifier::external_body] fn clone(&self) -> (r: Self) { unimplemented!() } }
/// R-abstract: `ok_ev.as_ref().iter().filter(|&c| *c == b'\n').count()` (0 for an Err)
#[verifier::external_body]
pub fn event_lines(ev: &core::result::Result<Event, XmlError>) -> (r: usize) ensures ev is Ok ==> r == nl(ev->Ok_0), ev is Err ==> r == 0 { unimplemented!() }
/// R-abstract: indent of the last line of a text event
#[verifier::external_body]
pub fn trailing_indent(t: &BytesText) -> (r: Result<usize>) { unimplemented!() }
#[verifier::external_body]
pub fn element_try_from(ev: InputEvent) -> (r: Result<SvgElement>) { unimplemented!() }
/// `?` on String::from_utf8
#[verifier::external_body]
pub fn utf8_string(v: Vec<u8>) -> (r: Result<String>) { unimplemented!() }

/// the start / end links of the list are in range: an End points back to an earlier Start which
/// points forward to it; every event's `index` is its position
pub open spec fn links_ok(evs: Seq<InputEvent>) -> bool {
    &&& forall|i: int| 0 <= i < evs.len() ==> (#[trigger] evs[i]).index == i
    &&& forall|i: int| 0 <= i < evs.len() && (#[trigger] evs[i]).event is End && evs[i].alt_idx is Some ==>
            evs[i].alt_idx->Some_0 < i && evs[evs[i].alt_idx->Some_0 as int].alt_idx == Some(i as usize)
    &&& forall|i: int| 0 <= i < evs.len() && (#[trigger] evs[i]).alt_idx is Some && !(evs[i].event is End) ==> i < evs[i].alt_idx->Some_0 < evs.len()
}

impl SvgElement {
//@item src/element.rs :: impl SvgElement :: fn set_event_range
//@end
}
impl InputEvent {
    /// verified in U-xmlsink (C19.content.decoded, C19.content.decoded_whenever_possible)
    #[verifier::external_body]
    pub fn text_string(&self) -> (r: Option<String>)
        ensures self.event is Text ==> (match xml_unescape(self.event->Text_0.raw()) { Some(s) => r is Some && r->Some_0@ == s, None => r is None })
    { unimplemented!() }
}
impl Tag {
//@item src/events.rs :: impl Tag :: fn set_text
//@end
}
/// white space as XML allows it between markup outside the root element: blank, tab, CR, LF
pub open spec fn xml_blank(b: Seq<u8>) -> bool { forall|i: int| 0 <= i < b.len() ==> (#[trigger] b[i] == 32u8 || b[i] == 9u8 || b[i] == 13u8 || b[i] == 10u8) }
/// quick-xml: `&BytesText` derefs to the raw payload bytes (`impl Deref<Target = [u8]> for BytesText`)
#[verifier::external_body]
pub fn bytes_of(t: &BytesText) -> (r: &[u8]) ensures r@ == t.raw() { unimplemented!() }
//@item src/events.rs :: fn is_xml_blank
//@ implicit C01
//@ ensures
//@ - r == xml_blank(bytes@)     @@C02.reader.blank_is_xml_white_space
//@ loop 1
//@ iter it
//@ invariant
//@ - forall|i: int| 0 <= i < it.index@ ==> (#[trigger] bytes@[i] == 32u8 || bytes@[i] == 9u8 || bytes@[i] == 13u8 || bytes@[i] == 10u8)     @@C02.reader.blank_is_xml_white_space
//@end

impl InputList {
//@item src/events.rs :: impl InputList :: fn len
//@ ensures
//@ - r == self.events@.len()
//@end

//@item src/events.rs :: impl InputList :: fn from_reader
//@ implicit C01
//@ replace[R-opaque-type] <<<reader: &mut dyn BufRead>>> => <<<reader: &mut DynBufRead>>>
//@ replace?[R-deref] <<<is_xml_blank(t)>>> => <<<is_xml_blank(bytes_of(t))>>>
//@ replace[R-reader] <<<let mut reader = Reader::from_reader(reader);>>> => <<<let mut reader = XmlReader::from_reader(reader);>>>
//@ cut[R-abstract] <<<            let event_lines = if let Ok(ok_ev) = ev.clone() {>>> .. <<<                0\n            };>>> => <<<            let event_lines = event_lines(&ev);>>>
//@ cut[R-abstract] <<<                    let mut t_str = String::from_utf8(t.to_vec())?;>>> .. <<<                    indent = t_str.len() - t_str.trim_end_matches(' ').len();>>> => <<<                    indent = trailing_indent(t)?;>>>
//@ replace[R-typeann] <<<let mut event_idx_stack = Vec::new();>>> => <<<let mut event_idx_stack: Vec<usize> = Vec::new();>>>
//@ replace[R-typeann] <<<let mut events = Vec::new();>>> => <<<let mut events: Vec<InputEvent> = Vec::new();>>>
//@ replace[R-typeann] <<<let mut buf = Vec::new();>>> => <<<let mut buf: Vec<u8> = Vec::new();>>>
//@ replace[R-typeann] <<<let mut src_line = 1;>>> => <<<let mut src_line: usize = 1;>>>
//@ replace[R-typeann] <<<let mut indent = 0;>>> => <<<let mut indent: usize = 0;>>>
//@ replace[R-typeann] <<<let mut index = 0;>>> => <<<let mut index: usize = 0;>>>
//@ before <<<loop {>>>
//@ | let ghost g_total = reader.budget();
//@ before <<<                    indent = trailing_indent(t)?;>>>
//@ | assert(event_idx_stack@.len() > 0 || xml_blank(t.raw())); // character data is only accepted INSIDE an element: outside the root it would be written before / after the root element (the output would not be a document); a mis-tokenised DOCTYPE tail arrives here too @C02.reader.no_text_outside_elements
//@ before <<<                Ok(e) => >>>
//@ | Ok(Event::CData(_)) if event_idx_stack.len() == 0 => { assert(false); } // a CDATA section is character data too: outside the root element it is not XML, and copied through it would precede / follow the root element @C02.reader.no_cdata_outside_elements
//@ ensures
//@ - r is Ok ==> links_ok(r->Ok_0.events@)     @@C01.reader.links_in_range
//@ loop 1
//@ invariant
//@ - events@.len() == index as nat
//@ - g_total < usize::MAX && reader.budget() <= g_total
//@ - index as nat + reader.budget() <= g_total && src_line as nat + reader.budget() <= g_total + 1
//@ - forall|k: int| 0 <= k < event_idx_stack@.len() ==> (#[trigger] event_idx_stack@[k]) < index && events@[event_idx_stack@[k] as int].event is Start && events@[event_idx_stack@[k] as int].alt_idx is None
//@ - forall|k: int, m: int| 0 <= k < m < event_idx_stack@.len() ==> event_idx_stack@[k] < event_idx_stack@[m]
//@ - forall|i: int| 0 <= i < events@.len() ==> (#[trigger] events@[i]).index == i
//@ - forall|i: int| 0 <= i < events@.len() && (#[trigger] events@[i]).event is End && events@[i].alt_idx is Some ==>
//@       events@[i].alt_idx->Some_0 < i && events@[events@[i].alt_idx->Some_0 as int].alt_idx == Some(i as usize)
//@ - forall|i: int| 0 <= i < events@.len() && (#[trigger] events@[i]).alt_idx is Some && !(events@[i].event is End) ==> i < events@[i].alt_idx->Some_0 < events@.len()
//@ - forall|i: int| 0 <= i < events@.len() && (#[trigger] events@[i]).alt_idx is Some && !(events@[i].event is End) ==> events@[i].event is Start
//@ ensures
//@ - links_ok(events@)
//@ decreases
//@ - reader.budget()     @@C01.reader.terminates
//@end
}

// ------------------------------------------------------------------------------ the events of an element (SvgElement::inner_events / all_events)
/// only the field these functions read
pub struct TransformerContext { pub events: Vec<InputEvent>, pub rest: CtxRest2 }
#[verifier::external_body] pub struct CtxRest2 { _p: u8 }
/// `InputList::from(&v[a..b])`: a copy of the events a..b (the index bound check is the obligation)
#[verifier::external_body]
pub fn list_from_range(v: &Vec<InputEvent>, a: usize, b: usize) -> (r: InputList)
    requires a <= b <= v@.len()
    ensures r.events@ == v@.subrange(a as int, b as int)
{ unimplemented!() }
impl InputList {
//@item src/events.rs :: impl InputList :: fn new
//@ ensures
//@ - r.events@.len() == 0
//@end
}
impl SvgElement {
//@item src/element.rs :: impl SvgElement :: fn inner_events
//@ implicit C01
//@ replace-re[R-range] <<<InputList::from\(&context\.events\[(.+?)\.\.(.+?)\]\)>>> => <<<list_from_range(&context.events, \1, \2)>>>
//@ requires
//@ - self.event_range is Some ==> self.event_range->Some_0.0 <= self.event_range->Some_0.1 < context.events@.len()
//@ ensures
//@ - self.event_range is Some && self.event_range->Some_0.1 > self.event_range->Some_0.0 ==> r is Some
//@       && r->Some_0.events@ == context.events@.subrange(self.event_range->Some_0.0 + 1, self.event_range->Some_0.1 as int)     @@C02.element.pair_has_inner_list @@C03.element.inner_verbatim
//@ - (self.event_range is None || self.event_range->Some_0.1 == self.event_range->Some_0.0) ==> r is None
//@end
//@item src/element.rs :: impl SvgElement :: fn all_events
//@ implicit C01
//@ body-start
//@ | let ghost_len_ = context.events.len();     // (exec call only to bring `len <= usize::MAX` into scope)
//@ replace-re[R-range] <<<InputList::from\(&context\.events\[(.+?)\.\.(.+?)\]\)>>> => <<<list_from_range(&context.events, \1, \2)>>>
//@ requires
//@ - self.event_range is Some ==> self.event_range->Some_0.0 <= self.event_range->Some_0.1 < context.events@.len()
//@ ensures
//@ - self.event_range is Some ==> r.events@ == context.events@.subrange(self.event_range->Some_0.0 as int, self.event_range->Some_0.1 + 1)     @@C03.element.all_verbatim
//@end
}

//@item src/events.rs :: fn tagify_events
//@ implicit C01
//@ replace-all[R-tryfrom] <<<SvgElement::try_from(input_ev.clone()).map_err(|_| {\n                    SvgdxError::DocumentError(format!(\n                        "could not extract element at line {}",\n                        input_ev.line\n                    ))\n                })?>>> => <<<element_try_from(input_ev.clone())?>>>
//@ replace-all[R-utf8] <<<String::from_utf8(c.to_vec())?>>> => <<<utf8_string(c.to_vec())?>>>
//@ replace[R-utf8] <<<String::from_utf8(t.to_vec())?>>> => <<<utf8_string(t.to_vec())?>>>
//@ before <<<        ev_idx += 1;>>>
//@ | let ghost g_e0 = ev_idx;
//@ before#1 <<<                if let Some(t) = tags.last_mut() {>>>
//@ | assert(xml_unescape(t.raw()) is Some ==> xml_unescape(t.raw()) == Some(text@)); // a tag's text / tail is CHARACTER DATA (it is escaped when written as OutputEvent::Text): the reader's raw text must be decoded, or `&amp;` comes out as `&amp;amp;` @C19.tag_text.decoded @C02.tag_text.escaped_once @C03.tag_text.decoded
//@ loop 1
//@ invariant
//@ - ev_idx <= events.events@.len()
//@ decreases
//@ - events.events@.len() - ev_idx     @@C01.tagify.terminates
//@ loop 2
//@ iter it
//@ invariant
//@ - g_e0 < it.snapshot.start
//@ - g_e0 < ev_idx <= events.events@.len()
//@end

} // verus!
fn main() {}
