//@unit depth
//@props C01 C17 C08 C10 C03
// U-depth: the nesting guard. `inc_depth`/`dec_depth` and the dispatcher
// `impl EventGen for SvgElement` are verified; every other generator is opaque and assumed to
// meet the trait-level contract (GroupElement, ReuseElement, SpecsElement, VarElement are
// verified against it in U-scope, the loop generators in U-loop).
use vstd::prelude::*;
//@prelude fmt_macro
verus! {
//@prelude std_specs r32

// ---- opaque types (bodies not needed by this unit) ----
#[verifier::external_body] pub struct OutputList { _p: u8 }
/// output events built by hand (in scope so that a change constructing them still translates): an arbitrary list, NOT the verbatim copy
pub enum OutputEvent { Empty(SvgElement), Start(SvgElement), End(String), Text(String) }
impl vstd::std_specs::convert::FromSpecImpl<Vec<OutputEvent>> for OutputList {
    open spec fn obeys_from_spec() -> bool { false }
    uninterp spec fn from_spec(v: Vec<OutputEvent>) -> Self;
}
impl From<Vec<OutputEvent>> for OutputList { #[verifier::external_body] fn from(v: Vec<OutputEvent>) -> (r: OutputList) { unimplemented!() } }
#[verifier::external_body] pub struct BoundingBox { _p: u8 }
impl Clone for BoundingBox { #[verifier::external_body] fn clone(&self) -> (r: Self) ensures r == *self { unimplemented!() } }
impl Copy for BoundingBox {}
#[verifier::external_body] pub struct AttrMap { _p: u8 }
#[verifier::external_body] pub struct ClassList { _p: u8 }
#[verifier::external_body] pub struct OrderIndex { _p: u8 }
#[verifier::external_body] pub struct InputEvent { _p: u8 }
#[verifier::external_body] pub struct Scope { _p: u8 }
#[verifier::external_body] pub struct RngCell { _p: u8 }
#[verifier::external_body] pub struct IoErr { _p: u8 }
#[verifier::external_body] pub struct ErrMap { _p: u8 }
#[verifier::external_body] pub struct DynErr { _p: u8 }
#[verifier::external_body] pub struct ElemTable { _p: u8 }

//@item src/types.rs :: enum ElRef
//@end
//@item src/errors.rs :: enum SvgdxError
//@ replace[R-opaque-type] <<<std::io::Error>>> => <<<IoErr>>>
//@ replace[R-opaque-type] <<<HashMap<OrderIndex, (SvgElement, SvgdxError)>>>> => <<<ErrMap>>>
//@ replace[R-opaque-type] <<<Box<dyn std::error::Error>>>> => <<<DynErr>>>
//@end
//@item src/errors.rs :: type Result
//@end
impl vstd::std_specs::convert::FromSpecImpl<&str> for SvgdxError {
    open spec fn obeys_from_spec() -> bool { false }
    uninterp spec fn from_spec(v: &str) -> Self;
}
impl From<&str> for SvgdxError {
//@item src/errors.rs :: impl From<&str> for SvgdxError :: fn from
//@ ensures
//@ - r is MessageError
//@end
}

//@item src/themes.rs :: enum ThemeType
//@end
//@rewrite f32
//@item src/lib.rs :: struct TransformConfig
//@end
//@rewrite -f32
//@item src/element.rs :: struct SvgElement
//@end
impl Clone for SvgElement {
    #[verifier::external_body]
    fn clone(&self) -> (r: Self) ensures r == *self { unimplemented!() }
}
//@item src/context.rs :: struct TransformerContext
//@ replace[R-opaque-type] <<<RefCell<Pcg32>>>> => <<<RngCell>>>
//@ replace-all[R-opaque-type] <<<HashMap<String, SvgElement>>>> => <<<ElemTable>>>
//@ replace[R-ghost] <<<    pub config: TransformConfig,>>> => <<<    pub config: TransformConfig,\n    /// ghost: the nesting depth in force at the entry of every (non-dispatcher) generator call, in order\n    pub gen_depths: Ghost<Seq<u32>>,>>>
//@end

impl SvgElement {
    // assumed: attribute lookup (AttrMap is string code, see DESIGN 1)
    #[verifier::external_body]
    pub fn get_attr(&self, key: &str) -> (r: Option<String>) ensures (match r { Some(s) => Some(s@), None => None }) == attr_spec(*self, key@) { unimplemented!() }
    #[verifier::external_body]
    pub fn has_attr(&self, key: &str) -> (r: bool) ensures r == (attr_spec(*self, key@) is Some) { unimplemented!() }
    /// R-into: `self.all_events(context).into()`
    #[verifier::external_body]
    pub fn all_events_verbatim(&self, context: &TransformerContext) -> (r: OutputList) ensures r == verbatim_events(*self, context.events@) { unimplemented!() }
}
pub uninterp spec fn attr_spec(el: SvgElement, key: Seq<char>) -> Option<Seq<char>>;
/// the element's own events, converted as they are (InputList -> OutputList, U-xmlsink)
pub uninterp spec fn verbatim_events(el: SvgElement, evs: Seq<InputEvent>) -> OutputList;
pub uninterp spec fn urlref_spec(s: Seq<char>) -> Option<ElRef>;
/// the element a `clip-path="url(#id)"` attribute names, if any
pub open spec fn clip_of(el: SvgElement) -> Option<ElRef> {
    match attr_spec(el, "clip-path"@) { Some(u) => urlref_spec(u), None => None }
}
/// dispatched to Container (an element with content that is neither a group nor a control element): returned as
/// is, its clip-path is not looked at (clip paths are honoured on groups and on single shapes)
pub open spec fn plain_container(el: SvgElement) -> bool {
    let n = el.name@;
    !(n == "loop"@ || n == "config"@ || n == "reuse"@ || n == "specs"@ || n == "var"@ || n == "if"@ || n == "defaults"@ || n == "for"@ || n == "g"@ || n == "symbol"@)
    && el.event_range is Some && el.event_range->Some_0.0 != el.event_range->Some_0.1
}
/// is an element registered under this reference (a function of the element tables)
pub uninterp spec fn known(ctx: TransformerContext, r: ElRef) -> bool;
/// R-andthen: `self.get_attr("clip-path").and_then(|url| extract_urlref(&url))`
#[verifier::external_body]
pub fn clip_ref(el: &SvgElement) -> (r: Option<ElRef>) ensures r == clip_of(*el) { unimplemented!() }
#[verifier::external_body]
pub fn extract_urlref(input: &str) -> (r: Option<ElRef>) ensures r == urlref_spec(input@) { unimplemented!() }
impl BoundingBox {
    #[verifier::external_body]
    pub fn intersect(&self, other: &BoundingBox) -> Option<BoundingBox> { unimplemented!() }
}

/// what a generator may change of the depth guard: nothing
pub open spec fn depth_frame(pre: TransformerContext, post: TransformerContext) -> bool {
    post.current_depth == pre.current_depth
}

impl TransformerContext {
//@item src/context.rs :: impl TransformerContext :: fn inc_depth
//@ ensures
//@ - final(self).config == old(self).config && final(self).gen_depths == old(self).gen_depths && final(self).events == old(self).events    @@C17.depth.inc.frame
//@ - r is Ok <==> old(self).current_depth + 1 <= old(self).config.depth_limit    @@C17.depth.exact
//@ - r is Err ==> r->Err_0 is DepthLimitExceeded    @@C17.depth.exact.kind
//@ - r is Ok ==> final(self).current_depth == old(self).current_depth + 1    @@C17.depth.inc.count
//@ - r is Err ==> final(self).current_depth == old(self).current_depth    @@C17.depth.inc.failed_unchanged
//@end

//@item src/context.rs :: impl TransformerContext :: fn dec_depth
//@ ensures
//@ - final(self).config == old(self).config && final(self).gen_depths == old(self).gen_depths && final(self).events == old(self).events    @@C17.depth.dec.frame
//@ - old(self).current_depth > 0 ==> r is Ok && final(self).current_depth == old(self).current_depth - 1   @@C17.depth.dec.count
//@ - old(self).current_depth == 0 ==> r is Err && final(self).current_depth == 0    @@C17.depth.dec.zero
//@end

    // assumed frame contracts of context functions not verified in this unit
    #[verifier::external_body]
    pub fn get_element(&self, elref: &ElRef) -> (r: Option<&SvgElement>) ensures r is Some == known(*self, *elref) { unimplemented!() }
    #[verifier::external_body]
    pub fn get_element_bbox(&self, el: &SvgElement) -> Result<Option<BoundingBox>> { unimplemented!() }
    /// (under contract in U-scope: only the content box of the registered copy changes)
    #[verifier::external_body]
    pub fn set_element_content_bbox(&mut self, el: &SvgElement, bbox: Option<BoundingBox>)
        ensures final(self).current_depth == old(self).current_depth, final(self).config == old(self).config, final(self).gen_depths == old(self).gen_depths, final(self).events == old(self).events,
            forall|r: ElRef| known(*old(self), r) == #[trigger] known(*final(self), r),
    { unimplemented!() }
    /// ghost: the element is the RESOLVED form of itself (attributes evaluated, shorthands expanded, positioned) - what the generators register
    pub uninterp spec fn resolved_form(el: SvgElement) -> bool;
    #[verifier::external_body]
    pub fn update_element(&mut self, el: &SvgElement)
        requires Self::resolved_form(*el)     // in the dispatcher `self` is the element as WRITTEN: registering it would replace the resolved copy a later <use> / inside= / reuse needs @C08.clip.registered_element_stays_resolved @C10.clip.registered_element_stays_resolved
        ensures final(self).current_depth == old(self).current_depth, final(self).config == old(self).config, final(self).gen_depths == old(self).gen_depths,
            forall|r: ElRef| known(*old(self), r) ==> #[trigger] known(*final(self), r),      // registration only adds
    { unimplemented!() }
}

pub trait EventGen {
//@item src/transform.rs :: trait EventGen :: fn generate_events
//@ ensures
//@ - final(context).current_depth == old(context).current_depth    @@C17.depth.restored @@C10.failed_tag.no_trace
//@end
}

//@item src/loop_el.rs :: struct LoopElement
//@end
//@item src/loop_el.rs :: struct ForElement
//@end
//@item src/reuse.rs :: struct ReuseElement
//@end
//@item src/transform.rs :: struct DefaultsElement
//@end
//@item src/transform.rs :: struct Container
//@end
//@item src/transform.rs :: struct OtherElement
//@end
//@item src/transform.rs :: struct GroupElement
//@end
//@item src/transform.rs :: struct ConfigElement
//@end
//@item src/transform.rs :: struct SpecsElement
//@end
//@item src/transform.rs :: struct VarElement
//@end
//@item src/transform.rs :: struct IfElement
//@end

impl EventGen for LoopElement {
//@item src/loop_el.rs :: impl EventGen for LoopElement :: fn generate_events
//@ external_body
//@ ensures
//@ - final(context).gen_depths@.len() > old(context).gen_depths@.len() && final(context).gen_depths@[old(context).gen_depths@.len() as int] == old(context).current_depth
//@ - forall|i: int| 0 <= i < old(context).gen_depths@.len() ==> final(context).gen_depths@[i] == old(context).gen_depths@[i]
//@end
}
impl EventGen for ForElement {
//@item src/loop_el.rs :: impl EventGen for ForElement :: fn generate_events
//@ external_body
//@ ensures
//@ - final(context).gen_depths@.len() > old(context).gen_depths@.len() && final(context).gen_depths@[old(context).gen_depths@.len() as int] == old(context).current_depth
//@ - forall|i: int| 0 <= i < old(context).gen_depths@.len() ==> final(context).gen_depths@[i] == old(context).gen_depths@[i]
//@end
}
impl EventGen for ReuseElement {
//@item src/reuse.rs :: impl EventGen for ReuseElement :: fn generate_events
//@ external_body
//@ ensures
//@ - final(context).gen_depths@.len() > old(context).gen_depths@.len() && final(context).gen_depths@[old(context).gen_depths@.len() as int] == old(context).current_depth
//@ - forall|i: int| 0 <= i < old(context).gen_depths@.len() ==> final(context).gen_depths@[i] == old(context).gen_depths@[i]
//@end
}
impl EventGen for DefaultsElement {
//@item src/transform.rs :: impl EventGen for DefaultsElement :: fn generate_events
//@ external_body
//@ ensures
//@ - final(context).gen_depths@.len() > old(context).gen_depths@.len() && final(context).gen_depths@[old(context).gen_depths@.len() as int] == old(context).current_depth
//@ - forall|i: int| 0 <= i < old(context).gen_depths@.len() ==> final(context).gen_depths@[i] == old(context).gen_depths@[i]
//@end
}
impl EventGen for Container {
//@item src/transform.rs :: impl EventGen for Container :: fn generate_events
//@ external_body
//@ ensures
//@ - final(context).gen_depths@.len() > old(context).gen_depths@.len() && final(context).gen_depths@[old(context).gen_depths@.len() as int] == old(context).current_depth
//@ - forall|i: int| 0 <= i < old(context).gen_depths@.len() ==> final(context).gen_depths@[i] == old(context).gen_depths@[i]
//@end
}
impl EventGen for OtherElement {
//@item src/transform.rs :: impl EventGen for OtherElement :: fn generate_events
//@ external_body
//@ ensures
//@ - final(context).gen_depths@.len() > old(context).gen_depths@.len() && final(context).gen_depths@[old(context).gen_depths@.len() as int] == old(context).current_depth
//@ - forall|i: int| 0 <= i < old(context).gen_depths@.len() ==> final(context).gen_depths@[i] == old(context).gen_depths@[i]
//@end
}
impl EventGen for GroupElement {
//@item src/transform.rs :: impl EventGen for GroupElement :: fn generate_events
//@ external_body
//@ ensures
//@ - final(context).gen_depths@.len() > old(context).gen_depths@.len() && final(context).gen_depths@[old(context).gen_depths@.len() as int] == old(context).current_depth
//@ - forall|i: int| 0 <= i < old(context).gen_depths@.len() ==> final(context).gen_depths@[i] == old(context).gen_depths@[i]
//@end
}
impl EventGen for ConfigElement {
//@item src/transform.rs :: impl EventGen for ConfigElement :: fn generate_events
//@ external_body
//@ ensures
//@ - final(context).gen_depths@.len() > old(context).gen_depths@.len() && final(context).gen_depths@[old(context).gen_depths@.len() as int] == old(context).current_depth
//@ - forall|i: int| 0 <= i < old(context).gen_depths@.len() ==> final(context).gen_depths@[i] == old(context).gen_depths@[i]
//@end
}
impl EventGen for SpecsElement {
//@item src/transform.rs :: impl EventGen for SpecsElement :: fn generate_events
//@ external_body
//@ ensures
//@ - final(context).gen_depths@.len() > old(context).gen_depths@.len() && final(context).gen_depths@[old(context).gen_depths@.len() as int] == old(context).current_depth
//@ - forall|i: int| 0 <= i < old(context).gen_depths@.len() ==> final(context).gen_depths@[i] == old(context).gen_depths@[i]
//@end
}
impl EventGen for VarElement {
//@item src/transform.rs :: impl EventGen for VarElement :: fn generate_events
//@ external_body
//@ ensures
//@ - final(context).gen_depths@.len() > old(context).gen_depths@.len() && final(context).gen_depths@[old(context).gen_depths@.len() as int] == old(context).current_depth
//@ - forall|i: int| 0 <= i < old(context).gen_depths@.len() ==> final(context).gen_depths@[i] == old(context).gen_depths@[i]
//@end
}
impl EventGen for IfElement {
//@item src/transform.rs :: impl EventGen for IfElement :: fn generate_events
//@ external_body
//@ ensures
//@ - final(context).gen_depths@.len() > old(context).gen_depths@.len() && final(context).gen_depths@[old(context).gen_depths@.len() as int] == old(context).current_depth
//@ - forall|i: int| 0 <= i < old(context).gen_depths@.len() ==> final(context).gen_depths@[i] == old(context).gen_depths@[i]
//@end
}

impl EventGen for SvgElement {
//@rewrite strlit strmatch
//@item src/transform.rs :: impl EventGen for SvgElement :: fn generate_events
//@ strlit "loop" "config" "reuse" "specs" "var" "if" "defaults" "for" "g" "symbol" "clip-path" "svg" "xmlns"
//@ replace?[R-into] <<<self.all_events(context).into()>>> => <<<self.all_events_verbatim(context)>>>
//@ replace-re[R-andthen] <<<self\.get_attr\("clip-path"\)\s*\.and_then\(\|url\| extract_urlref\(&url\)\)>>> => <<<clip_ref(self)>>>
//@ before <<<bbox = el_bbox.intersect(&clip_bbox);>>>
//@ | assert(!(self.name@ == "reuse"@)); // the box of a <reuse> is the box of what it emitted: the instance elements carry (and are clipped by) their own clip-path, a clip-path on the <reuse> itself is not copied to them @C08.clip.reuse_box_is_its_instances
//@ ensures
//@ - old(context).current_depth + 1 > old(context).config.depth_limit ==> r is Err    @@C17.depth.guard @@C01.depth.guard
//@ - final(context).gen_depths@.len() > old(context).gen_depths@.len() ==> final(context).gen_depths@[old(context).gen_depths@.len() as int] == old(context).current_depth + 1    @@C01.depth.counted_while_nested @@C17.depth.counted_while_nested
//@ - r is Ok && clip_of(*self) is Some && !known(*final(context), clip_of(*self)->Some_0) && !plain_container(*self) && !(self.name@ == "reuse"@) ==> r->Ok_0.1 is None     @@C08.clip.unknown_target_gives_no_box @@C10.clip.unknown_target_gives_no_box
//@ - self.name@ == "svg"@ && attr_spec(*self, "xmlns"@) is Some && !plain_container(*self) && clip_of(*self) is None && old(context).current_depth + 1 <= old(context).config.depth_limit ==>
//@       r is Ok && r->Ok_0.0 == verbatim_events(*self, old(context).events@) && r->Ok_0.1 is None     @@C03.nested.empty_element_verbatim
//@end
//@rewrite -strlit -strmatch
}

} // verus!
fn main() {}
