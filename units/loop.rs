//@unit loop
//@props C16 C17 C01
// U-loop: LoopElement / ForElement / IfElement against a ghost trace of observable steps.
// The context carries a ghost trace; the opaque callees append to it:
//   eval_condition -> Cond(b), set_var -> Set(name, value), process_events -> Body(events, bbox).
// The generators are proved to produce exactly the trace of the textual unrolling.
//@assume eval_condition is modelled with a `&mut` context whose only change is the ghost trace (the real function takes a shared reference)
//@assume config.loop_limit < u32::MAX on entry (precondition; C01 speaks of limits at or below their defaults)
//@assume process_events and set_var do not change config.loop_limit (no <config> element inside a loop body)
use vstd::prelude::*;
//@prelude fmt_macro
verus! {
//@prelude std_specs r32 parse

#[verifier::external_body] pub struct OutputList { _p: u8 }
#[verifier::external_body] pub struct InputList { _p: u8 }
#[verifier::external_body] pub struct OutEv { _p: u8 }
#[verifier::external_body] pub struct BoundingBox { _p: u8 }
impl Clone for BoundingBox { #[verifier::external_body] fn clone(&self) -> (r: Self) ensures r == *self { unimplemented!() } }
impl Copy for BoundingBox {}
#[verifier::external_body] pub struct BoundingBoxBuilder { _p: u8 }
#[verifier::external_body] pub struct SvgElement { _p: u8 }
#[verifier::external_body] pub struct CtxRest { _p: u8 }

pub enum SvgdxError { LoopLimitError(u32, u32), InvalidData(String), MissingAttribute(String), ParseError(String), Other }
pub type Result<T> = core::result::Result<T, SvgdxError>;
impl vstd::std_specs::convert::FromSpecImpl<core::num::ParseIntError> for SvgdxError { open spec fn obeys_from_spec() -> bool { false } uninterp spec fn from_spec(v: core::num::ParseIntError) -> Self; }
impl From<core::num::ParseIntError> for SvgdxError { #[verifier::external_body] fn from(e: core::num::ParseIntError) -> SvgdxError { unimplemented!() } }
impl vstd::std_specs::convert::FromSpecImpl<PFErr> for SvgdxError { open spec fn obeys_from_spec() -> bool { false } uninterp spec fn from_spec(v: PFErr) -> Self; }
impl From<PFErr> for SvgdxError { #[verifier::external_body] fn from(e: PFErr) -> SvgdxError { unimplemented!() } }
pub struct TransformConfig { pub loop_limit: u32 }

/// observable steps of a generator
pub enum Step {
    /// an attribute expression was evaluated (may advance the random stream)
    Eval(Seq<char>),
    Cond(bool),
    Set(Seq<char>, Seq<char>),
    Body(Seq<OutEv>, Option<BoundingBox>),
}
pub struct TransformerContext { pub config: TransformConfig, pub tr: Ghost<Seq<Step>>, pub rest: CtxRest }

pub uninterp spec fn f32_str(x: real) -> Seq<char>;
pub uninterp spec fn u32_str(x: int) -> Seq<char>;
pub uninterp spec fn union_spec(s: Seq<BoundingBox>) -> Option<BoundingBox>;

impl InputList {
    #[verifier::external_body] pub fn clone(&self) -> (r: InputList) ensures r == *self { unimplemented!() }
}
impl OutputList {
    pub uninterp spec fn view(&self) -> Seq<OutEv>;
    #[verifier::external_body] pub fn new() -> (r: OutputList) ensures r@ == Seq::<OutEv>::empty() { unimplemented!() }
    #[verifier::external_body] pub fn extend(&mut self, o: &OutputList) ensures final(self)@ == old(self)@ + o@ { unimplemented!() }
}
impl BoundingBoxBuilder {
    pub uninterp spec fn boxes(&self) -> Seq<BoundingBox>;
    #[verifier::external_body] pub fn new() -> (r: BoundingBoxBuilder) ensures r.boxes() == Seq::<BoundingBox>::empty() { unimplemented!() }
    #[verifier::external_body] pub fn extend(&mut self, b: BoundingBox) ensures final(self).boxes() == old(self).boxes().push(b) { unimplemented!() }
    #[verifier::external_body] pub fn build(self) -> (r: Option<BoundingBox>) ensures r == union_spec(self.boxes()) { unimplemented!() }
}
impl SvgElement {
    #[verifier::external_body] pub fn get_attr(&self, key: &str) -> Option<String> { unimplemented!() }
    #[verifier::external_body] pub fn inner_events(&self, context: &TransformerContext) -> Option<InputList> { unimplemented!() }
    pub uninterp spec fn name_is(&self, n: Seq<char>) -> bool;
}
impl TransformerContext {
    #[verifier::external_body]
    pub fn set_var(&mut self, name: &str, value: &str)
        ensures final(self).config == old(self).config,
                final(self).tr@ == old(self).tr@.push(Step::Set(name@, value@)),
    { unimplemented!() }
}
#[verifier::external_body]
pub fn eval_attr(value: &str, context: &mut TransformerContext) -> (r: Result<String>)
    ensures final(context).config == old(context).config,
            r is Ok ==> final(context).tr@ == old(context).tr@.push(Step::Eval(value@)),
{ unimplemented!() }
#[verifier::external_body]
pub fn eval_list(value: &str, context: &mut TransformerContext) -> (r: Result<Vec<String>>)
    ensures final(context).config == old(context).config,
            r is Ok ==> final(context).tr@ == old(context).tr@.push(Step::Eval(value@)),
{ unimplemented!() }
#[verifier::external_body]
pub fn eval_condition(value: &str, context: &mut TransformerContext) -> (r: Result<bool>)
    ensures final(context).config == old(context).config,
            r is Ok ==> final(context).tr@ == old(context).tr@.push(Step::Cond(r->Ok_0)),
{ unimplemented!() }
#[verifier::external_body]
pub fn process_events(input: InputList, context: &mut TransformerContext) -> (r: Result<(OutputList, Option<BoundingBox>)>)
    ensures final(context).config == old(context).config,
            r is Ok ==> final(context).tr@ == old(context).tr@.push(Step::Body(r->Ok_0.0@, r->Ok_0.1)),
{ unimplemented!() }

/// R-parse: stand for `str::parse::<u32>` / `str::parse::<f32>` followed by the From conversion of `?`
#[verifier::external_body]
pub fn parse_u32(s: &String) -> (r: Result<u32>) { unimplemented!() }
#[verifier::external_body]
pub fn parse_r32(s: &String) -> (r: Result<R32>) { unimplemented!() }
impl R32 {
    #[verifier::external_body]
    pub fn to_string(&self) -> (r: String) ensures r@ == f32_str(val(*self)) { unimplemented!() }
}
/// crate::types::fstr, the 3-decimal rendering used for OUTPUT attributes (in scope for the woven bodies so that a change
/// calling it still translates): a different function from the exact rendering f32_str a variable has to carry
pub uninterp spec fn fstr_str(x: real) -> Seq<char>;
#[verifier::external_body]
pub fn fstr(x: R32) -> (r: String) ensures r@ == fstr_str(val(x)) { unimplemented!() }
#[verifier::external_body]
pub fn u32_to_string(x: u32) -> (r: String) ensures r@ == u32_str(x as int) { unimplemented!() }

//@rewrite f32 strlit
//@item src/loop_el.rs :: enum LoopType
//@end
//@item src/loop_el.rs :: struct LoopDef
//@end
//@item src/loop_el.rs :: struct LoopElement
//@end
//@item src/loop_el.rs :: struct ForDef
//@end
//@item src/loop_el.rs :: struct ForElement
//@end
//@item src/transform.rs :: struct IfElement
//@end

impl LoopDef {
//@item src/loop_el.rs :: impl TryFrom<&SvgElement> for LoopDef :: fn try_from
//@ replace[R-abstract] <<<element.name != "loop">>> => <<<!element_is_loop(element)>>>
//@end
}
#[verifier::external_body]
pub fn element_is_loop(e: &SvgElement) -> bool { unimplemented!() }
impl ForDef {
//@item src/loop_el.rs :: impl TryFrom<&SvgElement> for ForDef :: fn try_from
//@end
}

// ------------------------------------------------------------------------------ unrolling specs
/// value of the loop variable in pass k: start, start+step, ... (defined by repeated addition,
/// exactly as the unrolled document would compute it)
pub open spec fn var_at(start: real, step: real, k: nat) -> real decreases k {
    if k == 0 { start } else { var_at(start, step, (k - 1) as nat) + step }
}
pub open spec fn set_step(name: Seq<char>, start: real, step: real, k: nat) -> Seq<Step> {
    if name.len() == 0 { Seq::<Step>::empty() } else { seq![Step::Set(name, f32_str(var_at(start, step, k)))] }
}
/// is `t` the trace of passes 0..n of a loop of this kind, each pass with the body result bodies[k]?
/// Repeat: [Set_k] Body_k ; While: Cond(true) [Set_k] Body_k ; Until: [Set_k] Body_k Cond(false) for a
/// non-final pass (the final pass of an until loop ends with Cond(true) and is added by the caller).
pub open spec fn passes(kind: int, name: Seq<char>, start: real, step: real, bodies: Seq<Step>, n: nat) -> Seq<Step>
    decreases n
{
    if n == 0 { Seq::<Step>::empty() } else {
        let k = (n - 1) as nat;
        passes(kind, name, start, step, bodies, k)
            + (if kind == 1 { seq![Step::Cond(true)] } else { Seq::<Step>::empty() })
            + set_step(name, start, step, k)
            + seq![bodies[k as int]]
            + (if kind == 2 { seq![Step::Cond(false)] } else { Seq::<Step>::empty() })
    }
}
pub open spec fn all_evals(h: Seq<Step>) -> bool { forall|i: int| 0 <= i < h.len() ==> (#[trigger] h[i]) is Eval }
pub open spec fn all_bodies(bodies: Seq<Step>) -> bool { forall|i: int| 0 <= i < bodies.len() ==> (#[trigger] bodies[i]) is Body }
pub open spec fn cat_events(bodies: Seq<Step>, n: nat) -> Seq<OutEv> decreases n {
    if n == 0 { Seq::<OutEv>::empty() } else { cat_events(bodies, (n - 1) as nat) + bodies[n - 1]->Body_0 }
}
pub open spec fn cat_boxes(bodies: Seq<Step>, n: nat) -> Seq<BoundingBox> decreases n {
    if n == 0 { Seq::<BoundingBox>::empty() } else {
        let p = cat_boxes(bodies, (n - 1) as nat);
        match bodies[n - 1]->Body_1 { Some(b) => p.push(b), None => p }
    }
}
pub open spec fn kind_of(t: LoopType) -> int { match t { LoopType::Repeat(_) => 0, LoopType::While(_) => 1, LoopType::Until(_) => 2 } }

pub trait EventGen {
//@item src/transform.rs :: trait EventGen :: fn generate_events
//@ requires
//@ - old(context).config.loop_limit < u32::MAX
//@ ensures
//@ - final(context).config == old(context).config
//@end
}

// ---- lemmas: the unrolling functions only look at bodies[0..n)
pub proof fn lemma_push(kind: int, name: Seq<char>, start: real, step: real, bodies: Seq<Step>, x: Step, n: nat)
    requires n <= bodies.len()
    ensures
        passes(kind, name, start, step, bodies.push(x), n) == passes(kind, name, start, step, bodies, n),
        cat_events(bodies.push(x), n) == cat_events(bodies, n),
        cat_boxes(bodies.push(x), n) == cat_boxes(bodies, n),
    decreases n
{
    if n > 0 {
        lemma_push(kind, name, start, step, bodies, x, (n - 1) as nat);
        assert(bodies.push(x)[n - 1] == bodies[n - 1]);
    }
}

/// what a loop element guarantees, in terms of its (already evaluated) header values:
/// the trace added to the context is exactly the trace of the textual unrolling
#[verifier::opaque]
pub open spec fn loop_post(kind: int, count: nat, name: Seq<char>, start: real, step: real, limit: nat,
                           pre: Seq<Step>, post: Seq<Step>, out: Seq<OutEv>, boxes: Seq<BoundingBox>) -> bool {
    exists|bodies: Seq<Step>, n: nat| #![trigger passes(kind, name, start, step, bodies, n)]
        all_bodies(bodies)
        && (kind != 2 ==> bodies.len() == n
            && out == cat_events(bodies, n) && boxes == cat_boxes(bodies, n) && n <= limit)
        && (kind == 2 ==> bodies.len() == n + 1
            && out == cat_events(bodies, n + 1) && boxes == cat_boxes(bodies, n + 1) && n + 1 <= limit)
        && (kind == 0 ==> n == count && post == pre + passes(0, name, start, step, bodies, n))
        && (kind == 1 ==> post == pre + passes(1, name, start, step, bodies, n) + seq![Step::Cond(false)])
        && (kind == 2 ==> post == pre + passes(2, name, start, step, bodies, n) + set_step(name, start, step, n) + seq![bodies[n as int], Step::Cond(true)])
}

/// one complete pass appended to the trace
pub proof fn lemma_pass(kind: int, name: Seq<char>, start: real, step: real, bodies: Seq<Step>, x: Step, n: nat,
                        pre: Seq<Step>, tr0: Seq<Step>, tr1: Seq<Step>)
    requires
        0 <= kind <= 2, bodies.len() == n, x is Body,
        tr0 == pre + passes(kind, name, start, step, bodies, n),
        tr1 == tr0 + (if kind == 1 { seq![Step::Cond(true)] } else { Seq::<Step>::empty() }) + set_step(name, start, step, n)
               + seq![x] + (if kind == 2 { seq![Step::Cond(false)] } else { Seq::<Step>::empty() }),
    ensures
        tr1 == pre + passes(kind, name, start, step, bodies.push(x), n + 1),
        cat_events(bodies.push(x), n + 1) == cat_events(bodies, n) + x->Body_0,
        cat_boxes(bodies.push(x), n + 1) == (match x->Body_1 { Some(b) => cat_boxes(bodies, n).push(b), None => cat_boxes(bodies, n) }),
{
    lemma_push(kind, name, start, step, bodies, x, n);
    assert(bodies.push(x)[n as int] == x);
    assert(tr1 =~= pre + passes(kind, name, start, step, bodies.push(x), n + 1));
}

pub proof fn lemma_exit_repeat(count: nat, name: Seq<char>, start: real, step: real, limit: nat, bodies: Seq<Step>, n: nat,
                               pre: Seq<Step>, tr: Seq<Step>, out: Seq<OutEv>, boxes: Seq<BoundingBox>)
    requires all_bodies(bodies), bodies.len() == n, n <= limit,
        n == count,   // exactly `count` passes  @C16.loop.unrolling @C17.loop.exact
        tr == pre + passes(0, name, start, step, bodies, n),   // trace is the unrolled trace  @C16.loop.unrolling @C17.loop.exact @C14.header.once
        out == cat_events(bodies, n), boxes == cat_boxes(bodies, n),
    ensures loop_post(0, count, name, start, step, limit, pre, tr, out, boxes)
{ reveal(loop_post); }

pub proof fn lemma_exit_while(count: nat, name: Seq<char>, start: real, step: real, limit: nat, bodies: Seq<Step>, n: nat,
                              pre: Seq<Step>, tr: Seq<Step>, out: Seq<OutEv>, boxes: Seq<BoundingBox>)
    requires all_bodies(bodies), bodies.len() == n, n <= limit,
        tr == (pre + passes(1, name, start, step, bodies, n)).push(Step::Cond(false)), out == cat_events(bodies, n), boxes == cat_boxes(bodies, n),
    ensures loop_post(1, count, name, start, step, limit, pre, tr, out, boxes)
{
    reveal(loop_post);
    assert(tr =~= pre + passes(1, name, start, step, bodies, n) + seq![Step::Cond(false)]);
}

pub proof fn lemma_exit_until(count: nat, name: Seq<char>, start: real, step: real, limit: nat, bodies: Seq<Step>, x: Step, n: nat,
                              pre: Seq<Step>, tr0: Seq<Step>, tr: Seq<Step>, out0: Seq<OutEv>, out: Seq<OutEv>, boxes0: Seq<BoundingBox>, boxes: Seq<BoundingBox>)
    requires all_bodies(bodies), bodies.len() == n, x is Body,
        n + 1 <= limit,   // the final pass is pass number n+1 and must be within the limit  @C17.loop.until_limit
        tr0 == pre + passes(2, name, start, step, bodies, n),
        tr == tr0 + set_step(name, start, step, n) + seq![x, Step::Cond(true)],
        out0 == cat_events(bodies, n), out == out0 + x->Body_0,
        boxes0 == cat_boxes(bodies, n), boxes == (match x->Body_1 { Some(b) => boxes0.push(b), None => boxes0 }),
    ensures loop_post(2, count, name, start, step, limit, pre, tr, out, boxes)
{
    reveal(loop_post);
    lemma_push(2, name, start, step, bodies, x, n);
    let b2 = bodies.push(x);
    assert(b2[n as int] == x);
    assert(all_bodies(b2));
    assert(tr =~= pre + passes(2, name, start, step, b2, n) + set_step(name, start, step, n) + seq![b2[n as int], Step::Cond(true)]);
}

impl EventGen for LoopElement {
//@item src/loop_el.rs :: impl EventGen for LoopElement :: fn generate_events
//@ attr #[verifier::loop_isolation(false)]
//@ attr #[verifier::allow_complex_invariants]
//@ body-start
//@ | let ghost mut g_count: nat = 0nat;
//@ after <<<eval_attr(count, context)?.parse()?;>>>
//@ | proof { g_count = loop_count as nat; }
//@ before <<<loop {>>>
//@ | let ghost g_start = val(loop_var_value);
//@ | let ghost g_step = val(loop_step);
//@ | let ghost g_kind = kind_of(loop_def.loop_type);
//@ | let ghost g_pre = context.tr@;
//@ | let ghost g_hdr = g_pre.subrange(old(context).tr@.len() as int, g_pre.len() as int);
//@ | proof { assert(g_pre =~= old(context).tr@ + g_hdr); }
//@ | let ghost mut g_bodies: Seq<Step> = Seq::empty();
//@ | let ghost g_limit = context.config.loop_limit as nat;
//@ after <<<loop {>>>
//@ | let ghost g_tr0 = context.tr@;
//@ | let ghost g_out0 = gen_events@;
//@ | let ghost g_boxes0 = bbox.boxes();
//@ before#1 <<<break;>>>
//@ | proof { lemma_exit_repeat(g_count, loop_var_name@, g_start, g_step, g_limit, g_bodies, iteration as nat, g_pre, context.tr@, gen_events@, bbox.boxes()); }
//@ before#2 <<<break;>>>
//@ | proof { lemma_exit_while(g_count, loop_var_name@, g_start, g_step, g_limit, g_bodies, iteration as nat, g_pre, context.tr@, gen_events@, bbox.boxes()); }
//@ before#3 <<<break;>>>
//@ | proof {
//@ |     let x = Step::Body(ev_list@, ev_bbox);
//@ |     assert(context.tr@ =~= g_tr0 + set_step(loop_var_name@, g_start, g_step, (iteration - 1) as nat) + seq![x, Step::Cond(true)]);
//@ |     lemma_exit_until(g_count, loop_var_name@, g_start, g_step, g_limit, g_bodies, x, (iteration - 1) as nat, g_pre, g_tr0, context.tr@, g_out0, gen_events@, g_boxes0, bbox.boxes());
//@ | }
//@ after#2 <<<                        break;\n                    }\n                }\n>>>
//@ | proof {
//@ |     let x = Step::Body(ev_list@, ev_bbox);
//@ |     assert(context.tr@ =~= g_tr0 + (if g_kind == 1 { seq![Step::Cond(true)] } else { Seq::<Step>::empty() }) + set_step(loop_var_name@, g_start, g_step, (iteration - 1) as nat)
//@ |            + seq![x] + (if g_kind == 2 { seq![Step::Cond(false)] } else { Seq::<Step>::empty() }));   // each pass adds exactly its unrolled steps @C16.loop.unrolling @C17.loop.exact @C14.header.once
//@ |     lemma_pass(g_kind, loop_var_name@, g_start, g_step, g_bodies, x, (iteration - 1) as nat, g_pre, g_tr0, context.tr@);
//@ |     g_bodies = g_bodies.push(x);
//@ | }
//@ ensures
//@ - match r { Err(_) => true, Ok((ol, bb)) =>
//@     (exists|hdr: Seq<Step>, kind: int, count: nat, name: Seq<char>, start: real, step: real, boxes: Seq<BoundingBox>|
//@       #[trigger] loop_post(kind, count, name, start, step, old(context).config.loop_limit as nat, old(context).tr@ + hdr, final(context).tr@, ol@, boxes)
//@       && all_evals(hdr) && hdr.len() <= 4 && bb == union_spec(boxes))
//@     || (final(context).tr@ == old(context).tr@ && ol@ == Seq::<OutEv>::empty()) }     @@C16.loop.unrolling @@C17.loop.exact @@C14.header.once
//@ loop 1
//@ invariant_except_break
//@ - all_bodies(g_bodies)
//@ - g_bodies.len() == iteration
//@ - iteration <= context.config.loop_limit
//@ - g_kind == 0 ==> iteration <= g_count
//@ - val(loop_var_value) == var_at(g_start, g_step, iteration as nat)
//@ - context.tr@ == g_pre + passes(g_kind, loop_var_name@, g_start, g_step, g_bodies, iteration as nat)
//@ - gen_events@ == cat_events(g_bodies, iteration as nat)
//@ - bbox.boxes() == cat_boxes(g_bodies, iteration as nat)
//@ invariant
//@ - context.config == old(context).config
//@ - context.config.loop_limit < u32::MAX
//@ - g_limit == context.config.loop_limit
//@ - g_pre == old(context).tr@ + g_hdr && all_evals(g_hdr) && g_hdr.len() <= 4
//@ - g_kind == kind_of(loop_def.loop_type)
//@ - g_step == val(loop_step)
//@ ensures
//@ - loop_post(g_kind, g_count, loop_var_name@, g_start, g_step, old(context).config.loop_limit as nat, old(context).tr@ + g_hdr, context.tr@, gen_events@, bbox.boxes())
//@ - context.config == old(context).config
//@ decreases
//@ - context.config.loop_limit - iteration     @@C01.loop.terminates
//@end
}


// ------------------------------------------------------------------------------ <for>
pub open spec fn for_passes(var: Seq<char>, idx: Option<Seq<char>>, items: Seq<Seq<char>>, bodies: Seq<Step>, n: nat) -> Seq<Step>
    decreases n
{
    if n == 0 { Seq::<Step>::empty() } else {
        let k = (n - 1) as nat;
        for_passes(var, idx, items, bodies, k)
            + seq![Step::Set(var, items[k as int])]
            + (match idx { Some(i) => seq![Step::Set(i, u32_str(k as int))], None => Seq::<Step>::empty() })
            + seq![bodies[k as int]]
    }
}
pub proof fn lemma_for_push(var: Seq<char>, idx: Option<Seq<char>>, items: Seq<Seq<char>>, bodies: Seq<Step>, x: Step, n: nat)
    requires n <= bodies.len()
    ensures for_passes(var, idx, items, bodies.push(x), n) == for_passes(var, idx, items, bodies, n)
    decreases n
{
    if n > 0 {
        lemma_for_push(var, idx, items, bodies, x, (n - 1) as nat);
        assert(bodies.push(x)[n - 1] == bodies[n - 1]);
    }
}
pub proof fn lemma_for_pass(var: Seq<char>, idx: Option<Seq<char>>, items: Seq<Seq<char>>, bodies: Seq<Step>, x: Step, n: nat,
                            pre: Seq<Step>, tr0: Seq<Step>, tr1: Seq<Step>)
    requires bodies.len() == n, x is Body, n < items.len(),
        tr0 == pre + for_passes(var, idx, items, bodies, n),
        tr1 == tr0 + seq![Step::Set(var, items[n as int])] + (match idx { Some(i) => seq![Step::Set(i, u32_str(n as int))], None => Seq::<Step>::empty() }) + seq![x],
    ensures
        tr1 == pre + for_passes(var, idx, items, bodies.push(x), n + 1),
        cat_events(bodies.push(x), n + 1) == cat_events(bodies, n) + x->Body_0,
        cat_boxes(bodies.push(x), n + 1) == (match x->Body_1 { Some(b) => cat_boxes(bodies, n).push(b), None => cat_boxes(bodies, n) }),
{
    lemma_for_push(var, idx, items, bodies, x, n);
    lemma_push(0, var, 0real, 0real, bodies, x, n);
    assert(bodies.push(x)[n as int] == x);
    assert(tr1 =~= pre + for_passes(var, idx, items, bodies.push(x), n + 1));
}
#[verifier::opaque]
pub open spec fn for_post(limit: nat, pre: Seq<Step>, post: Seq<Step>, out: Seq<OutEv>, boxes: Seq<BoundingBox>) -> bool {
    exists|var: Seq<char>, idx: Option<Seq<char>>, items: Seq<Seq<char>>, bodies: Seq<Step>| #![trigger for_passes(var, idx, items, bodies, items.len())]
        all_bodies(bodies) && bodies.len() == items.len() && items.len() <= limit
        && post == pre + for_passes(var, idx, items, bodies, items.len())
        && out == cat_events(bodies, items.len()) && boxes == cat_boxes(bodies, items.len())
}
pub proof fn lemma_for_exit(limit: nat, var: Seq<char>, idx: Option<Seq<char>>, items: Seq<Seq<char>>, bodies: Seq<Step>,
                            pre: Seq<Step>, tr: Seq<Step>, out: Seq<OutEv>, boxes: Seq<BoundingBox>)
    requires all_bodies(bodies), bodies.len() == items.len(),
        items.len() <= limit,     // every list item was rendered and their number is within the limit  @C17.for.limit
        tr == pre + for_passes(var, idx, items, bodies, items.len()), out == cat_events(bodies, items.len()), boxes == cat_boxes(bodies, items.len()),
    ensures for_post(limit, pre, tr, out, boxes)
{ reveal(for_post); }

pub open spec fn strs(v: Seq<String>) -> Seq<Seq<char>> { v.map(|i: int, s: String| s@) }
pub open spec fn opt_str(o: Option<String>) -> Option<Seq<char>> { match o { Some(s) => Some(s@), None => None } }

impl EventGen for ForElement {
//@item src/loop_el.rs :: impl EventGen for ForElement :: fn generate_events
//@ replace[R-tostring] <<<&idx.to_string()>>> => <<<&u32_to_string(idx)>>>
//@ before <<<for item in data_list {>>>
//@ | let ghost g_pre = context.tr@;
//@ | let ghost g_hdr = g_pre.subrange(old(context).tr@.len() as int, g_pre.len() as int);
//@ | proof { assert(g_pre =~= old(context).tr@ + g_hdr); }
//@ | let ghost g_list = data_list@;
//@ | let ghost g_items = strs(data_list@);
//@ | let ghost g_var = for_def.var_name@;
//@ | let ghost g_idx = opt_str(idx_name);
//@ | let ghost mut g_bodies: Seq<Step> = Seq::empty();
//@ | let ghost g_limit = context.config.loop_limit as nat;
//@ after <<<for item in data_list {>>>
//@ | let ghost g_tr0 = context.tr@;
//@ before <<<gen_events.extend(&ev_list);>>>
//@ | proof {
//@ |     let x = Step::Body(ev_list@, ev_bbox);
//@ |     assert(item == g_list[idx as int]);
//@ |     assert(item@ == g_items[idx as int]);
//@ |     assert(context.tr@ =~= g_tr0 + seq![Step::Set(g_var, g_items[idx as int])]
//@ |            + (match g_idx { Some(i) => seq![Step::Set(i, u32_str(idx as int))], None => Seq::<Step>::empty() }) + seq![x]);
//@ |     lemma_for_pass(g_var, g_idx, g_items, g_bodies, x, idx as nat, g_pre, g_tr0, context.tr@);
//@ |     g_bodies = g_bodies.push(x);
//@ | }
//@ before <<<Ok((gen_events, bbox.build()))>>>
//@ | proof {
//@ |     lemma_for_exit(old(context).config.loop_limit as nat, g_var, g_idx, g_items, g_bodies, old(context).tr@ + g_hdr, context.tr@, gen_events@, bbox.boxes());
//@ |     // solver nudge: name the result term so its tuple projection is available
//@ |     let t: Result<(OutputList, Option<BoundingBox>)> = Ok((gen_events, union_spec(bbox.boxes()))); assert(t->Ok_0.0 == gen_events);
//@ | }
//@ ensures
//@ - match r { Err(_) => true, Ok((ol, bb)) =>
//@     exists|hdr: Seq<Step>, boxes: Seq<BoundingBox>| #[trigger] for_post(old(context).config.loop_limit as nat, old(context).tr@ + hdr, final(context).tr@, ol@, boxes)
//@       && all_evals(hdr) && hdr.len() == 1 && bb == union_spec(boxes) }     @@C16.for.unrolling @@C17.for.exact
//@ loop 1
//@ iter it
//@ invariant
//@ - context.config == old(context).config
//@ - context.config.loop_limit < u32::MAX
//@ - g_limit == context.config.loop_limit
//@ - g_pre == old(context).tr@ + g_hdr && all_evals(g_hdr) && g_hdr.len() == 1
//@ - g_idx == opt_str(idx_name)
//@ - g_var == for_def.var_name@
//@ - idx == it.index@
//@ - g_list == it.history@ + vstd::std_specs::iter::IteratorSpec::remaining(&it.iter)
//@ - g_items == strs(g_list)
//@ - idx <= context.config.loop_limit
//@ - all_bodies(g_bodies)
//@ - g_bodies.len() == idx
//@ - context.tr@ == g_pre + for_passes(g_var, g_idx, g_items, g_bodies, idx as nat)
//@ - gen_events@ == cat_events(g_bodies, idx as nat)
//@ - bbox.boxes() == cat_boxes(g_bodies, idx as nat)
//@end
}

// ------------------------------------------------------------------------------ <if>
impl EventGen for IfElement {
//@item src/transform.rs :: impl EventGen for IfElement :: fn generate_events
//@ ensures
//@ - match r { Err(_) => true, Ok((ol, bb)) =>
//@       final(context).tr@ == old(context).tr@.push(Step::Cond(true)).push(Step::Body(ol@, bb))
//@    || (final(context).tr@ == old(context).tr@.push(Step::Cond(false)) && ol@ == Seq::<OutEv>::empty() && bb is None)
//@    || (final(context).tr@ == old(context).tr@ && ol@ == Seq::<OutEv>::empty() && bb is None) }     @@C16.if
//@end
}

} // verus!
fn main() {}
