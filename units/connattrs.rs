//@unit connattrs
//@props C13
// U-connattrs: a connector's own attributes never reach the output (src/element.rs transmute, the
// connector block; src/connector.rs from_element, the attribute-consuming prologue): start, end and
// corner-offset are consumed when the connector is built, edge-type is removed from the rendered
// element, and the rendered element carries nothing but the drawn geometry plus what the source
// element had left.
//@assume SvgElement::without_attr removes exactly the named attribute; Connector::render returns an element whose attribute names are those of the connector's source element plus x1 y1 x2 y2 / points (SvgElement::new + with_attrs_from iterate the attribute map: not translated); Connector::from_element stores as source element the element it consumed the attributes from (its prologue is the verified fragment pop_refs)
use vstd::prelude::*;
//@prelude fmt_macro
verus! {
//@prelude std_specs r32 attrmap

pub enum SvgdxError { InvalidData(String), MissingAttribute(String), ParseError(String), Other }
pub type Result<T> = core::result::Result<T, SvgdxError>;
#[verifier::external_body] pub struct ClassList { _p: u8 }
#[verifier::external_body] pub struct OrderIndex { _p: u8 }
#[verifier::external_body] pub struct Ctx { _p: u8 }
#[verifier::external_body] pub struct Length { _p: u8 }
pub struct BoundingBox { pub x1: R32, pub y1: R32, pub x2: R32, pub y2: R32 }
pub enum ConnectionType { Horizontal, Vertical, Corner, Straight }

//@rewrite f32 strlit strmatch
//@item src/element.rs :: struct SvgElement
//@end
impl Clone for SvgElement { #[verifier::external_body] fn clone(&self) -> (r: Self) ensures r == *self { unimplemented!() } }
pub type M = Map<Seq<char>, Seq<char>>;
pub open spec fn geometry_key(k: Seq<char>) -> bool { k == "x1"@ || k == "y1"@ || k == "x2"@ || k == "y2"@ || k == "points"@ }

#[verifier::external_body] pub struct Connector { _p: u8 }
impl Connector {
    pub uninterp spec fn source_attrs(&self) -> M;
    #[verifier::external_body]
    pub fn from_element(element: &SvgElement, ctx: &Ctx, conn_type: ConnectionType) -> (r: Result<Connector>)
        ensures r is Ok ==> r->Ok_0.source_attrs() == element.attrs@.remove("start"@).remove("end"@).remove("corner-offset"@)
    { unimplemented!() }
    #[verifier::external_body]
    pub fn render(&self, ctx: &Ctx) -> (r: Result<SvgElement>)
        ensures r is Ok ==> forall|k: Seq<char>| #[trigger] r->Ok_0.attrs@.dom().contains(k) ==> self.source_attrs().dom().contains(k) || geometry_key(k)
    { unimplemented!() }
}
impl ConnectionType {
    #[verifier::external_body] pub fn from_str(s: &str) -> ConnectionType { unimplemented!() }
}
#[verifier::external_body]
pub fn strp_length(s: &String) -> Result<Length> { unimplemented!() }

impl SvgElement {
//@item src/element.rs :: impl SvgElement :: fn get_attr
//@ replace[R-optmap] <<<self.attrs.get(key).map(|x| x.to_owned())>>> => <<<match self.attrs.get(key) { Some(x) => Some(x.clone()), None => None }>>>
//@ ensures
//@ - opt_sv(r) == map_get(self.attrs@, key@)
//@end
//@item src/element.rs :: impl SvgElement :: fn has_attr
//@ ensures
//@ - r == self.attrs@.dom().contains(key@)
//@end
//@item src/element.rs :: impl SvgElement :: fn pop_attr
//@ ensures
//@ - opt_sv(r) == map_get(old(self).attrs@, key@)
//@ - final(self).attrs@ == old(self).attrs@.remove(key@) && final(self).name == old(self).name
//@end
//@item src/element.rs :: impl SvgElement :: fn is_connector
//@ ensures
//@ - r == (self.attrs@.dom().contains("start"@) && self.attrs@.dom().contains("end"@) && (self.name@ == "line"@ || self.name@ == "polyline"@))     @@C13.connector.detected
//@end
    /// assumed (clone + filter over the attribute pairs: iterator closure, not translated)
    #[verifier::external_body]
    pub fn without_attr(&self, key: &str) -> (r: SvgElement) ensures r.attrs@ == self.attrs@.remove(key@), r.name == self.name { unimplemented!() }

// the connector block of transmute
//@item src/element.rs :: impl SvgElement :: fn transmute
//@ strlit "start" "end" "edge-type" "corner-offset" "x1" "y1" "x2" "y2" "points" "line" "polyline"
//@ fragment-name connector_block
//@ fragment-from <<<        if self.is_connector() {>>>
//@ fragment-to <<<                    "Cannot create connector".to_owned(),\n                ));\n            }\n        }>>>
//@ fragment-head <<<fn connector_block(&mut self, ctx: &Ctx) -> Result<()> {>>>
//@ fragment-tail <<<        Ok(())\n}>>>
//@ ensures
//@ - r is Ok && old(self).attrs@.dom().contains("start"@) && old(self).attrs@.dom().contains("end"@) && (old(self).name@ == "line"@ || old(self).name@ == "polyline"@) ==>
//@       !final(self).attrs@.dom().contains("start"@) && !final(self).attrs@.dom().contains("end"@)
//@       && !final(self).attrs@.dom().contains("edge-type"@) && !final(self).attrs@.dom().contains("corner-offset"@)     @@C13.attrs.removed
//@ - !(old(self).attrs@.dom().contains("start"@) && old(self).attrs@.dom().contains("end"@) && (old(self).name@ == "line"@ || old(self).name@ == "polyline"@)) ==> *final(self) == *old(self) && r is Ok     @@C13.connector.others_untouched
//@end
}

// the prologue of Connector::from_element: the attributes it consumes from (a copy of) the element
//@item src/connector.rs :: impl Connector :: fn from_element
//@ strlit "start" "end" "corner-offset"
//@ fragment-name pop_refs
//@ fragment-from <<<        let mut element = element.clone();>>>
//@ fragment-to <<<            None\n        };>>>
//@ fragment-head <<<fn pop_refs(element: &SvgElement) -> Result<(SvgElement, String, String, Option<Length>)> {>>>
//@ fragment-tail <<<        Ok((element, start_ref, end_ref, offset))\n}>>>
//@ cut[R-abstract] <<<                strp_length(&o_inner)>>> .. <<<"Invalid corner-offset".to_owned()))?,>>> => <<<                strp_length(&o_inner)?,>>>
//@ ensures
//@ - r is Ok ==> r->Ok_0.0.attrs@ == element.attrs@.remove("start"@).remove("end"@).remove("corner-offset"@)     @@C13.attrs.consumed
//@ - r is Ok ==> element.attrs@.dom().contains("start"@) && element.attrs@.dom().contains("end"@) && r->Ok_0.1@ == element.attrs@["start"@] && r->Ok_0.2@ == element.attrs@["end"@]     @@C13.attrs.refs_read
//@ - !(element.attrs@.dom().contains("start"@) && element.attrs@.dom().contains("end"@)) ==> r is Err
//@end

} // verus!
fn main() {}
