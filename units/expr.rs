//@unit expr
//@props C14 C01
// U-expr: the recursive-descent evaluator of src/expression.rs against a denotational semantics
// of the token sequence written from the property statement: `* / %` fold left over primaries,
// `+ -` fold left over factors, one optional comparison yielding 0/1, `and/or/xor` fold left without
// short-circuit, unary minus binds tightest, parentheses must close, comma lists flatten, all tokens
// must be consumed. Every level is proved EQUAL to its spec function (value and position), hence
// precedence and associativity hold for every token sequence; termination by a lexicographic measure.
//@assume lookup / element_ref / eval_function are deterministic: results are uninterpreted functions of (context, checked variables, name) resp. (token position, function, arguments); eval_function leaves the token cursor alone. Random functions are covered by the position argument (each position is evaluated at most once per parse).
//@assume ExprValue::one_number / flatten meet as_num / flatten_spec (slice patterns and recursive Vec code not translated)
//@assume R-parse: `s.parse::<T>()` is `T::from_str(s)`; R-optmap-mut: `opt.map(|v| { self.index += 1; v.clone() })` is the equivalent match
use vstd::prelude::*;
//@prelude fmt_macro
verus! {
//@prelude std_specs r32

pub enum SvgdxError { ParseError(String), Other }
pub type Result<T> = core::result::Result<T, SvgdxError>;
#[verifier::external_body] pub struct Ctx { _p: u8 }
#[verifier::external_body] pub struct Function { _p: u8 }

//@rewrite f32 strlit strmatch
//@item src/expression.rs :: enum ExprValue
//@end
//@item src/expression.rs :: enum ComparisonOp
//@ keep-derive Clone Copy
//@end
//@item src/expression.rs :: enum LogicalOp
//@ keep-derive Clone Copy
//@end
//@item src/expression.rs :: enum Token
//@end
impl Clone for Token { #[verifier::external_body] fn clone(&self) -> (r: Self) ensures r == *self { unimplemented!() } }
impl vstd::std_specs::convert::FromSpecImpl<bool> for ExprValue {
    open spec fn obeys_from_spec() -> bool { true }
    open spec fn from_spec(v: bool) -> Self { ExprValue::Number(mk(b2r(v))) }
}
impl From<bool> for ExprValue {
//@item src/expression.rs :: impl From<bool> for ExprValue :: fn from
//@ ensures
//@ - r == ExprValue::Number(mk(b2r(v)))     @@C14.bool.zero_one
//@end
}
impl vstd::std_specs::convert::FromSpecImpl<R32> for ExprValue {
    open spec fn obeys_from_spec() -> bool { true }
    open spec fn from_spec(v: R32) -> Self { ExprValue::Number(v) }
}
impl From<R32> for ExprValue {
//@item src/expression.rs :: impl From<f32> for ExprValue :: fn from
//@ ensures
//@ - r == ExprValue::Number(v)
//@end
}
impl vstd::std_specs::convert::FromSpecImpl<Vec<ExprValue>> for ExprValue {
    open spec fn obeys_from_spec() -> bool { true }
    open spec fn from_spec(v: Vec<ExprValue>) -> Self { ExprValue::List(v) }
}
impl From<Vec<ExprValue>> for ExprValue {
//@item src/expression.rs :: impl From<Vec<ExprValue>> for ExprValue :: fn from
//@ ensures
//@ - r == ExprValue::List(v)
//@end
}
//@item src/expression.rs :: struct EvalState
//@ replace[R-opaque-type] <<<&'a dyn ContextView>>> => <<<&'a Ctx>>>
//@end

// ------------------------------------------------------------------------------ assumed leaves
pub open spec fn b2r(b: bool) -> real { if b { 1real } else { 0real } }
/// spec-level value: a scalar value, or a list given by its elements (the identity of the Vec
/// holding a list is irrelevant)
pub enum SV { V(ExprValue), L(Seq<ExprValue>) }
pub open spec fn sv_of(e: ExprValue) -> SV { match e { ExprValue::List(l) => SV::L(l@), _ => SV::V(e) } }
/// the numeric reading of a value: a number, or a list holding exactly one number
pub open spec fn as_num(v: SV) -> Option<real> {
    match v {
        SV::V(ExprValue::Number(x)) => Some(val(x)),
        SV::L(l) => if l.len() == 1 && l[0] is Number { Some(val(l[0]->Number_0)) } else { None },
        _ => None,
    }
}
pub uninterp spec fn flatten_seq(l: Seq<ExprValue>) -> Seq<ExprValue>;
pub open spec fn flatten_sv(v: SV) -> Seq<ExprValue> { match v { SV::V(e) => seq![e], SV::L(l) => flatten_seq(l) } }
pub uninterp spec fn lookup_spec(ctx: Ctx, checked: Seq<String>, depth: nat, name: Seq<char>) -> Option<SV>;
pub uninterp spec fn elref_spec(ctx: Ctx, name: Seq<char>) -> Option<SV>;
pub uninterp spec fn parse_fn(name: Seq<char>) -> Option<Function>;
pub uninterp spec fn fn_oracle(ctx: Ctx, pos: int, fun: Function, args: SV) -> Option<SV>;
pub uninterp spec fn rrem_euclid(a: real, b: real) -> real;
pub uninterp spec fn rrem_trunc(a: real, b: real) -> real;

impl R32 {
    /// f32::rem_euclid: assumed non-negative for a non-zero divisor (exact in the real model)
    #[verifier::external_body]
    pub fn rem_euclid(self, rhs: R32) -> (r: R32)
        ensures val(r) == rrem_euclid(val(self), val(rhs)), val(rhs) != 0real ==> 0real <= val(r) < rabs(val(rhs)),
    { unimplemented!() }
}
impl vstd::std_specs::ops::RemSpecImpl<R32> for R32 {
    open spec fn obeys_rem_spec() -> bool { true }
    open spec fn rem_req(self, rhs: R32) -> bool { true }
    open spec fn rem_spec(self, rhs: R32) -> R32 { mk(rrem_trunc(val(self), val(rhs))) }
}
impl std::ops::Rem<R32> for R32 { type Output = R32; #[verifier::external_body] fn rem(self, rhs: R32) -> R32 { unimplemented!() } }
#[verifier::external_body]
pub fn r32_from_bool(b: bool) -> (r: R32) ensures val(r) == b2r(b) { unimplemented!() }

impl ExprValue {
    #[verifier::external_body]
    pub fn one_number(&self) -> (r: Result<R32>)
        ensures (match as_num(sv_of(*self)) { Some(x) => r is Ok && val(r->Ok_0) == x, None => r is Err })
    { unimplemented!() }
    #[verifier::external_body]
    pub fn flatten(&self) -> (r: Vec<ExprValue>) ensures r@ == flatten_sv(sv_of(*self)) { unimplemented!() }
}
impl Function {
    #[verifier::external_body]
    pub fn from_str(s: &str) -> (r: Result<Function>)
        ensures (match parse_fn(s@) { Some(f) => r == Ok::<Function, SvgdxError>(f), None => r is Err })
    { unimplemented!() }
}
#[verifier::external_body]
pub fn eval_function(fun: Function, args: &ExprValue, eval_state: &mut EvalState) -> (r: Result<ExprValue>)
    ensures *final(eval_state) == *old(eval_state),
        (match fn_oracle(*old(eval_state).context, old(eval_state).index as int, fun, sv_of(*args)) { Some(e) => r is Ok && sv_of(r->Ok_0) == e, None => r is Err }),
{ unimplemented!() }
#[verifier::external_body]
pub fn tok_is(a: Option<&Token>, b: &Token) -> (r: bool) ensures r == (a is Some && *a->Some_0 == *b) { unimplemented!() }
#[verifier::external_body]
pub fn vec_extend(out: &mut Vec<ExprValue>, more: Vec<ExprValue>) ensures final(out)@ == old(out)@ + more@ { unimplemented!() }

// ------------------------------------------------------------------------------ the semantics
pub open spec fn cmp_op(s: Seq<char>) -> Option<ComparisonOp> {
    if s == "eq"@ { Some(ComparisonOp::Eq) } else if s == "ne"@ { Some(ComparisonOp::Ne) } else if s == "gt"@ { Some(ComparisonOp::Gt) }
    else if s == "ge"@ { Some(ComparisonOp::Ge) } else if s == "lt"@ { Some(ComparisonOp::Lt) } else if s == "le"@ { Some(ComparisonOp::Le) } else { None }
}
pub open spec fn log_op(s: Seq<char>) -> Option<LogicalOp> {
    if s == "and"@ { Some(LogicalOp::And) } else if s == "or"@ { Some(LogicalOp::Or) } else if s == "xor"@ { Some(LogicalOp::Xor) } else { None }
}
pub open spec fn cmp(op: ComparisonOp, a: real, b: real) -> bool {
    match op { ComparisonOp::Eq => a == b, ComparisonOp::Ne => a != b, ComparisonOp::Gt => a > b,
               ComparisonOp::Ge => a >= b, ComparisonOp::Lt => a < b, ComparisonOp::Le => a <= b }
}
pub open spec fn logic(op: LogicalOp, a: bool, b: bool) -> bool {
    match op { LogicalOp::And => a && b, LogicalOp::Or => a || b, LogicalOp::Xor => a != b }
}
pub open spec fn num(x: real) -> SV { SV::V(ExprValue::Number(mk(x))) }

pub struct Env { pub ctx: Ctx, pub checked: Seq<String>, pub depth: nat }
/// src/expression.rs: `const MAX_EVAL_DEPTH: usize = 100;` (pinned by the //@item below)
pub open spec fn max_depth() -> nat { MAX_EVAL_DEPTH as nat }
pub open spec fn deeper(env: Env) -> Env { Env { depth: env.depth + 1, ..env } }
pub type SRes = Option<(SV, int)>;

// measure: (tokens left, rank). ranks: primary_inner 0 < primary 1 < fold_factor 2 < factor 3 < fold_term 4 < term 5 < comparison 6
//          < fold_logical 7 < logical 8 < fold_list 9 < expr_list 10
#[verifier::opaque]
pub open spec fn s_primary_inner(t: Seq<Token>, i: int, env: Env) -> SRes
    decreases t.len() - i, 0int
{
    if i < 0 || i >= t.len() { None } else {
        match t[i] {
            Token::Number(x) => Some((SV::V(ExprValue::Number(x)), i + 1)),
            Token::String(s) => Some((SV::V(ExprValue::String(s)), i + 1)),
            Token::Var(v) => match lookup_spec(env.ctx, env.checked, env.depth, v@) { Some(e) => Some((e, i + 1)), None => None },
            Token::ElementRef(v) => match elref_spec(env.ctx, v@) { Some(e) => Some((e, i + 1)), None => None },
            Token::OpenParen => match s_expr_list(t, i + 1, env) {
                Some((e, j)) => if j < t.len() && t[j] is CloseParen { Some((e, j + 1)) } else { None },
                None => None },
            // unary minus binds tighter than any binary operator: it applies to the next PRIMARY
            Token::Sub => match s_primary(t, i + 1, env) {
                Some((v, j)) => match as_num(v) { Some(x) => Some((num(0real - x), j)), None => None },
                None => None },
            Token::Symbol(f) => match parse_fn(f@) {
                Some(fun) => if i + 1 < t.len() && t[i + 1] is OpenParen {
                    match s_expr_list(t, i + 2, env) {
                        Some((args, j)) => match fn_oracle(env.ctx, j, fun, args) {
                            Some(e) => if j < t.len() && t[j] is CloseParen { Some((e, j + 1)) } else { None },
                            None => None },
                        None => None }
                } else { None },
                None => None },
            _ => None,
        }
    }
}
/// every primary is one nesting level: beyond MAX_EVAL_DEPTH levels (parentheses, unary minus, function
/// calls, and variable references, which carry the depth into the nested evaluation) it is an error
#[verifier::opaque]
pub open spec fn s_primary(t: Seq<Token>, i: int, env: Env) -> SRes
    decreases t.len() - i, 1int
{
    if env.depth >= max_depth() { None } else { s_primary_inner(t, i, deeper(env)) }
}
/// `* / %` left to right over primaries; `%` is the Euclidean (non-negative) remainder
#[verifier::opaque]
pub open spec fn fold_factor(t: Seq<Token>, i: int, acc: real, env: Env) -> SRes
    decreases t.len() - i, 2int
{
    if 0 <= i < t.len() && (t[i] is Mul || t[i] is Div || t[i] is Mod) {
        match s_primary(t, i + 1, env) {
            Some((v, j)) => match as_num(v) {
                Some(x) => if i < j <= t.len() { fold_factor(t, j, if t[i] is Mul { acc * x } else if t[i] is Div { rdiv(acc, x) } else { rrem_euclid(acc, x) }, env) } else { None },
                None => None },
            None => None }
    } else { Some((num(acc), i)) }
}
#[verifier::opaque]
pub open spec fn s_factor(t: Seq<Token>, i: int, env: Env) -> SRes
    decreases t.len() - i, 3int
{
    match s_primary(t, i, env) {
        Some((f, j)) => match as_num(f) { Some(e) => if i < j <= t.len() { fold_factor(t, j, e, env) } else { None }, None => Some((f, j)) },
        None => None }
}
/// `+ -` left to right over factors (so `* / %` bind tighter)
#[verifier::opaque]
pub open spec fn fold_term(t: Seq<Token>, i: int, acc: real, env: Env) -> SRes
    decreases t.len() - i, 4int
{
    if 0 <= i < t.len() && (t[i] is Add || t[i] is Sub) {
        match s_factor(t, i + 1, env) {
            Some((v, j)) => match as_num(v) {
                Some(x) => if i < j <= t.len() { fold_term(t, j, if t[i] is Add { acc + x } else { acc - x }, env) } else { None },
                None => None },
            None => None }
    } else { Some((num(acc), i)) }
}
#[verifier::opaque]
pub open spec fn s_term(t: Seq<Token>, i: int, env: Env) -> SRes
    decreases t.len() - i, 5int
{
    match s_factor(t, i, env) {
        Some((f, j)) => match as_num(f) { Some(e) => if i < j <= t.len() { fold_term(t, j, e, env) } else { None }, None => Some((f, j)) },
        None => None }
}
/// comparisons associate left to right like every other binary operator ("left-to-right associativity"):
/// `3 gt 2 gt 0` is `(3 gt 2) gt 0`; each one yields exactly 0 or 1
#[verifier::opaque]
pub open spec fn fold_comparison(t: Seq<Token>, i: int, first: real, env: Env) -> SRes
    decreases t.len() - i, 6int
{
    if 0 <= i < t.len() && t[i] is Symbol && cmp_op(t[i]->Symbol_0@) is Some {
        match s_term(t, i + 1, env) {
            Some((u, k)) => match as_num(u) {
                Some(second) => if i < k <= t.len() { fold_comparison(t, k, b2r(cmp(cmp_op(t[i]->Symbol_0@)->Some_0, first, second)), env) } else { None },
                None => None },
            None => None }
    } else { Some((num(first), i)) }
}
#[verifier::opaque]
pub open spec fn s_comparison(t: Seq<Token>, i: int, env: Env) -> SRes
    decreases t.len() - i, 7int
{
    match s_term(t, i, env) {
        Some((v, j)) => match as_num(v) {
            None => Some((v, j)),
            Some(first) => if i < j <= t.len() { fold_comparison(t, j, first, env) } else { None } },
        None => None }
}
/// `and or xor` left to right on truthiness, both operands always evaluated
#[verifier::opaque]
pub open spec fn fold_logical(t: Seq<Token>, i: int, e: SV, env: Env) -> SRes
    decreases t.len() - i, 7int
{
    if 0 <= i < t.len() && t[i] is Symbol && log_op(t[i]->Symbol_0@) is Some {
        match s_comparison(t, i + 1, env) {
            Some((v, j)) => match (as_num(v), as_num(e)) {
                (Some(o), Some(a)) => if i < j <= t.len() { fold_logical(t, j, num(b2r(logic(log_op(t[i]->Symbol_0@)->Some_0, a != 0real, o != 0real))), env) } else { None },
                _ => None },
            None => None }
    } else { Some((e, i)) }
}
#[verifier::opaque]
pub open spec fn s_logical(t: Seq<Token>, i: int, env: Env) -> SRes
    decreases t.len() - i, 8int
{
    match s_comparison(t, i, env) {
        Some((e, j)) => if i < j <= t.len() { fold_logical(t, j, e, env) } else { None },
        None => None }
}
/// comma separated expressions, flattened into one list
#[verifier::opaque]
pub open spec fn fold_list(t: Seq<Token>, i: int, out: Seq<ExprValue>, env: Env) -> SRes
    decreases t.len() - i, 9int
{
    match s_logical(t, i, env) {
        Some((e, j)) => {
            let out2 = out + flatten_sv(e);
            if j > i && j < t.len() && t[j] is Comma { fold_list(t, j + 1, out2, env) }
            else { Some((SV::L(out2), j)) } },
        None => None }
}
#[verifier::opaque]
pub open spec fn s_expr_list(t: Seq<Token>, i: int, env: Env) -> SRes
    decreases t.len() - i, 10int
{
    if 0 < i < t.len() && t[i - 1] is OpenParen && t[i] is CloseParen { Some((SV::L(Seq::empty()), i)) }
    else { fold_list(t, i, Seq::empty(), env) }
}


// definition lemmas: one unfolding of each (opaque) semantic function at chosen arguments
pub proof fn def_s_primary_inner(t: Seq<Token>, i: int, env: Env)
    ensures s_primary_inner(t, i, env) == ({
    if i < 0 || i >= t.len() { None } else {
        match t[i] {
            Token::Number(x) => Some((SV::V(ExprValue::Number(x)), i + 1)),
            Token::String(s) => Some((SV::V(ExprValue::String(s)), i + 1)),
            Token::Var(v) => match lookup_spec(env.ctx, env.checked, env.depth, v@) { Some(e) => Some((e, i + 1)), None => None },
            Token::ElementRef(v) => match elref_spec(env.ctx, v@) { Some(e) => Some((e, i + 1)), None => None },
            Token::OpenParen => match s_expr_list(t, i + 1, env) {
                Some((e, j)) => if j < t.len() && t[j] is CloseParen { Some((e, j + 1)) } else { None },
                None => None },
            // unary minus binds tighter than any binary operator: it applies to the next PRIMARY
            Token::Sub => match s_primary(t, i + 1, env) {
                Some((v, j)) => match as_num(v) { Some(x) => Some((num(0real - x), j)), None => None },
                None => None },
            Token::Symbol(f) => match parse_fn(f@) {
                Some(fun) => if i + 1 < t.len() && t[i + 1] is OpenParen {
                    match s_expr_list(t, i + 2, env) {
                        Some((args, j)) => match fn_oracle(env.ctx, j, fun, args) {
                            Some(e) => if j < t.len() && t[j] is CloseParen { Some((e, j + 1)) } else { None },
                            None => None },
                        None => None }
                } else { None },
                None => None },
            _ => None,
        }
    }
    })
{ reveal(s_primary); reveal(s_primary_inner); reveal(fold_factor); reveal(s_factor); reveal(fold_term); reveal(s_term); reveal(fold_comparison); reveal(s_comparison); reveal(fold_logical); reveal(s_logical); reveal(fold_list); reveal(s_expr_list); }

pub proof fn def_s_primary(t: Seq<Token>, i: int, env: Env)
    ensures s_primary(t, i, env) == (if env.depth >= max_depth() { None } else { s_primary_inner(t, i, deeper(env)) })
{ reveal(s_primary); reveal(s_primary_inner); reveal(fold_factor); reveal(s_factor); reveal(fold_term); reveal(s_term); reveal(fold_comparison); reveal(s_comparison); reveal(fold_logical); reveal(s_logical); reveal(fold_list); reveal(s_expr_list); }

pub proof fn def_fold_factor(t: Seq<Token>, i: int, acc: real, env: Env)
    ensures fold_factor(t, i, acc, env) == ({
    if 0 <= i < t.len() && (t[i] is Mul || t[i] is Div || t[i] is Mod) {
        match s_primary(t, i + 1, env) {
            Some((v, j)) => match as_num(v) {
                Some(x) => if i < j <= t.len() { fold_factor(t, j, if t[i] is Mul { acc * x } else if t[i] is Div { rdiv(acc, x) } else { rrem_euclid(acc, x) }, env) } else { None },
                None => None },
            None => None }
    } else { Some((num(acc), i)) }
    })
{ reveal(s_primary); reveal(s_primary_inner); reveal(fold_factor); reveal(s_factor); reveal(fold_term); reveal(s_term); reveal(fold_comparison); reveal(s_comparison); reveal(fold_logical); reveal(s_logical); reveal(fold_list); reveal(s_expr_list); }

pub proof fn def_s_factor(t: Seq<Token>, i: int, env: Env)
    ensures s_factor(t, i, env) == ({
    match s_primary(t, i, env) {
        Some((f, j)) => match as_num(f) { Some(e) => if i < j <= t.len() { fold_factor(t, j, e, env) } else { None }, None => Some((f, j)) },
        None => None }
    })
{ reveal(s_primary); reveal(s_primary_inner); reveal(fold_factor); reveal(s_factor); reveal(fold_term); reveal(s_term); reveal(fold_comparison); reveal(s_comparison); reveal(fold_logical); reveal(s_logical); reveal(fold_list); reveal(s_expr_list); }

pub proof fn def_fold_term(t: Seq<Token>, i: int, acc: real, env: Env)
    ensures fold_term(t, i, acc, env) == ({
    if 0 <= i < t.len() && (t[i] is Add || t[i] is Sub) {
        match s_factor(t, i + 1, env) {
            Some((v, j)) => match as_num(v) {
                Some(x) => if i < j <= t.len() { fold_term(t, j, if t[i] is Add { acc + x } else { acc - x }, env) } else { None },
                None => None },
            None => None }
    } else { Some((num(acc), i)) }
    })
{ reveal(s_primary); reveal(s_primary_inner); reveal(fold_factor); reveal(s_factor); reveal(fold_term); reveal(s_term); reveal(fold_comparison); reveal(s_comparison); reveal(fold_logical); reveal(s_logical); reveal(fold_list); reveal(s_expr_list); }

pub proof fn def_s_term(t: Seq<Token>, i: int, env: Env)
    ensures s_term(t, i, env) == ({
    match s_factor(t, i, env) {
        Some((f, j)) => match as_num(f) { Some(e) => if i < j <= t.len() { fold_term(t, j, e, env) } else { None }, None => Some((f, j)) },
        None => None }
    })
{ reveal(s_primary); reveal(s_primary_inner); reveal(fold_factor); reveal(s_factor); reveal(fold_term); reveal(s_term); reveal(fold_comparison); reveal(s_comparison); reveal(fold_logical); reveal(s_logical); reveal(fold_list); reveal(s_expr_list); }

pub proof fn def_s_comparison(t: Seq<Token>, i: int, env: Env)
    ensures s_comparison(t, i, env) == ({
    match s_term(t, i, env) {
        Some((v, j)) => match as_num(v) {
            None => Some((v, j)),
            Some(first) => if i < j <= t.len() { fold_comparison(t, j, first, env) } else { None } },
        None => None }
    })
{ reveal(s_primary); reveal(s_primary_inner); reveal(fold_factor); reveal(s_factor); reveal(fold_term); reveal(s_term); reveal(fold_comparison); reveal(s_comparison); reveal(fold_logical); reveal(s_logical); reveal(fold_list); reveal(s_expr_list); }

pub open spec fn fold_comparison_body(t: Seq<Token>, i: int, first: real, env: Env) -> SRes {
    if 0 <= i < t.len() && t[i] is Symbol && cmp_op(t[i]->Symbol_0@) is Some {
        match s_term(t, i + 1, env) {
            Some((u, k)) => match as_num(u) {
                Some(second) => if i < k <= t.len() { fold_comparison(t, k, b2r(cmp(cmp_op(t[i]->Symbol_0@)->Some_0, first, second)), env) } else { None },
                None => None },
            None => None }
    } else { Some((num(first), i)) }
}
pub proof fn def_fold_comparison(t: Seq<Token>, i: int, first: real, env: Env)
    ensures fold_comparison(t, i, first, env) == fold_comparison_body(t, i, first, env)
{ reveal(s_primary); reveal(s_primary_inner); reveal(fold_factor); reveal(s_factor); reveal(fold_term); reveal(s_term); reveal(fold_comparison); reveal(s_comparison); reveal(fold_logical); reveal(s_logical); reveal(fold_list); reveal(s_expr_list); }

pub open spec fn fold_logical_body(t: Seq<Token>, i: int, e: SV, env: Env) -> SRes {
    if 0 <= i < t.len() && t[i] is Symbol && log_op(t[i]->Symbol_0@) is Some {
        match s_comparison(t, i + 1, env) {
            Some((v, j)) => match (as_num(v), as_num(e)) {
                (Some(o), Some(a)) => if i < j <= t.len() { fold_logical(t, j, num(b2r(logic(log_op(t[i]->Symbol_0@)->Some_0, a != 0real, o != 0real))), env) } else { None },
                _ => None },
            None => None }
    } else { Some((e, i)) }
}
pub proof fn def_fold_logical(t: Seq<Token>, i: int, e: SV, env: Env)
    ensures fold_logical(t, i, e, env) == fold_logical_body(t, i, e, env)
{ reveal(s_primary); reveal(s_primary_inner); reveal(fold_factor); reveal(s_factor); reveal(fold_term); reveal(s_term); reveal(fold_comparison); reveal(s_comparison); reveal(fold_logical); reveal(s_logical); reveal(fold_list); reveal(s_expr_list); }

pub proof fn def_s_logical(t: Seq<Token>, i: int, env: Env)
    ensures s_logical(t, i, env) == ({
    match s_comparison(t, i, env) {
        Some((e, j)) => if i < j <= t.len() { fold_logical(t, j, e, env) } else { None },
        None => None }
    })
{ reveal(s_primary); reveal(s_primary_inner); reveal(fold_factor); reveal(s_factor); reveal(fold_term); reveal(s_term); reveal(fold_comparison); reveal(s_comparison); reveal(fold_logical); reveal(s_logical); reveal(fold_list); reveal(s_expr_list); }

pub proof fn def_fold_list(t: Seq<Token>, i: int, out: Seq<ExprValue>, env: Env)
    ensures fold_list(t, i, out, env) == ({
    match s_logical(t, i, env) {
        Some((e, j)) => {
            let out2 = out + flatten_sv(e);
            if j > i && j < t.len() && t[j] is Comma { fold_list(t, j + 1, out2, env) }
            else { Some((SV::L(out2), j)) } },
        None => None }
    })
{ reveal(s_primary); reveal(s_primary_inner); reveal(fold_factor); reveal(s_factor); reveal(fold_term); reveal(s_term); reveal(fold_comparison); reveal(s_comparison); reveal(fold_logical); reveal(s_logical); reveal(fold_list); reveal(s_expr_list); }

pub proof fn def_s_expr_list(t: Seq<Token>, i: int, env: Env)
    ensures s_expr_list(t, i, env) == ({
    if 0 < i < t.len() && t[i - 1] is OpenParen && t[i] is CloseParen { Some((SV::L(Seq::empty()), i)) }
    else { fold_list(t, i, Seq::empty(), env) }
    })
{ reveal(s_primary); reveal(s_primary_inner); reveal(fold_factor); reveal(s_factor); reveal(fold_term); reveal(s_term); reveal(fold_comparison); reveal(s_comparison); reveal(fold_logical); reveal(s_logical); reveal(fold_list); reveal(s_expr_list); }

// ------------------------------------------------------------------------------ the real evaluator
pub open spec fn env_of(es: EvalState) -> Env { Env { ctx: *es.context, checked: es.checked_vars@, depth: es.depth as nat } }
/// cursor frame: a level only moves the index
pub open spec fn same_input(pre: EvalState, post: EvalState) -> bool {
    post.tokens == pre.tokens && post.context == pre.context && post.checked_vars == pre.checked_vars && post.depth == pre.depth
}
/// the contract shared by every level: value and final position are the semantics'
pub open spec fn level_post(pre: EvalState, post: EvalState, r: Result<ExprValue>, sem: SRes) -> bool {
    match sem {
        Some((v, j)) => r is Ok && sv_of(r->Ok_0) == v && post.index == j && same_input(pre, post) && post.index <= post.tokens@.len(),
        None => r is Err }
}

impl<'a> EvalState<'a> {
//@item src/expression.rs :: impl<'a> EvalState<'a> :: fn peek
//@ ensures
//@ - self.index < self.tokens@.len() ==> r is Some && *r->Some_0 == self.tokens@[self.index as int]
//@ - self.index >= self.tokens@.len() ==> r is None
//@end
//@item src/expression.rs :: impl<'a> EvalState<'a> :: fn prev
//@ ensures
//@ - 0 < self.index <= self.tokens@.len() ==> r is Some && *r->Some_0 == self.tokens@[self.index - 1]
//@ - (self.index == 0 || self.index > self.tokens@.len()) ==> r is None
//@end
//@item src/expression.rs :: impl<'a> EvalState<'a> :: fn next
//@ body-start
//@ | proof { let _ = self.tokens.len(); }
//@ replace[R-optmap-mut] <<<self.tokens.get(self.index).map(|v| {\n            self.index += 1;\n            v.clone()\n        })>>> => <<<match self.tokens.get(self.index) { Some(v) => { let c = v.clone(); self.index += 1; Some(c) } None => None }>>>
//@ ensures
//@ - same_input(*old(self), *final(self))
//@ - old(self).index < old(self).tokens@.len() ==> r == Some(old(self).tokens@[old(self).index as int]) && final(self).index == old(self).index + 1
//@ - old(self).index >= old(self).tokens@.len() ==> r is None && final(self).index == old(self).index
//@end
//@item src/expression.rs :: impl<'a> EvalState<'a> :: fn advance
//@ body-start
//@ | proof { let _ = self.tokens.len(); }
//@ requires
//@ - old(self).index < old(self).tokens@.len()
//@ ensures
//@ - same_input(*old(self), *final(self)) && final(self).index == old(self).index + 1
//@end
//@item src/expression.rs :: impl<'a> EvalState<'a> :: fn require
//@ replace[R-abstract] <<<self.peek() == Some(&token)>>> => <<<tok_is(self.peek(), &token)>>>
//@ ensures
//@ - same_input(*old(self), *final(self))
//@ - (old(self).index < old(self).tokens@.len() && old(self).tokens@[old(self).index as int] == token) ==> r is Ok && final(self).index == old(self).index + 1
//@ - !(old(self).index < old(self).tokens@.len() && old(self).tokens@[old(self).index as int] == token) ==> r is Err && final(self).index == old(self).index     @@C14.paren.required
//@end

    #[verifier::external_body]
    fn lookup(&mut self, v: &str) -> (r: Result<ExprValue>)
        ensures r is Ok ==> *final(self) == *old(self), final(self).depth == old(self).depth,
            (match lookup_spec(*old(self).context, old(self).checked_vars@, old(self).depth as nat, v@) { Some(e) => r is Ok && sv_of(r->Ok_0) == e, None => r is Err }),
    { unimplemented!() }
    #[verifier::external_body]
    fn element_ref(&self, v: &str) -> (r: Result<ExprValue>)
        ensures (match elref_spec(*self.context, v@) { Some(e) => r is Ok && sv_of(r->Ok_0) == e, None => r is Err }),
    { unimplemented!() }
}

impl ComparisonOp {
//@item src/expression.rs :: impl FromStr for ComparisonOp :: fn from_str
//@ ensures
//@ - (match cmp_op(s@) { Some(op) => r == Ok::<ComparisonOp, SvgdxError>(op), None => r is Err })     @@C14.cmp.table
//@end
}
impl LogicalOp {
//@item src/expression.rs :: impl FromStr for LogicalOp :: fn from_str
//@ ensures
//@ - (match log_op(s@) { Some(op) => r == Ok::<LogicalOp, SvgdxError>(op), None => r is Err })     @@C14.logic.table
//@end
}

//@item src/expression.rs :: fn primary_inner
//@ body-start
//@ | proof { def_s_primary_inner(eval_state.tokens@, eval_state.index as int, env_of(*eval_state)); }
//@ replace[R-parse] <<<fun.parse::<Function>()?>>> => <<<Function::from_str(&fun)?>>>
//@ requires
//@ - old(eval_state).index <= old(eval_state).tokens@.len()
//@ - 0 < old(eval_state).depth <= MAX_EVAL_DEPTH
//@ ensures
//@ - level_post(*old(eval_state), *final(eval_state), r, s_primary_inner(old(eval_state).tokens@, old(eval_state).index as int, env_of(*old(eval_state))))     @@C14.primary.sem @@C14.unary @@C14.paren @@C01.expr.nesting_counted
//@ - r is Ok ==> final(eval_state).index > old(eval_state).index     @@C01.expr.primary_progress
//@ - final(eval_state).depth == old(eval_state).depth     @@C01.expr.depth_restored
//@ decreases
//@ - old(eval_state).tokens@.len() - old(eval_state).index
//@ - 0int
//@end

//@item src/expression.rs :: const MAX_EVAL_DEPTH
//@end
//@item src/expression.rs :: fn primary
//@ body-start
//@ | proof { def_s_primary(eval_state.tokens@, eval_state.index as int, env_of(*eval_state)); }
//@ requires
//@ - old(eval_state).index <= old(eval_state).tokens@.len()
//@ - old(eval_state).depth <= MAX_EVAL_DEPTH
//@ ensures
//@ - level_post(*old(eval_state), *final(eval_state), r, s_primary(old(eval_state).tokens@, old(eval_state).index as int, env_of(*old(eval_state))))     @@C14.primary.sem @@C14.unary @@C14.paren @@C01.expr.nesting_counted
//@ - r is Ok ==> final(eval_state).index > old(eval_state).index     @@C01.expr.primary_progress
//@ - final(eval_state).depth == old(eval_state).depth     @@C01.expr.depth_restored
//@ - old(eval_state).depth >= MAX_EVAL_DEPTH ==> r is Err     @@C01.expr.nesting_bounded
//@ decreases
//@ - old(eval_state).tokens@.len() - old(eval_state).index
//@ - 1int
//@end

//@item src/expression.rs :: fn factor
//@ body-start
//@ | proof { def_s_factor(eval_state.tokens@, eval_state.index as int, env_of(*eval_state)); }
//@ requires
//@ - old(eval_state).index <= old(eval_state).tokens@.len()
//@ - old(eval_state).depth <= MAX_EVAL_DEPTH
//@ ensures
//@ - final(eval_state).depth == old(eval_state).depth     @@C01.expr.depth_restored
//@ - level_post(*old(eval_state), *final(eval_state), r, s_factor(old(eval_state).tokens@, old(eval_state).index as int, env_of(*old(eval_state))))     @@C14.factor.fold @@C14.mod.nonneg
//@ - r is Ok ==> final(eval_state).index > old(eval_state).index
//@ decreases
//@ - old(eval_state).tokens@.len() - old(eval_state).index
//@ - 3int
//@ loop 1
//@ body-start
//@ | proof { def_fold_factor(eval_state.tokens@, eval_state.index as int, val(e), env_of(*eval_state)); }
//@ invariant
//@ - same_input(*old(eval_state), *eval_state)
//@ - eval_state.depth <= MAX_EVAL_DEPTH
//@ - old(eval_state).index < eval_state.index <= eval_state.tokens@.len()
//@ - fold_factor(eval_state.tokens@, eval_state.index as int, val(e), env_of(*eval_state)) == s_factor(old(eval_state).tokens@, old(eval_state).index as int, env_of(*old(eval_state)))     @@C14.factor.fold.loop
//@ ensures
//@ - s_factor(old(eval_state).tokens@, old(eval_state).index as int, env_of(*old(eval_state))) == Some((num(val(e)), eval_state.index as int))
//@ decreases
//@ - eval_state.tokens@.len() - eval_state.index
//@end

//@item src/expression.rs :: fn term
//@ body-start
//@ | proof { def_s_term(eval_state.tokens@, eval_state.index as int, env_of(*eval_state)); }
//@ requires
//@ - old(eval_state).index <= old(eval_state).tokens@.len()
//@ - old(eval_state).depth <= MAX_EVAL_DEPTH
//@ ensures
//@ - final(eval_state).depth == old(eval_state).depth     @@C01.expr.depth_restored
//@ - level_post(*old(eval_state), *final(eval_state), r, s_term(old(eval_state).tokens@, old(eval_state).index as int, env_of(*old(eval_state))))     @@C14.term.fold
//@ - r is Ok ==> final(eval_state).index > old(eval_state).index
//@ decreases
//@ - old(eval_state).tokens@.len() - old(eval_state).index
//@ - 5int
//@ loop 1
//@ body-start
//@ | proof { def_fold_term(eval_state.tokens@, eval_state.index as int, val(e), env_of(*eval_state)); }
//@ invariant
//@ - same_input(*old(eval_state), *eval_state)
//@ - eval_state.depth <= MAX_EVAL_DEPTH
//@ - old(eval_state).index < eval_state.index <= eval_state.tokens@.len()
//@ - fold_term(eval_state.tokens@, eval_state.index as int, val(e), env_of(*eval_state)) == s_term(old(eval_state).tokens@, old(eval_state).index as int, env_of(*old(eval_state)))     @@C14.term.fold.loop
//@ ensures
//@ - s_term(old(eval_state).tokens@, old(eval_state).index as int, env_of(*old(eval_state))) == Some((num(val(e)), eval_state.index as int))
//@ decreases
//@ - eval_state.tokens@.len() - eval_state.index
//@end

//@item src/expression.rs :: fn comparison
//@ body-start
//@ | proof { def_s_comparison(eval_state.tokens@, eval_state.index as int, env_of(*eval_state)); }
//@ replace[R-parse] <<<s.parse::<ComparisonOp>()>>> => <<<ComparisonOp::from_str(&s)>>>
//@ replace[R-cast] <<<comp as i32 as f32>>> => <<<r32_from_bool(comp)>>>
//@ before <<<while let Some(Token::Symbol(s)) = eval_state.peek().cloned() {>>>
//@ | proof { def_fold_comparison(eval_state.tokens@, eval_state.index as int, val(first), env_of(*eval_state)); }
//@ after <<<first = r32_from_bool(comp);>>>
//@ | proof { def_fold_comparison(eval_state.tokens@, eval_state.index as int, val(first), env_of(*eval_state)); }
//@ requires
//@ - old(eval_state).index <= old(eval_state).tokens@.len()
//@ - old(eval_state).depth <= MAX_EVAL_DEPTH
//@ ensures
//@ - final(eval_state).depth == old(eval_state).depth     @@C01.expr.depth_restored
//@ - level_post(*old(eval_state), *final(eval_state), r, s_comparison(old(eval_state).tokens@, old(eval_state).index as int, env_of(*old(eval_state))))     @@C14.cmp.bool @@C14.cmp.left_associative
//@ - r is Ok ==> final(eval_state).index > old(eval_state).index
//@ decreases
//@ - old(eval_state).tokens@.len() - old(eval_state).index
//@ - 6int
//@ loop 1
//@ invariant
//@ - same_input(*old(eval_state), *eval_state)
//@ - eval_state.depth <= MAX_EVAL_DEPTH
//@ - old(eval_state).index < eval_state.index <= eval_state.tokens@.len()
//@ - fold_comparison(eval_state.tokens@, eval_state.index as int, val(first), env_of(*eval_state)) == fold_comparison_body(eval_state.tokens@, eval_state.index as int, val(first), env_of(*eval_state))
//@ - fold_comparison(eval_state.tokens@, eval_state.index as int, val(first), env_of(*eval_state)) == s_comparison(old(eval_state).tokens@, old(eval_state).index as int, env_of(*old(eval_state)))     @@C14.cmp.fold.loop
//@ ensures
//@ - s_comparison(old(eval_state).tokens@, old(eval_state).index as int, env_of(*old(eval_state))) == Some((num(val(first)), eval_state.index as int))
//@ decreases
//@ - eval_state.tokens@.len() - eval_state.index
//@end

//@item src/expression.rs :: fn logical
//@ body-start
//@ | proof { def_s_logical(eval_state.tokens@, eval_state.index as int, env_of(*eval_state)); }
//@ replace[R-parse] <<<s.parse::<LogicalOp>()>>> => <<<LogicalOp::from_str(s)>>>
//@ before <<<while let Some(Token::Symbol(s)) = eval_state.peek() {>>>
//@ | proof { def_fold_logical(eval_state.tokens@, eval_state.index as int, sv_of(e), env_of(*eval_state)); }
//@ after <<<                };>>>
//@ | proof { def_fold_logical(eval_state.tokens@, eval_state.index as int, sv_of(e), env_of(*eval_state)); }
//@ requires
//@ - old(eval_state).index <= old(eval_state).tokens@.len()
//@ - old(eval_state).depth <= MAX_EVAL_DEPTH
//@ ensures
//@ - final(eval_state).depth == old(eval_state).depth     @@C01.expr.depth_restored
//@ - level_post(*old(eval_state), *final(eval_state), r, s_logical(old(eval_state).tokens@, old(eval_state).index as int, env_of(*old(eval_state))))     @@C14.logic.fold
//@ - r is Ok ==> final(eval_state).index > old(eval_state).index
//@ decreases
//@ - old(eval_state).tokens@.len() - old(eval_state).index
//@ - 8int
//@ loop 1
//@ invariant
//@ - same_input(*old(eval_state), *eval_state)
//@ - eval_state.depth <= MAX_EVAL_DEPTH
//@ - old(eval_state).index < eval_state.index <= eval_state.tokens@.len()
//@ - fold_logical(eval_state.tokens@, eval_state.index as int, sv_of(e), env_of(*eval_state)) == fold_logical_body(eval_state.tokens@, eval_state.index as int, sv_of(e), env_of(*eval_state))
//@ - fold_logical(eval_state.tokens@, eval_state.index as int, sv_of(e), env_of(*eval_state)) == s_logical(old(eval_state).tokens@, old(eval_state).index as int, env_of(*old(eval_state)))     @@C14.logic.fold.loop
//@ ensures
//@ - s_logical(old(eval_state).tokens@, old(eval_state).index as int, env_of(*old(eval_state))) == Some((sv_of(e), eval_state.index as int))
//@ decreases
//@ - eval_state.tokens@.len() - eval_state.index
//@end

//@item src/expression.rs :: fn expr
//@ requires
//@ - old(eval_state).index <= old(eval_state).tokens@.len()
//@ - old(eval_state).depth <= MAX_EVAL_DEPTH
//@ ensures
//@ - final(eval_state).depth == old(eval_state).depth     @@C01.expr.depth_restored
//@ - level_post(*old(eval_state), *final(eval_state), r, s_logical(old(eval_state).tokens@, old(eval_state).index as int, env_of(*old(eval_state))))
//@ - r is Ok ==> final(eval_state).index > old(eval_state).index
//@ decreases
//@ - old(eval_state).tokens@.len() - old(eval_state).index
//@ - 9int
//@end

//@item src/expression.rs :: fn expr_list
//@ body-start
//@ | proof { def_s_expr_list(eval_state.tokens@, eval_state.index as int, env_of(*eval_state)); }
//@ replace[R-extend] <<<out.extend(e.flatten());>>> => <<<vec_extend(&mut out, e.flatten());>>>
//@ requires
//@ - old(eval_state).index <= old(eval_state).tokens@.len()
//@ - old(eval_state).depth <= MAX_EVAL_DEPTH
//@ ensures
//@ - final(eval_state).depth == old(eval_state).depth     @@C01.expr.depth_restored
//@ - level_post(*old(eval_state), *final(eval_state), r, s_expr_list(old(eval_state).tokens@, old(eval_state).index as int, env_of(*old(eval_state))))     @@C14.list.flat
//@ - r is Ok ==> final(eval_state).index >= old(eval_state).index
//@ decreases
//@ - old(eval_state).tokens@.len() - old(eval_state).index
//@ - 10int
//@ loop 1
//@ body-start
//@ | proof { def_fold_list(eval_state.tokens@, eval_state.index as int, out@, env_of(*eval_state)); }
//@ invariant_except_break
//@ - fold_list(eval_state.tokens@, eval_state.index as int, out@, env_of(*eval_state)) == s_expr_list(old(eval_state).tokens@, old(eval_state).index as int, env_of(*old(eval_state)))     @@C14.list.flat.loop
//@ invariant
//@ - same_input(*old(eval_state), *eval_state)
//@ - eval_state.depth <= MAX_EVAL_DEPTH
//@ - old(eval_state).index <= eval_state.index <= eval_state.tokens@.len()
//@ ensures
//@ - s_expr_list(old(eval_state).tokens@, old(eval_state).index as int, env_of(*old(eval_state))) == Some((SV::L(out@), eval_state.index as int))
//@ decreases
//@ - eval_state.tokens@.len() - eval_state.index
//@end

/// R-ctor: EvalState::new(tokens, context, checked_vars) (generic IntoIterator + collect)
#[verifier::external_body]
pub fn new_eval_state<'a>(tokens: Vec<Token>, context: &'a Ctx, checked_vars: &[String]) -> (r: EvalState<'a>)
    ensures r.tokens@ == tokens@, r.index == 0, r.context == context, r.checked_vars@ == checked_vars@, r.depth == 0
{ unimplemented!() }

//@item src/expression.rs :: fn evaluate_inner
//@ replace[R-opaque-type] <<<tokens: impl IntoIterator<Item = Token> + std::fmt::Debug + Clone,>>> => <<<tokens: Vec<Token>,>>>
//@ replace[R-opaque-type] <<<context: &impl ContextView,>>> => <<<context: &Ctx,>>>
//@ replace[R-ctor] <<<EvalState::new(tokens.clone(), context, checked_vars)>>> => <<<new_eval_state(tokens, context, checked_vars)>>>
//@ ensures
//@ - (match s_expr_list(tokens@, 0, Env { ctx: *context, checked: checked_vars@, depth: 0 }) {
//@      Some((v, j)) => if j == tokens@.len() { r is Ok && sv_of(r->Ok_0) == v } else { r is Err },
//@      None => r is Err })     @@C14.trailing
//@end
} // verus!
fn main() {}
