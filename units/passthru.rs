//@unit passthru
//@props C03 C05 C02 C11 C15 C19 C17
// U-passthru: real (namespaced) SVG takes the pass-through route (src/transform.rs):
// is_real_svg against a spec function written from the property statement, process_events returns
// the input events unchanged and touches nothing but `real_svg`, postprocess writes exactly the
// event list, a nested namespaced <svg> is returned verbatim before any attribute is evaluated.
//@assume R-inline: InputList::iter() is `self.events.iter()` (checked textually on every run by an //@expect directive)
//@assume SvgElement::try_from(InputEvent) and get_attr are deterministic functions of their arguments (uninterpreted spec functions elem_of / attr_of)
use vstd::prelude::*;
//@prelude fmt_macro
verus! {
//@prelude std_specs qxml seqlemmas

#[verifier::external_body] pub struct OutputList { _p: u8 }
#[verifier::external_body] pub struct OutputEvent { _p: u8 }
//@item src/events.rs :: struct InputEvent
//@ replace[R-opaque-type] <<<Event<'static>>>> => <<<Event>>>
//@end
impl Clone for InputEvent { #[verifier::external_body] fn clone(&self) -> (r: Self) ensures r == *self { unimplemented!() } }
#[verifier::external_body] pub struct BoundingBox { _p: u8 }
impl Clone for BoundingBox { #[verifier::external_body] fn clone(&self) -> (r: Self) ensures r == *self { unimplemented!() } }
impl Copy for BoundingBox {}
#[verifier::external_body] pub struct BoundingBoxBuilder { _p: u8 }
#[verifier::external_body] pub struct AttrMap { _p: u8 }
#[verifier::external_body] pub struct ClassList { _p: u8 }
#[verifier::external_body] pub struct OrderIndex { _p: u8 }
#[verifier::external_body] pub struct RngCell { _p: u8 }
#[verifier::external_body] pub struct ElemTable { _p: u8 }
#[verifier::external_body] pub struct Scope { _p: u8 }
#[verifier::external_body] pub struct Tag { _p: u8 }
#[verifier::external_body] pub struct TagList { _p: u8 }
#[verifier::external_body] pub struct OutMap { _p: u8 }
#[verifier::external_body] pub struct ConfigRest { _p: u8 }

pub enum SvgdxError { Other }
pub type Result<T> = core::result::Result<T, SvgdxError>;
/// the configured depth limit (a field of the real TransformConfig; U-depth / U-config work on the real struct)
pub uninterp spec fn depth_limit_of(c: TransformConfig) -> u32;
pub struct TransformConfig { pub add_metadata: bool, pub debug: bool, pub add_auto_styles: bool, pub rest: ConfigRest }

//@item src/events.rs :: struct InputList
//@end
//@expect src/events.rs :: impl InputList :: fn iter <<<self.events.iter()>>>
//@expect src/events.rs :: impl InputList :: fn is_empty <<<self.events.is_empty()>>>
//@item src/element.rs :: struct SvgElement
//@end
impl Clone for SvgElement { #[verifier::external_body] fn clone(&self) -> (r: Self) ensures r == *self { unimplemented!() } }
//@item src/context.rs :: struct TransformerContext
//@ replace[R-opaque-type] <<<RefCell<Pcg32>>>> => <<<RngCell>>>
//@ replace-all[R-opaque-type] <<<HashMap<String, SvgElement>>>> => <<<ElemTable>>>
//@end

// ------------------------------------------------------------------------------ spec vocabulary
pub uninterp spec fn is_elem(ev: InputEvent) -> bool;            // a start or empty element event
pub uninterp spec fn elem_of(ev: InputEvent) -> SvgElement;      // the element it carries
pub uninterp spec fn attr_of(el: SvgElement, key: Seq<char>) -> Option<Seq<char>>;
pub uninterp spec fn into_output(input: InputList) -> OutputList;
pub uninterp spec fn all_events_of(el: SvgElement, ctx: TransformerContext) -> InputList;
#[verifier::external_body] pub struct Reader { _p: u8 }
pub uninterp spec fn doc_of(r: Reader) -> InputList;

/// the decoded character data of a text event / the content of a CDATA event (U-xmlsink: C19.content.decoded, C19.cdata.verbatim)
pub uninterp spec fn text_of(ev: InputEvent) -> Option<Seq<char>>;
pub uninterp spec fn cdata_of(ev: InputEvent) -> Option<Seq<char>>;
/// s is the character data of one of the first n events, as the reader delivered it
pub open spec fn content_of(evs: Seq<InputEvent>, n: int, s: Seq<char>) -> bool {
    exists|k: int| 0 <= k < n && k < evs.len() && (text_of(#[trigger] evs[k]) == Some(s) || cdata_of(evs[k]) == Some(s))
}
/// the character data of the first n events, in order (text decoded, CDATA as is); an event that is neither ends it
pub open spec fn content_all(evs: Seq<InputEvent>, n: int) -> Seq<char> decreases n {
    if n <= 0 || n > evs.len() { Seq::<char>::empty() } else {
        content_all(evs, n - 1) + (match text_of(evs[n - 1]) { Some(t) => t, None => match cdata_of(evs[n - 1]) { Some(c) => c, None => Seq::<char>::empty() } })
    }
}
/// the elements whose `text` attribute is rendered as a <text> beside / inside them: for these, text CONTENT is the
/// same thing written differently (C19: "given through a 'text' attribute, or as the content of a shape or <text>").
/// `box` and `point` are svgdx's phantom shapes: they render their `text` attribute like any other shape
/// formatting white space only (what str::trim removes entirely)
pub open spec fn blank(s: Seq<char>) -> bool { str_trim(s).len() == 0 }
pub open spec fn has_cdata_spec(evs: Seq<InputEvent>) -> bool { exists|k: int| 0 <= k < evs.len() && cdata_of(#[trigger] evs[k]) is Some }
/// what one content event contributes to a shape's text: its character data - except that white space around a CDATA
/// section is formatting (`<rect>\n<![CDATA[..]]>\n</rect>`, the idiom of the documentation and the suite)
pub open spec fn piece(ev: InputEvent, hc: bool) -> Seq<char> {
    match text_of(ev) { Some(t) => if hc && blank(t) { Seq::<char>::empty() } else { t }, None => match cdata_of(ev) { Some(c) => c, None => Seq::<char>::empty() } }
}
/// the author's text: the pieces of the first n content events, in order
pub open spec fn content_sig(evs: Seq<InputEvent>, n: int, hc: bool) -> Seq<char> decreases n {
    if n <= 0 || n > evs.len() { Seq::<char>::empty() } else { content_sig(evs, n - 1, hc) + piece(evs[n - 1], hc) }
}
/// R-any: `inner_events.iter().any(|e| e.cdata_string().is_some())`
#[verifier::external_body]
pub fn any_cdata(l: &InputList) -> (r: bool) ensures r == has_cdata_spec(l.events@) { unimplemented!() }
/// `opt.unwrap_or_default()` on Option<String>
#[verifier::external_body]
pub fn string_or_empty(o: Option<String>) -> (r: String) ensures r@ == (match o { Some(s) => s@, None => Seq::<char>::empty() }) { unimplemented!() }
#[verifier::external_body]
pub fn string_push_str(s: &mut String, t: &str) ensures final(s)@ == old(s)@ + t@ { unimplemented!() }
pub open spec fn graphics_name(n: Seq<char>) -> bool {
    n == "circle"@ || n == "ellipse"@ || n == "image"@ || n == "line"@ || n == "path"@ || n == "polygon"@ || n == "polyline"@ || n == "rect"@ || n == "text"@ || n == "use"@ || n == "reuse"@
    || n == "box"@ || n == "point"@
}
pub open spec fn svg_ns() -> Seq<char> { "http://www.w3.org/2000/svg"@ }

/// an event which opens an element
pub open spec fn starts_element(ev: InputEvent) -> bool { ev.event is Start || ev.event is Empty }
/// (document) index of the event which closes the element opened by `ev`
pub open spec fn end_of(ev: InputEvent) -> int { match ev.alt_idx { Some(a) => a as int, None => ev.index as int } }
pub open spec fn element_after(evs: Seq<InputEvent>, end: int) -> bool {
    exists|j: int| 0 <= j < evs.len() && starts_element(#[trigger] evs[j]) && evs[j].index > end
}

/// From the property statement: the list's OUTERMOST element is <svg> and declares the SVG
/// namespace - its first element is that <svg>, and no element starts after the <svg> has ended
/// (otherwise the list is svgdx content which embeds a namespaced <svg> among other elements,
/// and those other elements are processed as usual).
pub open spec fn spec_real_svg(evs: Seq<InputEvent>) -> bool {
    exists|k: int| 0 <= k < evs.len() && #[trigger] is_elem(evs[k])
        && (forall|j: int| 0 <= j < k ==> !#[trigger] is_elem(evs[j]))
        && elem_of(evs[k]).name@ == "svg"@
        && attr_of(elem_of(evs[k]), "xmlns"@) == Some(svg_ns())
        && !element_after(evs, end_of(evs[k]))
}

#[verifier::external_body]
pub fn svg_element_try_from(ev: InputEvent) -> (r: Result<SvgElement>)
    ensures r is Ok <==> is_elem(ev), r is Ok ==> r->Ok_0 == elem_of(ev)
{ unimplemented!() }
impl SvgElement {
    #[verifier::external_body]
    pub fn get_attr(&self, key: &str) -> (r: Option<String>)
        ensures (match r { Some(s) => Some(s@), None => None }) == attr_of(*self, key@)
    { unimplemented!() }
    #[verifier::external_body]
    pub fn set_attr(&mut self, key: &str, value: &str) ensures final(self).name == old(self).name { unimplemented!() }
    pub uninterp spec fn inner_events_some(&self, ctx: TransformerContext) -> bool;
    #[verifier::external_body]
    pub fn inner_events(&self, context: &TransformerContext) -> (r: Option<InputList>) ensures r is Some == self.inner_events_some(*context) { unimplemented!() }
    #[verifier::external_body]
    pub fn all_events(&self, context: &TransformerContext) -> (r: InputList) ensures r == all_events_of(*self, *context) { unimplemented!() }
    #[verifier::external_body]
    pub fn eval_attributes(&mut self, ctx: &TransformerContext) -> Result<()> { unimplemented!() }
//@rewrite strlit strmatch
//@item src/element.rs :: impl SvgElement :: fn is_graphics_element
//@ ensures
//@ - r == graphics_name(self.name@)     @@C19.content.every_text_carrier
//@end
}
impl OutputEvent {
    /// R-matches: `matches!(ev, OutputEvent::Empty(_))` on the opaque event type
    #[verifier::external_body] pub fn is_empty_elem(&self) -> (r: bool) ensures r == is_empty_event(*self) { unimplemented!() }
}
impl InputEvent {
    #[verifier::external_body] pub fn text_string(&self) -> (r: Option<String>) ensures (match r { Some(s) => Some(s@), None => None }) == text_of(*self) { unimplemented!() }
    #[verifier::external_body] pub fn cdata_string(&self) -> (r: Option<String>) ensures (match r { Some(s) => Some(s@), None => None }) == cdata_of(*self) { unimplemented!() }
}
impl OutputList {
    #[verifier::external_body] pub fn new() -> OutputList { unimplemented!() }
    #[verifier::external_body] pub fn from_input(i: InputList) -> (r: OutputList) ensures r == into_output(i) { unimplemented!() }
    #[verifier::external_body] pub fn push(&mut self, ev: OutputEvent) { unimplemented!() }
    #[verifier::external_body] pub fn extend(&mut self, o: &OutputList) { unimplemented!() }
}
impl TransformerContext {
//@item src/context.rs :: impl TransformerContext :: fn get_top_element
//@ ensures
//@ - r is None <==> self.element_stack@.len() == 0
//@end
    /// R-clone: `set_events(input.events.clone())` (stores a copy of the document's events for later slicing)
    #[verifier::external_body]
    pub fn set_events(&mut self, input: &InputList) ensures final(self).real_svg == old(self).real_svg { unimplemented!() }
    #[verifier::external_body]
    pub fn update_element(&mut self, el: &SvgElement) ensures final(self).scope_stack@ == old(self).scope_stack@, final(self).current_depth == old(self).current_depth { unimplemented!() }      // U-scope: scope_untouched; U-depth
    #[verifier::external_body]
    pub fn set_prev_element(&mut self, el: &SvgElement) ensures final(self).scope_stack@ == old(self).scope_stack@, final(self).current_depth == old(self).current_depth { unimplemented!() }
    /// U-depth: C17.depth.inc.* / C17.depth.dec.* (proved there)
    #[verifier::external_body]
    pub fn inc_depth(&mut self) -> (r: Result<()>)
        ensures r is Ok ==> final(self).current_depth == old(self).current_depth + 1, r is Err ==> final(self).current_depth == old(self).current_depth,
            r is Ok <==> old(self).current_depth + 1 <= depth_limit_of(old(self).config),      // U-depth: C17.depth.exact
            final(self).config == old(self).config,                                           // U-depth: C17.depth.inc.frame
            final(self).scope_stack@ == old(self).scope_stack@, final(self).real_svg == old(self).real_svg
    { unimplemented!() }
    #[verifier::external_body]
    pub fn dec_depth(&mut self) -> (r: Result<()>)
        ensures old(self).current_depth > 0 ==> r is Ok && final(self).current_depth == old(self).current_depth - 1, old(self).current_depth == 0 ==> r is Err,
            r is Err ==> final(self).current_depth == old(self).current_depth,
            final(self).config == old(self).config,                                           // U-depth: C17.depth.dec.frame
            final(self).scope_stack@ == old(self).scope_stack@, final(self).real_svg == old(self).real_svg
    { unimplemented!() }
    /// U-scope: C15.push.scope / C15.push.innermost, C15.pop.scope (proved there)
    #[verifier::external_body]
    pub fn push_element(&mut self, el: &SvgElement)
        ensures final(self).scope_stack.len() == old(self).scope_stack.len() + 1, final(self).scope_stack@.drop_last() == old(self).scope_stack@
    { unimplemented!() }
    #[verifier::external_body]
    pub fn pop_element(&mut self) -> Option<SvgElement>
        ensures old(self).scope_stack.len() > 0 ==> final(self).scope_stack@ == old(self).scope_stack@.drop_last()
    { unimplemented!() }
}

impl InputList {
//@item src/events.rs :: impl InputList :: fn has_element_after
//@ ensures
//@ - r == element_after(self.events@, end as int)     @@C11.detect.element_after @@C05.detect.element_after @@C03.detect.element_after @@C02.detect.element_after
//@ loop 1
//@ iter it
//@ invariant
//@ - self.events@ == it.history@.map(|i: int, e: &InputEvent| *e) + vstd::std_specs::iter::IteratorSpec::remaining(&it.iter).map(|i: int, e: &InputEvent| *e)
//@ - forall|j: int| 0 <= j < it.index@ ==> !(starts_element(#[trigger] self.events@[j]) && self.events@[j].index > end)
//@end
}

//@rewrite strlit
//@item src/transform.rs :: fn is_real_svg
//@ replace[R-inline] <<<events.iter()>>> => <<<events.events.iter()>>>
//@ replace[R-tryfrom] <<<SvgElement::try_from(ev.clone())>>> => <<<svg_element_try_from(ev.clone())>>>
//@ ensures
//@ - r == spec_real_svg(events.events@)     @@C03.detect.spec @@C05.detect.spec @@C02.detect.spec @@C11.detect.outermost_only
//@ loop 1
//@ iter it
//@ invariant
//@ - events.events@ == it.history@.map(|i: int, e: &InputEvent| *e) + vstd::std_specs::iter::IteratorSpec::remaining(&it.iter).map(|i: int, e: &InputEvent| *e)
//@ - forall|j: int| 0 <= j < it.index@ ==> !#[trigger] is_elem(events.events@[j])
//@end


// ------------------------------------------------------------------------------ process_events
/// R-abstract: `tagify_events(input)?.iter().enumerate().map(..).collect::<Vec<_>>()`
#[verifier::external_body]
pub fn tagify_indexed(input: InputList) -> Result<TagList> { unimplemented!() }
#[verifier::external_body]
pub fn process_tags(tags: &mut TagList, context: &mut TransformerContext, idx_output: &mut OutMap, bbb: &mut BoundingBoxBuilder) -> (r: Result<Option<BoundingBox>>)
    ensures final(context).real_svg == old(context).real_svg,      // (every nested generator ends in process_events: same clause, by induction on the nesting)
        final(context).current_depth == old(context).current_depth,      // U-depth: C17.depth.restored for every generator
        // every generator changes the innermost scope at most (U-scope: C15.scope.outer_bindings_untouched)
        old(context).scope_stack.len() > 0 ==> final(context).scope_stack.len() == old(context).scope_stack.len()
            && final(context).scope_stack@.drop_last() == old(context).scope_stack@.drop_last(),
{ unimplemented!() }
/// R-abstract: `for (_idx, events) in idx_output { output.extend(&events); }`
#[verifier::external_body]
pub fn flatten_outputs(idx_output: OutMap, output: &mut OutputList) { unimplemented!() }
impl OutMap { #[verifier::external_body] pub fn new() -> OutMap { unimplemented!() } }
impl BoundingBoxBuilder { #[verifier::external_body] pub fn new() -> BoundingBoxBuilder { unimplemented!() } }

/// everything but `real_svg` is untouched
pub open spec fn only_real_svg_changed(pre: TransformerContext, post: TransformerContext) -> bool {
    post == (TransformerContext { real_svg: post.real_svg, ..pre })
}

//@item src/transform.rs :: fn process_events
//@ replace[R-into] <<<return Ok((input.into(), None));>>> => <<<return Ok((OutputList::from_input(input), None));>>>
//@ replace[R-abstract] <<<let mut tags = tagify_events(input)?\n        .iter()\n        .enumerate()\n        .map(|(idx, el)| (OrderIndex::new(idx), el.clone()))\n        .collect::<Vec<_>>();>>> => <<<let mut tags = tagify_indexed(input)?;>>>
//@ replace[R-opaque-type] <<<BTreeMap::<OrderIndex, OutputList>::new()>>> => <<<OutMap::new()>>>
//@ replace[R-abstract] <<<    for (_idx, events) in idx_output {\n        output.extend(&events);\n    }>>> => <<<    flatten_outputs(idx_output, &mut output);>>>
//@ ensures
//@ - spec_real_svg(input.events@) ==> r is Ok && r->Ok_0.0 == into_output(input) && r->Ok_0.1 is None     @@C03.events.identity @@C05.events.identity
//@ - spec_real_svg(input.events@) ==> *final(context) == *old(context)     @@C03.events.frame
//@ - final(context).real_svg == old(context).real_svg     @@C02.root.only_the_document_decides @@C03.events.nested_never_marks @@C05.root.only_the_document_decides
//@ - old(context).scope_stack.len() > 0 ==> final(context).scope_stack.len() == old(context).scope_stack.len()
//@       && final(context).scope_stack@.drop_last() == old(context).scope_stack@.drop_last()     @@C15.scope.outer_bindings_untouched
//@ - final(context).current_depth == old(context).current_depth     @@C17.depth.restored
//@end

// ------------------------------------------------------------------------------ postprocess
#[verifier::external_body] pub struct Writer { _p: u8 }
pub enum WriteOp { List(OutputList), RootSvg, AutoStyles }
impl Writer { pub uninterp spec fn log(&self) -> Seq<WriteOp>; }
/// start tags minus end tags of an event list (Empty counts 0)
pub uninterp spec fn balance(l: OutputList) -> int;
/// how many elements everything written so far leaves open (start tags minus end tags)
impl Writer { pub uninterp spec fn depth(&self) -> int; }
pub open spec fn pivot_balance(p: Option<OutputEvent>) -> int { if p is Some && is_start_event(p->Some_0) { 1 } else { 0 } }
pub uninterp spec fn is_start_event(e: OutputEvent) -> bool;     // OutputEvent::Start(_)
pub uninterp spec fn is_empty_event(e: OutputEvent) -> bool;     // OutputEvent::Empty(_)
/// the first Start / Empty element of that name in the list (what partition() hands out as pivot)
pub uninterp spec fn pivot_of(l: OutputList, name: Seq<char>) -> Option<OutputEvent>;
pub uninterp spec fn root_end_spec() -> OutputList;
impl OutputList {
    #[verifier::external_body]
    pub fn write_to(&self, writer: &mut Writer) -> (r: Result<()>)
        ensures final(writer).log() == old(writer).log().push(WriteOp::List(*self)),
            final(writer).depth() == old(writer).depth() + balance(*self),
    { unimplemented!() }
    /// (before, first Start/Empty element of that name, after): the three parts make up the list
    #[verifier::external_body]
    pub fn partition(&self, name: &str) -> (r: (OutputList, Option<OutputEvent>, OutputList))
        ensures balance(*self) == balance(r.0) + pivot_balance(r.1) + balance(r.2),
            r.1 is None ==> balance(r.2) == 0,
            r.1 == pivot_of(*self, name@),
            r.1 is Some ==> (is_start_event(r.1->Some_0) != is_empty_event(r.1->Some_0)),      // the pivot is a Start or an Empty element
    { unimplemented!() }
    #[verifier::external_body]
    pub fn debug_header(config: &TransformConfig) -> (r: OutputList) ensures balance(r) == 0 { unimplemented!() }
    /// R-abstract: `OutputList::from([OutputEvent::End("svg".to_owned())].as_slice())`: one end tag
    #[verifier::external_body]
    pub fn root_end() -> (r: OutputList) ensures balance(r) == -1, r == root_end_spec() { unimplemented!() }
}
//@item src/transform.rs :: struct Transformer
//@end
impl Transformer {
    #[verifier::external_body]
    fn write_root_svg(&self, first_svg: OutputEvent, bbox: Option<BoundingBox>, writer: &mut Writer) -> (r: Result<()>)
        ensures final(writer).log() == old(writer).log().push(WriteOp::RootSvg),
            final(writer).depth() == old(writer).depth() + 1,      // one start tag (U-root: C02.root.single)
    { unimplemented!() }
    #[verifier::external_body]
    fn write_auto_styles(&self, events: &mut OutputList, writer: &mut Writer) -> (r: Result<()>)
        ensures final(writer).log() == old(writer).log().push(WriteOp::AutoStyles),
            final(writer).depth() == old(writer).depth(), balance(*final(events)) == balance(*old(events)),   // complete <style>/<defs> elements
    { unimplemented!() }

    /// the document read from the input: a deterministic function of the reader
    #[verifier::external_body]
    pub fn read_document(reader: &mut Reader) -> (r: Result<InputList>)
        ensures r is Ok ==> r->Ok_0 == doc_of(*old(reader))
    { unimplemented!() }
//@item src/transform.rs :: impl Transformer :: fn transform
//@ replace[R-opaque-type] <<<reader: &mut dyn BufRead, writer: &mut dyn Write>>> => <<<reader: &mut Reader, writer: &mut Writer>>>
//@ replace[R-reader] <<<InputList::from_reader(reader)?>>> => <<<Transformer::read_document(reader)?>>>
//@ replace[R-clone] <<<self.context.set_events(input.events.clone());>>> => <<<self.context.set_events(&input);>>>
//@ ensures
//@ - r is Ok ==> final(self).context.real_svg == spec_real_svg(doc_of(*old(reader)).events@)     @@C02.root.synthesis_iff_document_not_real @@C03.document.real_iff_outermost_svg
//@end

//@item src/transform.rs :: impl Transformer :: fn postprocess
//@ replace[R-opaque-type] <<<writer: &mut dyn Write,>>> => <<<writer: &mut Writer,>>>
//@ replace[R-abstract] <<<            OutputList::from(vec![\n                OutputEvent::Text(indent.clone()),\n                OutputEvent::Comment(format!(\n                    " Generated by {} v{} ",\n                    env!("CARGO_PKG_NAME"),\n                    env!("CARGO_PKG_VERSION")\n                )),\n                OutputEvent::Text(indent),\n                OutputEvent::Comment(format!(" Config: {:?} ", self.context.config)),\n            ])\n            .write_to(writer)?;>>> => <<<            OutputList::debug_header(&self.context.config).write_to(writer)?;>>>
//@ replace[R-abstract] <<<OutputList::from([OutputEvent::End("svg".to_owned())].as_slice())>>> => <<<OutputList::root_end()>>>
//@ replace[R-matches] <<<matches!(first_svg, OutputEvent::Empty(_))>>> => <<<first_svg.is_empty_elem()>>>
//@ ensures
//@ - self.context.real_svg ==> final(writer).log() == old(writer).log().push(WriteOp::List(output.0))     @@C03.post.none @@C05.post.none
//@ - r is Ok ==> final(writer).depth() == old(writer).depth() + balance(output.0)     @@C02.root.closed
//@ - r is Ok && !self.context.real_svg && pivot_of(output.0, "svg"@) is Some && is_empty_event(pivot_of(output.0, "svg"@)->Some_0) ==>
//@       final(writer).log().len() > 0 && final(writer).log().last() == WriteOp::List(root_end_spec())     @@C02.root.end_tag_last
//@end
}

// ------------------------------------------------------------------------------ Container
pub trait EventGen {
//@item src/transform.rs :: trait EventGen :: fn generate_events
//@end
}
impl EventGen for SvgElement {
    #[verifier::external_body]
    fn generate_events(&self, context: &mut TransformerContext) -> (r: Result<(OutputList, Option<BoundingBox>)>)
        // a graphics element (shape, use, reuse) closes with the bindings it found (U-scope: C15.reuse.bindings_restored; OtherElement never touches the scopes)
        ensures graphics_name(self.name@) ==> final(context).scope_stack@ == old(context).scope_stack@,
            final(context).current_depth == old(context).current_depth,      // U-depth: C17.depth.restored
            graphics_name(self.name@) ==> final(context).config == old(context).config,      // only <config> changes the configuration (U-config)
    { unimplemented!() }
}
//@item src/transform.rs :: struct Container
//@end
#[verifier::external_body] pub fn ev_start(e: SvgElement) -> OutputEvent { unimplemented!() }
#[verifier::external_body] pub fn ev_end(n: String) -> OutputEvent { unimplemented!() }
#[verifier::external_body] pub fn usize_to_string(n: usize) -> String { unimplemented!() }
impl AttrMap { #[verifier::external_body] pub fn insert(&mut self, k: &str, v: String) { unimplemented!() } }

impl EventGen for Container {
//@item src/transform.rs :: impl EventGen for Container :: fn generate_events
//@ strlit "circle" "ellipse" "image" "line" "path" "polygon" "polyline" "rect" "use" "reuse" "box" "point"
//@ replace[R-inline] <<<for e in inner_events.iter() {>>> => <<<for e in inner_events.events.iter() {>>>
//@ replace[R-inline] <<<inner_events.is_empty()>>> => <<<(inner_events.events.len() == 0)>>>
//@ before <<<let mut new_el = self.0.clone();\n                // Special case <svg> elements with an xmlns attribute>>>
//@ | assert(!(graphics_name(self.0.name@) && inner_events.events@.len() == 0)); // a shape written with a start and an end tag and nothing between them is that shape, not a plain container @C11.container.empty_content_is_empty_element
//@ | assert(!(graphics_name(self.0.name@) && inner_text is Some)); // text content of a shape (phantom shapes box / point included) is its text, it is never copied through as a plain container's content @C19.content.promoted_for_every_text_carrier
//@ replace[R-into] <<<return Ok((self.0.all_events(context).into(), None));>>> => <<<return Ok((OutputList::from_input(self.0.all_events(context)), None));>>>
//@ replace[R-into] <<<                    new_el\n                        .attrs\n                        .insert("data-src-line", self.0.src_line.to_string());>>> => <<<                    new_el.attrs.insert("data-src-line", usize_to_string(self.0.src_line));>>>
//@ replace[R-into] <<<events.push(OutputEvent::Start(new_el.clone()));>>> => <<<events.push(ev_start(new_el.clone()));>>>
//@ replace[R-into] <<<(inner_events.into(), None)>>> => <<<(OutputList::from_input(inner_events), None)>>>
//@ replace[R-into] <<<events.push(OutputEvent::End(self.0.name.clone()));>>> => <<<events.push(ev_end(self.0.name.clone()));>>>
//@ strlit "clipPath" "mask" "marker" "pattern"
//@ replace[R-matches] <<<matches!(\n                    self.0.name.as_str(),\n                    "clipPath" | "mask" | "marker" | "pattern"\n                )>>> => <<<(self.0.name.as_str() == "clipPath" || self.0.name.as_str() == "mask" || self.0.name.as_str() == "marker" || self.0.name.as_str() == "pattern")>>>
//@ replace[R-typeann] <<<let mut inner_text = None;>>> => <<<let mut inner_text: Option<String> = None;>>>
//@ replace[R-any] <<<let has_cdata = inner_events.iter().any(|e| e.cdata_string().is_some());>>> => <<<let has_cdata = any_cdata(&inner_events);>>>
//@ replace-all[R-default] <<<inner_text.unwrap_or_default()>>> => <<<string_or_empty(inner_text)>>>
//@ replace-re[R-string] <<<so_far\.push_str\(([^;]+)\);>>> => <<<string_push_str(&mut so_far, \1);>>>
//@ after <<<// give back the depth already counted for it\n                context.dec_depth()?;>>>
//@ | assert(context.current_depth + 1 == old(context).current_depth); // the element itself, dispatched again as an empty one, is not a nesting level of its own: the dispatcher counts it once @C17.depth.text_content_same_level
//@ before <<<el.set_attr("text", text);>>>
//@ | assert(text@ == content_sig(inner_events.events@, inner_events.events@.len() as int, has_cdata_spec(inner_events.events@))); // element content promoted to the text attribute is the author's text: every piece, in order, verbatim @C19.content.promoted_verbatim @C19.content.whole
//@ ensures
//@ - self.0.name@ == "svg"@ && attr_of(self.0, "xmlns"@) == Some(svg_ns()) && self.0.inner_events_some(*old(context)) ==>
//@     r is Ok && r->Ok_0.0 == into_output(all_events_of(self.0, *old(context))) && r->Ok_0.1 is None
//@     && *final(context) == *old(context)     @@C03.nested.verbatim
//@ - r is Ok && old(context).scope_stack.len() > 0 ==> final(context).scope_stack@ == old(context).scope_stack@     @@C15.container.bindings_restored
//@ - r is Ok ==> final(context).current_depth == old(context).current_depth     @@C17.depth.container_restored
//@ - r is Err && 0 < old(context).current_depth <= depth_limit_of(old(context).config) && graphics_name(self.0.name@) && self.0.inner_events_some(*old(context)) ==> final(context).current_depth == old(context).current_depth     @@C17.depth.container_restored_on_error
//@ - r is Ok && (self.0.name@ == "clipPath"@ || self.0.name@ == "mask"@ || self.0.name@ == "marker"@ || self.0.name@ == "pattern"@ || self.0.name@ == "defs"@) ==> r->Ok_0.1 is None     @@C08.container.referenced_only_adds_nothing
//@ loop 1
//@ iter it
//@ body-start
//@ | proof { reveal_with_fuel(content_sig, 2); assert(inner_events.events@[it.index@] == *e); }
//@ invariant_except_break
//@ - inner_text is Some ==> inner_text->Some_0@ == content_sig(inner_events.events@, it.index@, has_cdata)     @@C19.content.whole @@C19.content.promoted_verbatim
//@ - inner_text is None ==> it.index@ == 0
//@ invariant
//@ - inner_events.events@ == it.history@.map(|i: int, e: &InputEvent| *e) + vstd::std_specs::iter::IteratorSpec::remaining(&it.iter).map(|i: int, e: &InputEvent| *e)
//@ - it.index@ == it.history@.len()
//@ - has_cdata == has_cdata_spec(inner_events.events@)
//@ ensures
//@ - inner_text is Some ==> inner_text->Some_0@ == content_sig(inner_events.events@, inner_events.events@.len() as int, has_cdata)     @@C19.content.whole
//@end
}
} // verus!
fn main() {}
