"""Witness search: Verus gives no counterexample, so for a failed obligation we try to obtain a
concrete failing input by running small generated svgdx documents through the REAL binary built
from /repo's working tree. Best effort: no witness => the VIOLATION line says no-failing-input-found."""
import os
import subprocess
import tempfile

VERIF = os.path.dirname(os.path.dirname(os.path.abspath(__file__)))
TARGET = os.path.join(os.environ.get("VERIF_WORK", os.path.join(VERIF, ".work")), "target")

_bin = {}


def svgdx_bin(repo):
    if repo in _bin:
        return _bin[repo]
    # one target directory per source tree: cargo does not re-link debug/svgdx when it finds another tree's build fresh
    import hashlib
    target = TARGET if os.path.realpath(repo) == "/repo" else TARGET + "-" + hashlib.md5(os.path.realpath(repo).encode()).hexdigest()[:8]
    env = dict(os.environ, CARGO_TARGET_DIR=target, CARGO_NET_OFFLINE="true")
    p = subprocess.run(["cargo", "build", "--offline", "--quiet", "--bin", "svgdx", "--no-default-features", "--features", "cli"],
                       cwd=repo, env=env, stdout=subprocess.PIPE, stderr=subprocess.PIPE, universal_newlines=True, timeout=900)
    if p.returncode != 0:
        raise RuntimeError("cargo build failed: " + p.stderr[-500:])
    _bin[repo] = os.path.join(target, "debug", "svgdx")
    return _bin[repo]


def run_svgdx(repo, doc, args=(), timeout=5, raw=False):
    """-> dict(rc, out, err, timeout)"""
    b = svgdx_bin(repo)
    data = doc if isinstance(doc, bytes) else doc.encode()
    try:
        p = subprocess.run(["/bin/sh", "-c", "ulimit -v 4000000; exec \"$0\" \"$@\"", b] + list(args), input=data,
                           stdout=subprocess.PIPE, stderr=subprocess.PIPE, timeout=timeout)
        return {"rc": p.returncode, "out": p.stdout.decode("utf-8", "replace"), "err": p.stderr.decode("utf-8", "replace"), "timeout": False}
    except subprocess.TimeoutExpired:
        return {"rc": None, "out": "", "err": "", "timeout": True}


GENERATORS = []   # (label prefix, function(repo, ob, failure) -> witness dict or None)


def generator(prefix):
    def deco(fn):
        GENERATORS.append((prefix, fn))
        return fn
    return deco


def search(prop, ob, failure, repo="/repo"):
    labels = list(ob.get("labels") or []) + [ob["id"].split("@")[0], ob["id"]]
    # generators registered for a label of the property being checked come first
    own = [l for l in labels if l.startswith(prop + ".")]
    tried = set()
    for lset in (own, labels):
        for prefix, fn in GENERATORS:
            if fn in tried or not any(l.startswith(prefix) for l in lset):
                continue
            tried.add(fn)
            w = fn(repo, dict(ob, labels=lset), failure)
            if w:
                w.setdefault("reproduced", True)
                return w
    return {"reproduced": False, "note": "no generated document showed the failure (or no generator for this obligation)"}


# ------------------------------------------------------------------------------------------
@generator("C17.depth.restored")
def _depth_leak(repo, ob, failure):
    kinds = {
        "text": lambda i: '<text x="%d" y="0">t</text>' % i,
        "defs": lambda i: "<defs><rect/></defs>",
        "rect": lambda i: '<rect xy="%d 0" wh="1"/>' % i,
        "g": lambda i: '<g><rect xy="%d 0" wh="1"/></g>' % i,
        "tspan-text": lambda i: '<text xy="%d 0"><tspan>a</tspan></text>' % i,
    }
    for name, mk in kinds.items():
        for n in (150, 1200):
            doc = "<svg>" + "".join(mk(i) for i in range(n)) + "</svg>"
            r = run_svgdx(repo, doc)
            if r["rc"] not in (0, None) and "Depth" in r["err"]:
                return {"input": doc[:300] + ("..." if len(doc) > 300 else ""), "input_description": "%d sibling <%s> elements in a flat document" % (n, name),
                        "observed": r["err"].strip()[:300], "expected": "accepted: nesting depth is 2"}
    return None


@generator("C01.path.")
def _path_hang(repo, ob, failure):
    import itertools
    cmds = "MmLlHhVvZzCcSsQqTtAa"
    for a, tail in itertools.product(cmds, ("5", " 5 5", "1,2 3")):
        for pre in ("M0 0", "M0 0 L1 1"):
            d = "%s%s%s" % (pre, a, tail)
            doc = '<svg><path d="%s"/></svg>' % d
            r = run_svgdx(repo, doc, timeout=3)
            if r["timeout"]:
                return {"input": doc, "observed": "no result within 3 s (killed)", "expected": "SVG or error"}
            if r["rc"] not in (0, 1, 2):
                return {"input": doc, "observed": "exit %s: %s" % (r["rc"], r["err"][-300:]), "expected": "SVG or error"}
    return None


@generator("C17.limit.final")
@generator("C17.loop.")
def _loop_limit(repo, ob, failure):
    """a loop that needs limit+1 passes must be rejected"""
    import re as _re
    for limit in (1, 3, 7):
        need = limit + 1
        docs = {
            "until": '<svg><config loop-limit="%d"/><var i="0"/><loop until="eq($i, %d)"><var i="{{$i + 1}}"/><rect xy="$i 0" wh="1"/></loop></svg>' % (limit, need),
            "while": '<svg><config loop-limit="%d"/><var i="0"/><loop while="lt($i, %d)"><var i="{{$i + 1}}"/><rect xy="$i 0" wh="1"/></loop></svg>' % (limit, need),
            "count": '<svg><config loop-limit="%d"/><loop count="%d" loop-var="i"><rect xy="$i 0" wh="1"/></loop></svg>' % (limit, need),
            "for": '<svg><config loop-limit="%d"/><for var="i" data="%s"><rect xy="$i 0" wh="1"/></for></svg>' % (limit, ", ".join(str(k) for k in range(need))),
        }
        for kind, doc in docs.items():
            r = run_svgdx(repo, doc)
            n = len(_re.findall(r"<rect ", r["out"]))
            if r["rc"] == 0 and n < need:
                return {"input": doc, "observed": "exit 0 with %d of the %d requested passes rendered (truncated)" % (n, need), "expected": "LoopLimitError"}
            if r["rc"] == 0 and n > limit:
                return {"input": doc, "observed": "exit 0 with %d rects: %d passes ran although loop-limit=%d" % (n, n, limit), "expected": "LoopLimitError"}
    return None


@generator("C15.scope.restored")
def _scope_leak(repo, ob, failure):
    """a variable bound by a scoping element must be invisible after it, also when the element
    had to be retried because of a forward reference"""
    docs = [
        ('group', '<svg><g k="LEAK"><rect xy="#z|h" wh="2"/></g><rect id="z" wh="2"/><text xy="0" text="[$k]"/></svg>'),
        ('reuse-position', '<svg><specs><rect id="t" wh="2"/></specs><reuse href="#t" k="LEAK" xy="#z|h"/><rect id="z" wh="2"/><text xy="0" text="[$k]"/></svg>'),
        ('reuse-size', '<svg><specs><rect id="t" wh="#z"/></specs><reuse href="#t" k="LEAK"/><rect id="z" wh="2"/><text xy="0" text="[$k]"/></svg>'),
        ('reuse-nested', '<svg><specs><g id="t"><rect xy="#z|h" wh="2"/></g></specs><reuse href="#t" k="LEAK"/><rect id="z" wh="2"/><text xy="0" text="[$k]"/></svg>'),
    ]
    fn = ob.get("fn", "")
    for name, doc in docs:
        if ("Group" in fn and name != "group") or ("Reuse" in fn and not name.startswith("reuse")):
            continue
        r = run_svgdx(repo, doc)
        if r["rc"] == 0 and "[LEAK]" in r["out"]:
            return {"input": doc, "input_description": name, "observed": "text rendered as [LEAK]: the binding escaped its element",
                    "expected": "[$k] left verbatim (undefined outside the element)"}
    return None


@generator("C05.")
def _fixed_point(repo, ob, failure):
    """T(T(x)) must equal T(x) byte for byte"""
    docs = [
        '<svg xmlns="http://example.com/x"><rect wh="5"/></svg>',
        '<svg><rect wh="5" text="a &quot;b&quot;"/></svg>',
        '<svg><rect wh="5" text="x &amp; y"/></svg>',
        '<svg><rect wh="5"/></svg>',
        '<svg><text xy="1">a &lt; b</text></svg>',
    ]
    for doc in docs:
        r1 = run_svgdx(repo, doc)
        if r1["rc"] != 0:
            continue
        r2 = run_svgdx(repo, r1["out"])
        if r2["rc"] != 0 or r2["out"] != r1["out"]:
            import difflib
            d = "\n".join(list(difflib.unified_diff(r1["out"].split("\n"), r2["out"].split("\n"), lineterm="", n=0))[:12])
            return {"input": doc, "observed": "second pass differs (rc=%s): %s" % (r2["rc"], d[:600]), "expected": "byte-identical output"}
    return None


@generator("C10.")
def _forward_ref(repo, ob, failure):
    """geometry must not depend on whether a referenced sibling is written before or after"""
    import re as _re
    cases = [
        # (elements in document order A, same elements in order B)
        (['<rect id="d" xy="#a|h" width="4" height="4"/>', '<rect surround="#d"/>', '<rect id="a" xy="10" wh="4"/>'], [2, 0, 1]),
        (['<rect id="b" x="0" y="0" width="10" height="10" dx="{{#z~w}}"/>', '<rect id="n" xy="#b|h 2" wh="2"/>', '<rect id="z" xy="50 50" wh="7"/>'], [2, 0, 1]),
        (['<circle id="b" cx="5" cy="5" r="5" dy="{{#z~h}}"/>', '<rect id="n" xy="#b|v 2" wh="2"/>', '<rect id="z" xy="50 50" wh="7"/>'], [2, 0, 1]),
        (['<line id="z" start="#p" end="#q"/>', '<rect id="a" xy="#z|h 5" wh="10"/>', '<rect id="p" xy="20 20" wh="10"/>', '<rect id="q" xy="60 40" wh="10"/>'], [2, 3, 0, 1]),
        (['<box id="z" cx="#y~cx" cy="#y~cy" width="30" height="30"/>', '<rect id="a" xy="#z|h 5" wh="10"/>', '<rect id="y" xy="100 100" wh="10"/>'], [2, 0, 1]),
        (['<point id="z" cx="#y~cx" cy="#y~cy"/>', '<rect id="a" xy="#z|h 5" wh="10"/>', '<rect id="y" xy="100 100" wh="10"/>'], [2, 0, 1]),
        (['<use href="#a" x="100"/>', '<rect id="a" xy="#b|h" wh="10"/>', '<rect id="b" xy="0" wh="10"/>'], [2, 1, 0]),
        (['<use id="u" href="#s" xy="#q|h 5"/>', '<g id="s"><rect xy="#q@tl" wh="20"/></g>', '<rect id="q" xy="0" wh="10"/>'], [2, 1, 0]),
        (['<circle id="d" cxy="#a|v" r="3"/>', '<rect xy="#d|h" wh="2"/>', '<rect id="a" xy="10" wh="4"/>'], [2, 0, 1]),
        (['<line id="d" xy1="#a@br" x2="30" y2="30"/>', '<rect surround="#d"/>', '<rect id="a" xy="10" wh="4"/>'], [2, 0, 1]),
        (['<rect id="d" xy="#a|h" wh="4"/>', '<rect xy="#d|v" wh="2"/>', '<rect id="a" xy="10" wh="4"/>'], [2, 0, 1]),
        (['<use id="t" href="#b" xy="30 40"/>', '<rect id="b" wh="10"/>', '<rect id="s" xy="#t|h 2" wh="4"/>'], [1, 0, 2]),
        (['<use id="t" href="#b" xy="30 40"/>', '<rect id="s" cxy="#t@c" wh="4"/>', '<rect id="b" wh="10"/>'], [2, 0, 1]),
        (['<rect id="d" xy="#a|h" wh="4"/>', '<rect id="s" cxy="#d@c" wh="2"/>', '<rect id="a" xy="10" wh="4"/>'], [2, 0, 1]),
        (['<rect id="d" xy="#a|h" wh="4"/>', '<rect id="s" xy="1 2" width="#d" height="#d 50%"/>', '<rect id="a" xy="10" wh="4"/>'], [2, 0, 1]),
        (['<polyline id="p" points="#a@c #b@c"/>', '<rect id="a" xy="10" wh="4"/>', '<rect id="b" xy="30 20" wh="4"/>'], [1, 2, 0]),
        (['<polygon id="p" points="#a@tl, #b@br, 0 50"/>', '<rect id="a" xy="10" wh="4"/>', '<rect id="b" xy="30 20" wh="4"/>'], [1, 0, 2]),
        (['<rect id="s" surround="#d"/>', '<rect id="d" cx="#a~x2" cy="10" width="4" height="4"/>', '<rect id="a" x="20" y="0" width="5" height="5"/>'], [0, 2, 1]),
        (['<rect id="s" xy="#d|h 2" wh="3"/>', '<circle id="d" x="#a~x2" y="10" r="4"/>', '<rect id="a" x="20" y="0" width="5" height="5"/>'], [0, 2, 1]),
        (['<rect id="p" inside="#a"/>', '<circle id="a" cxy="#b@c" r="9"/>', '<rect id="b" xy="30 20" wh="4"/>'], [2, 1, 0]),
        (['<rect id="p" inside="#a"/>', '<ellipse id="a" cxy="#b@c" rxy="9 6"/>', '<rect id="b" xy="30 20" wh="4"/>'], [2, 1, 0]),
        (['<use id="u" href="#t" cxy="20 20"/>', '<rect id="t" xy="#z|h" wh="4"/>', '<rect id="z" wh="2"/>'], [2, 1, 0]),
        (['<rect id="a" xy="20 20" wh="10"/>', '<reuse id="i" href="#t" xy="#a|H 2"/>', '<rect id="t" xy="#z|h" wh="6 4"/>', '<rect id="z" wh="3"/>'], [3, 2, 0, 1]),
    ]

    def geom(out):
        els = _re.findall(r"<(rect|circle|line|ellipse|polyline|polygon|use)\b([^>]*)>", out)
        root = _re.search(r'<svg[^>]*viewBox="([^"]*)"', out)
        return sorted((n, " ".join(sorted(_re.findall(r'\b(?:x|y|cx|cy|r|rx|ry|x1|y1|x2|y2|width|height|points)="[^"]*"', a)))) for n, a in els) + [("viewBox", root.group(1) if root else "")]
    for els, perm in cases:
        a = "<svg>" + "".join(els) + "</svg>"
        b = "<svg>" + "".join(els[i] for i in perm) + "</svg>"
        ra, rb = run_svgdx(repo, a), run_svgdx(repo, b)
        if ra["rc"] == 0 and rb["rc"] == 0 and geom(ra["out"]) != geom(rb["out"]):
            return {"input": a, "input_permuted": b, "observed": "geometry differs between the two orders: %s vs %s" % (geom(ra["out"]), geom(rb["out"])),
                    "expected": "identical coordinates for every element"}
        if (ra["rc"] == 0) != (rb["rc"] == 0):
            return {"input": a, "input_permuted": b, "observed": "one order fails (rc %s) the other succeeds (rc %s)" % (ra["rc"], rb["rc"]),
                    "expected": "same outcome in both orders"}
    return None


def _parse_xml(s):
    import xml.etree.ElementTree as ET
    try:
        return ET.fromstring(s), None
    except ET.ParseError as e:
        return None, str(e)


def _infoset(el):
    return (el.tag, sorted(el.attrib.items()), (el.text or ""), [(_infoset(c), c.tail or "") for c in el])


@generator("panic_free@From<InputEvent>")
@generator("panic_free@InputEvent")
@generator("C01.events.")
def _utf8_panic(repo, ob, failure):
    ns = b'<svg xmlns="http://www.w3.org/2000/svg">'
    docs = [
        ns + b'<!-- \xff --></svg>',
        ns + b'<style><![CDATA[ \xff ]]></style></svg>',
        ns + b'<text>\xff</text></svg>',
        ns + b'<\xff></\xff></svg>',
        b'<svg><!-- \xff --><rect wh="3"/></svg>',
        b'<svg><text xy="1"><![CDATA[\xfe]]></text></svg>',
        b'<svg><\xff wh="3"/></svg>',
    ]
    for doc in docs:
        r = run_svgdx(repo, doc)
        if r["timeout"] or r["rc"] not in (0, 1, 2) or "panicked" in r["err"]:
            return {"input": repr(doc), "observed": "exit %s: %s" % (r["rc"], r["err"].strip()[-300:]), "expected": "SVG or an error value, never a panic"}
    return None


@generator("C02.attr.escaped")
def _attr_escape(repo, ob, failure):
    docs = ['<svg><rect wh="5" data-a="x &lt; y"/></svg>', '<svg><rect wh="5" data-a="a &amp; b"/></svg>', '<svg><rect wh="5" data-a="say &quot;hi&quot;"/></svg>',
            '<svg><rect wh="5" class="a&lt;b"/></svg>', '<svg xmlns="http://www.w3.org/2000/svg"><rect data-a="x &lt; y"/></svg>']
    for doc in docs:
        r = run_svgdx(repo, doc)
        if r["rc"] != 0:
            continue
        tree, err = _parse_xml(r["out"])
        if tree is None:
            return {"input": doc, "observed": "output is not well-formed XML: %s" % err, "output_excerpt": r["out"][-300:], "expected": "attribute value escaped"}
    return None


@generator("C03.")
def _real_svg_infoset(repo, ob, failure):
    docs = ['<svg xmlns="http://www.w3.org/2000/svg"><text>a &amp; b &lt; c</text></svg>',
            '<svg xmlns="http://www.w3.org/2000/svg"><text>say &quot;hi&quot;</text><rect data-a="x &lt; y"/></svg>',
            '<svg xmlns="http://www.w3.org/2000/svg"><!-- c --><style><![CDATA[ a > b ]]></style><g><text>t</text></g></svg>',
            '<svg><svg xmlns="http://www.w3.org/2000/svg"><text>a &amp; b</text></svg><rect wh="2"/></svg>',
            '<svg><rect wh="1"/><svg xmlns="http://www.w3.org/2000/svg" wh="5" text="hi"/></svg>']
    # (the inputs of the known finding C03.text.whole are tried for that obligation only)
    blanks = ['<svg xmlns="http://www.w3.org/2000/svg"><text>line one   \n  two  </text></svg>',
              '<svg xmlns="http://www.w3.org/2000/svg"><text xml:space="preserve">x \n \ny</text></svg>']
    if any("class" in l for l in (ob.get("labels") or [ob.get("id", "")])):
        docs = ['<svg xmlns="http://www.w3.org/2000/svg"><rect class="a a  b"/></svg>', '<svg xmlns="http://www.w3.org/2000/svg"><rect class=""/></svg>'] + docs
    if any(".text.whole" in l for l in (ob.get("labels") or [ob.get("id", "")])):
        docs = blanks + docs
    for doc in docs:
        r = run_svgdx(repo, doc)
        if r["rc"] != 0:
            return {"input": doc, "observed": "real SVG rejected: %s" % r["err"][-200:], "expected": "identical infoset"}
        a, _ = _parse_xml(doc)
        b, err = _parse_xml(r["out"])
        if b is None:
            return {"input": doc, "observed": "output not well-formed: %s" % err, "expected": "identical infoset"}
        if doc.startswith('<svg xmlns') and _infoset(a) != _infoset(b):
            return {"input": doc, "observed": "infoset differs: %r vs %r" % (_infoset(a), _infoset(b)), "expected": "identical infoset"}
        if not doc.startswith('<svg xmlns'):
            ia = [_infoset(c) for c in a if c.tag.endswith('svg')]
            ib = [_infoset(c) for c in b.iter() if c.tag.endswith('svg') and c is not b]
            if ia and ia[0] not in ib:
                return {"input": doc, "observed": "nested svg infoset differs: %r vs %r" % (ia, ib), "expected": "identical infoset of the nested svg"}
    return None


@generator("C19.content.")
def _content_text(repo, ob, failure):
    for doc, want in (('<svg><text xy="1">a &amp; b</text></svg>', "a & b"), ('<svg><rect wh="9">x &lt; y</rect></svg>', "x < y"),
                      ('<svg><rect wh="9">  padded  </rect></svg>', "  padded  "), ('<svg><text xy="1"> lead</text></svg>', " lead")):
        r = run_svgdx(repo, doc)
        if r["rc"] != 0:
            continue
        tree, err = _parse_xml(r["out"])
        if tree is None:
            return {"input": doc, "observed": "output not well-formed: " + err, "expected": want}
        texts = ["".join(t.itertext()) for t in tree.iter() if t.tag.endswith("text")]
        if want not in texts:
            return {"input": doc, "observed": "character data of generated text: %r" % texts, "expected": repr(want)}
    return None


@generator("C06.")
def _determinism(repo, ob, failure):
    """same input, same configuration, several fresh processes: the bytes must be identical"""
    docs = [
        '<svg>' + "".join('<rect xy="%d 0" wh="8" class="d-grid-%d d-hatch-%d d-stipple-%d"/>' % (10 * i, i + 2, i + 3, i + 4) for i in range(8)) + '</svg>',
        '<svg><rect wh="5" class="d-red d-fill-blue d-softshadow d-grid"/><text xy="1" text="{{random()}}"/></svg>',
    ]
    for doc in docs:
        outs = set()
        for _ in range(8):
            r = run_svgdx(repo, doc)
            outs.add((r["rc"], r["out"]))
        if len(outs) > 1:
            import difflib
            a, b = sorted(outs)[:2]
            d = [l for l in difflib.unified_diff(a[1].split("\n"), b[1].split("\n"), lineterm="", n=0)][:8]
            return {"input": doc[:400], "observed": "%d different outputs in 8 runs; first difference: %s" % (len(outs), " | ".join(d)[:500]),
                    "expected": "identical bytes on every run"}
    return None


@generator("panic_free@ElementMap_for_TransformerContext::get_element_bbox")
def _clip_cycle(repo, ob, failure):
    docs = ['<svg><clipPath id="c" clip-path="url(#c)"><rect wh="5"/></clipPath><rect wh="9" clip-path="url(#c)"/></svg>',
            '<svg><clipPath id="a" clip-path="url(#b)"><rect wh="5"/></clipPath><clipPath id="b" clip-path="url(#a)"><rect wh="5"/></clipPath><rect wh="9" clip-path="url(#a)"/></svg>']
    for doc in docs:
        r = run_svgdx(repo, doc, timeout=20)
        if r["timeout"] or r["rc"] not in (0, 1, 2):
            return {"input": doc, "observed": "exit %s%s: %s" % (r["rc"], " (timeout)" if r["timeout"] else "", r["err"].strip()[-200:]),
                    "expected": "an error value (circular reference), never a stack overflow"}
    return None


@generator("C09.dir.")
@generator("C09.delta.")
def _dir_placement(repo, ob, failure):
    """reference model of `|h |H |v |V` over rects, with and without dw/dh: beside the referenced
    box, centred on the shared axis, separated by the gap, using the element's FINAL size"""
    ax1, ay1, aw, ah = 20.0, 20.0, 30.0, 20.0
    for d in "hHvV":
        for gap in (None, 2.0, -3.0):
            for (w, h) in ((10.0, 10.0), (10.0, 6.0)):
                for dwh in (None, (4.0, 6.0), ("50%", "150%")):
                    fw, fh = w, h
                    if dwh:
                        fw = w * float(dwh[0][:-1]) / 100 if isinstance(dwh[0], str) else w + dwh[0]
                        fh = h * float(dwh[1][:-1]) / 100 if isinstance(dwh[1], str) else h + dwh[1]
                    g = gap or 0.0
                    cx, cy = ax1 + aw / 2, ay1 + ah / 2
                    ex, ey = {"h": (ax1 + aw + g, cy - fh / 2), "H": (ax1 - g - fw, cy - fh / 2),
                              "v": (cx - fw / 2, ay1 + ah + g), "V": (cx - fw / 2, ay1 - g - fh)}[d]
                    doc = '<svg><rect id="a" xy="%g %g" wh="%g %g"/><rect id="b" xy="#a|%s%s" wh="%g %g"%s/></svg>' % (
                        ax1, ay1, aw, ah, d, "" if gap is None else " %g" % gap, w, h,
                        "" if not dwh else ' dwh="%s %s"' % tuple(("%g" % v if not isinstance(v, str) else v) for v in dwh))
                    r = run_svgdx(repo, doc)
                    if r["rc"] != 0:
                        continue
                    tree, err = _parse_xml(r["out"])
                    if tree is None:
                        continue
                    b = [e for e in tree.iter() if e.attrib.get("id") == "b"]
                    if not b:
                        continue
                    try:
                        got = tuple(float(b[0].attrib.get(k, "nan")) for k in ("x", "y", "width", "height"))
                    except ValueError:
                        continue
                    want = (ex, ey, fw, fh)
                    if any(not abs(p - q) <= 0.002 for p, q in zip(got, want)):
                        return {"input": doc, "observed": "x,y,width,height = %r" % (got,), "expected": "%r" % (want,)}
    return None


@generator("C16.cond.")
def _cond_nonzero(repo, ob, failure):
    """<if test=V> renders its body exactly when V is non-zero; while / until likewise"""
    for v, want in (("-1", True), ("0", False), ("0.5", True), ("-0.25", True), ("2", True), ("{{0 - 3}}", True),
                    ("0.0004", True), ("1 / 4000", True), ("-0.0001", True), ("0.0", False), ("1 - 1", False)):
        doc = '<svg><if test="%s"><rect id="z" wh="3"/></if></svg>' % v
        r = run_svgdx(repo, doc)
        if r["rc"] != 0:
            continue
        got = 'id="z"' in r["out"]
        if got != want:
            return {"input": doc, "observed": "body %s" % ("rendered" if got else "not rendered"), "expected": "body %s" % ("rendered" if want else "not rendered")}
    return None


@generator("C16.loop.")
@generator("C14.header.once")
def _loop_unrolling(repo, ob, failure):
    """a loop renders what its unrolling renders; header expressions are evaluated once, before the passes"""
    def count(doc, needle):
        r = run_svgdx(repo, doc)
        return None if r["rc"] != 0 else r["out"].count(needle)
    cases = [
        ('<svg><var n="3"/><loop count="$n"><var n="{{$n - 1}}"/><rect class="z" wh="2"/></loop></svg>', 3),
        ('<svg><var n="2"/><loop count="$n"><var n="{{$n + 1}}"/><rect class="z" wh="2"/></loop></svg>', 2),
        ('<svg><loop count="4" loop-var="i" start="1" step="2"><rect class="z" wh="$i"/></loop></svg>', 4),
        ('<svg><var i="0"/><loop while="{{lt($i, 3)}}"><var i="{{$i + 1}}"/><rect class="z" wh="2"/></loop></svg>', 3),
        ('<svg><var i="0"/><loop until="{{ge($i, 3)}}"><var i="{{$i + 1}}"/><rect class="z" wh="2"/></loop></svg>', 3),
        ('<svg><var i="5"/><loop until="{{ge($i, 3)}}"><var i="{{$i + 1}}"/><rect class="z" wh="2"/></loop></svg>', 1),
    ]
    for doc, want in cases:
        got = count(doc, 'class="z"')
        if got is not None and got != want:
            return {"input": doc, "observed": "%d copies of the body" % got, "expected": "%d copies (the manual unrolling)" % want}
    return None


@generator("C13.endpoint.")
def _connector_endpoints(repo, ob, failure):
    """line connectors between two rects: a named location is used as given, the free end is the
    candidate (edge mid-points + corners) of ITS element closest to the other end"""
    def locs(x, y, w, h):
        return {"tl": (x, y), "t": (x + w / 2, y), "tr": (x + w, y), "r": (x + w, y + h / 2), "br": (x + w, y + h),
                "b": (x + w / 2, y + h), "bl": (x, y + h), "l": (x, y + h / 2)}
    a = (0.0, 0.0, 10.0, 10.0)
    for bpos in ((30.0, 40.0), (30.0, -3.0), (-40.0, 25.0), (3.0, 50.0), (-35.0, -45.0)):
        b = (bpos[0], bpos[1], 12.0, 8.0)
        la, lb = locs(*a), locs(*b)
        for named in ("r", "tl", "b", "l"):
            for named_end in (False, True):
                if not named_end:
                    p = la[named]
                    cands = lb
                    doc_line = '<line id="c" start="#a@%s" end="#b"/>' % named
                else:
                    p = lb[named]
                    cands = la
                    doc_line = '<line id="c" start="#a" end="#b@%s"/>' % named
                ds = sorted(((q[0] - p[0]) ** 2 + (q[1] - p[1]) ** 2, k) for k, q in cands.items())
                if ds[1][0] - ds[0][0] < 1e-6:
                    continue       # tie: either is acceptable
                q = cands[ds[0][1]]
                want = (p + q) if not named_end else (q + p)
                doc = '<svg><rect id="a" xy="%g %g" wh="%g %g"/><rect id="b" xy="%g %g" wh="%g %g"/>%s</svg>' % (a + b + (doc_line,))
                r = run_svgdx(repo, doc)
                if r["rc"] != 0:
                    continue
                tree, err = _parse_xml(r["out"])
                if tree is None:
                    continue
                c = [e for e in tree.iter() if e.attrib.get("id") == "c"]
                if not c:
                    continue
                try:
                    got = tuple(float(c[0].attrib.get(k, "nan")) for k in ("x1", "y1", "x2", "y2"))
                except ValueError:
                    continue
                if any(not abs(u - v) <= 0.002 for u, v in zip(got, want)):
                    return {"input": doc, "observed": "x1,y1,x2,y2 = %r" % (got,), "expected": "%r" % (want,)}
    return None


@generator("C18.group.")
def _reuse_group_translate(repo, ob, failure):
    """a reused group is placed by a translation applied AFTER any transform already on the instance"""
    import re as _re
    for x, y, t in ((3, 5, "rotate(45)"), (-2, 7, "scale(2)"), (4, 0, "rotate(10)")):
        doc = ('<svg><defs><g id="q"><rect wh="10 5"/></g></defs>'
               '<reuse id="i2" href="#q" x="%d" y="%d" transform="%s"/></svg>' % (x, y, t))
        r = run_svgdx(repo, doc)
        if r["rc"] != 0:
            continue
        m = _re.search(r'<g id="i2"[^>]*transform="([^"]*)"', r["out"])
        want = "%s translate(%d, %d)" % (t, x, y)
        if m and m.group(1) != want:
            return {"input": doc, "observed": 'transform="%s"' % m.group(1), "expected": 'transform="%s"' % want}
    return None


@generator("panic_free@eval_function")
@generator("C14.fn.")
def _function_edges(repo, ob, failure):
    """edge-case calls of the built-in functions: an error value or a result, never a panic; and
    a few documented values"""
    calls = ["select(2, 5, 6)", "select(3, 5, 6)", "select(1, 5, 6)", "select(0, 5)", "select(1, 5)", "head()", "tail()", "tail(1)", "head(1)",
             "addv(1)", "addv()", "addv(1, 2, 3)", "subv(1)", "subv(1, 2, 3, 4)", "scalev(1)", "scalev(2, 3)", "in()", "in(1)", "in(1, 2, 1)",
             "empty()", "count()", "clamp(1, 3, 2)", "clamp(5, 1, 3)", "sign(0 - 2)", "mix(1, 3, 0.5)", "lt(1, 2)", "ge(2, 2)", "not(0)", "and(1, 0)", "or(0, 0)"]
    want = {"select(1, 5, 6)": "6", "select(0, 5)": "5", "head(1)": "1", "scalev(2, 3)": "6", "in(1, 2, 1)": "1", "in(1)": "0", "clamp(5, 1, 3)": "3",
            "sign(0 - 2)": "-1", "mix(1, 3, 0.5)": "2", "lt(1, 2)": "1", "ge(2, 2)": "1", "not(0)": "1", "and(1, 0)": "0", "or(0, 0)": "0",
            "subv(1, 2, 3, 4)": "-2, -2"}
    for c in calls:
        doc = '<svg><text xy="1" text="[{{%s}}]"/></svg>' % c
        r = run_svgdx(repo, doc)
        if r["timeout"] or r["rc"] not in (0, 1, 2) or "panicked" in r["err"]:
            return {"input": doc, "observed": "exit %s: %s" % (r["rc"], " ".join(l for l in r["err"].split("\n") if "panicked" in l or "index out" in l)[:300]),
                    "expected": "a value or an error, never a panic"}
        if r["rc"] == 0 and c in want and ("[%s]" % want[c]) not in r["out"]:
            import re as _re
            m = _re.search(r"\[([^\]]*)\]</text>", r["out"])
            return {"input": doc, "observed": m.group(1) if m else r["out"][-200:], "expected": want[c]}
    return None


def _f32_expr(bs):
    """an svgdx expression evaluating to the f32 with these little-endian bytes"""
    import struct
    import math
    v = struct.unpack("<f", bytes(bs))[0]
    if math.isnan(v):
        return "sqrt(0 - 1)"
    if math.isinf(v):
        return "exp(1000)" if v > 0 else "(0 - exp(1000))"
    s = repr(abs(v)) if abs(v) >= 1e-4 and abs(v) < 1e16 else "%.60f" % abs(v) if abs(v) < 1 else "%d" % abs(v)
    return s if v >= 0 and not (v == 0 and math.copysign(1, v) < 0) else "(0 - %s)" % s


KANI_CALLS = {"int_shortcut_exact": ("%s", 1), "clamp_total": ("clamp(%s, %s, %s)", 3), "clamp_value": ("clamp(%s, %s, %s)", 3), "sign_table": ("sign(%s)", 1), "mix_ends": ("mix(%s, %s, %s)", 3)}


@generator("C01.fn.")
@generator("C14.fn.")
@generator("C14.fstr.")
def _kani_counterexample(repo, ob, failure):
    """replay Kani's concrete counterexample (the f32 arguments) against the real binary"""
    cex = failure.get("counterexample")
    h = ob["id"].split("::")[-1]
    if not cex or h not in KANI_CALLS:
        return None
    tmpl, n = KANI_CALLS[h]
    floats = [c["bytes"] for c in cex if len(c["bytes"]) == 4][:n]
    if len(floats) < n:
        return None
    call = tmpl % tuple(_f32_expr(b) for b in floats)
    doc = '<svg><text xy="1" text="[{{%s}}]"/></svg>' % call
    r = run_svgdx(repo, doc)
    if h == "int_shortcut_exact" and r["rc"] == 0:
        import re as _re, struct as _st
        x = _st.unpack("<f", bytes(floats[0]))[0]
        m = _re.search(r"\[([-0-9.eE]+)\]</text>", r["out"])
        if m and x == x and abs(float(m.group(1)) - x) > abs(x) * 1e-6:
            return {"input": doc, "kani_values": [c["repr"] for c in cex], "expected": "the number %r" % x, "observed": m.group(1)}
        return None
    if r["timeout"] or r["rc"] not in (0, 1, 2) or "panicked" in r["err"]:
        return {"input": doc, "kani_values": [c["repr"] for c in cex], "expected": "a value or an error, never a panic",
                "observed": "exit %s: %s" % (r["rc"], " ".join(l.strip() for l in r["err"].split("\n") if "panicked" in l or "min > max" in l)[:300])}
    return None


@generator("C13.h.")
@generator("C13.v.")
@generator("C13.hv.")
def _hv_connectors(repo, ob, failure):
    """h / v connectors: an axis-parallel line through the middle of the overlap of the two referenced
    boxes - for plain shapes and for <use> instances alike"""
    import re as _re
    cases = []
    for kind, mk in (("rect", lambda i, x, y: '<rect id="%s" xy="%g %g" wh="10"/>' % (i, x, y)),
                     ("use", lambda i, x, y: '<use id="%s" href="#t" x="%g" y="%g"/>' % (i, x, y))):
        cases.append((kind, "h", mk("a", 0, 20) + mk("b", 40, 24), {"y1": 27.0, "y2": 27.0, "x1": 10.0, "x2": 40.0}))
        cases.append((kind, "v", mk("a", 0, 20) + mk("b", 4, 44), {"x1": 7.0, "x2": 7.0, "y1": 30.0, "y2": 44.0}))
    for kind, et, shapes, want in cases:
        doc = '<svg><defs><rect id="t" wh="10"/></defs>%s<line id="c" start="#a" end="#b" edge-type="%s"/></svg>' % (shapes, et)
        r = run_svgdx(repo, doc)
        if r["rc"] != 0:
            err = _re.findall(r"(MissingBoundingBox\([^)]*\)|[A-Za-z]+Error\([^)]{0,60})", r["err"])
            return {"input": doc, "observed": "error instead of a line: %s" % (err[-1] if err else r["err"][-200:]), "expected": "line %r" % want}
        m = _re.search(r'<line id="c"([^>]*)>', r["out"])
        got = dict((k, float(v)) for k, v in _re.findall(r'(x1|y1|x2|y2)="([-0-9.]+)"', m.group(1))) if m else {}
        if any(abs(got.get(k, 1e9) - v) > 0.002 for k, v in want.items()):
            return {"input": doc, "observed": "%r" % got, "expected": "%r" % want}
    return None


@generator("C09.loc.")
@generator("C09.scalar.")
def _loc_placement(repo, ob, failure):
    """'@loc' puts the anchor (top-left by default) at the named location plus dx dy; per-axis and
    scalar references take the corresponding value of the referenced box"""
    import re as _re
    ax, ay, aw, ah = 10.0, 20.0, 30.0, 40.0
    loc = {"tl": (ax, ay), "t": (ax + aw / 2, ay), "tr": (ax + aw, ay), "r": (ax + aw, ay + ah / 2), "br": (ax + aw, ay + ah),
           "b": (ax + aw / 2, ay + ah), "bl": (ax, ay + ah), "l": (ax, ay + ah / 2), "c": (ax + aw / 2, ay + ah / 2)}
    cases = []
    for k, (px, py) in loc.items():
        cases.append(('<rect id="b" xy="#a@%s" wh="4 6"/>' % k, {"x": px, "y": py}))
        cases.append(('<rect id="b" xy="#a@%s 3 -2" wh="4 6"/>' % k, {"x": px + 3, "y": py - 2}))
        cases.append(('<rect id="b" cxy="#a@%s 1" wh="4 6"/>' % k, {"x": px + 1 - 2, "y": py + 1 - 3}))
    cases += [('<rect id="b" x="#a@r" y="#a@b" wh="4 6"/>', {"x": ax + aw, "y": ay + ah}),
              ('<rect id="b" x2="#a" y2="#a" wh="4 6"/>', {"x": ax + aw - 4, "y": ay + ah - 6}),
              ('<rect id="b" x="#a~x2" y="#a~cy" wh="4 6"/>', {"x": ax + aw, "y": ay + ah / 2}),
              ('<rect id="b" x="#a~w" y="#a~h 5" wh="4 6"/>', {"x": aw, "y": ah + 5}),
              ('<rect id="b" xy="0" width="#a" height="#a 50%"/>', {"width": aw, "height": ah / 2})]
    for el, want in cases:
        doc = '<svg><rect id="a" xy="%g %g" wh="%g %g"/>%s</svg>' % (ax, ay, aw, ah, el)
        r = run_svgdx(repo, doc)
        if r["rc"] != 0:
            continue
        m = _re.search(r'<rect id="b"([^>]*)>', r["out"])
        got = dict((k, float(v)) for k, v in _re.findall(r'\b(x|y|width|height)="([-0-9.]+)"', m.group(1))) if m else {}
        if any(abs(got.get(k, 1e9) - v) > 0.002 for k, v in want.items()):
            return {"input": doc, "observed": "%r" % got, "expected": "%r" % want}
    return None


@generator("C13.corner.")
def _corner_connectors(repo, ob, failure):
    """corner polylines: axis-parallel segments, leaving the start edge outward and entering the end edge from outside"""
    import re as _re
    boxes = {"a": (0.0, 0.0, 10.0, 10.0), "b": (30.0, 25.0, 14.0, 8.0)}
    out_dir = {"t": (0, -1), "b": (0, 1), "l": (-1, 0), "r": (1, 0)}

    def loc(bx, l):
        x, y, w, h = bx
        return {"t": (x + w / 2, y), "b": (x + w / 2, y + h), "l": (x, y + h / 2), "r": (x + w, y + h / 2)}[l]
    for sl in "tblr":
        for el in "tblr":
            for order in (("a", "b"), ("b", "a")):
                doc = ('<svg><rect id="a" xy="0 0" wh="10 10"/><rect id="b" xy="30 25" wh="14 8"/>'
                       '<polyline id="c" start="#%s@%s" end="#%s@%s"/></svg>' % (order[0], sl, order[1], el))
                r = run_svgdx(repo, doc)
                if r["rc"] != 0:
                    continue
                m = _re.search(r'<polyline id="c"[^>]*points="([^"]*)"', r["out"])
                if not m:
                    continue
                pts = [tuple(float(v) for v in p.split()) for p in m.group(1).split(",")]
                want_s, want_e = loc(boxes[order[0]], sl), loc(boxes[order[1]], el)
                bad = None
                if abs(pts[0][0] - want_s[0]) > 0.002 or abs(pts[0][1] - want_s[1]) > 0.002 or abs(pts[-1][0] - want_e[0]) > 0.002 or abs(pts[-1][1] - want_e[1]) > 0.002:
                    bad = "endpoints %r .. %r, expected %r .. %r" % (pts[0], pts[-1], want_s, want_e)
                elif any(abs(p[0] - q[0]) > 0.002 and abs(p[1] - q[1]) > 0.002 for p, q in zip(pts, pts[1:])):
                    bad = "a segment is not axis-parallel: %r" % (pts,)
                else:
                    d0 = (pts[1][0] - pts[0][0], pts[1][1] - pts[0][1])
                    d1 = (pts[-2][0] - pts[-1][0], pts[-2][1] - pts[-1][1])
                    os_, oe = out_dir[sl], out_dir[el]
                    # (only same-side "U" connectors must step outward; an opposite-side "Z" goes to the midline wherever it is)
                    if sl == el and d0[0] * os_[0] + d0[1] * os_[1] <= 0:
                        bad = "first segment does not leave the %s edge outward: %r" % (sl, pts)
                    elif sl == el and d1[0] * oe[0] + d1[1] * oe[1] <= 0:
                        bad = "last segment does not enter the %s edge from outside: %r" % (el, pts)
                if bad:
                    return {"input": doc, "observed": bad, "expected": "rectilinear polyline between the named locations, perpendicular and outward at both ends"}
    return None


@generator("C11.shorthand.")
def _shorthand_equiv(repo, ob, failure):
    """every shorthand is exactly equivalent to its longhand pair, on every shape that takes the pair"""
    import re as _re
    pairs = [("rect", 'xy="1 2" wh="20 10" rxy="3"', 'xy="1 2" wh="20 10" rx="3" ry="3"'),
             ("rect", 'xy="1 2" wh="20 10" rxy="3 4"', 'xy="1 2" wh="20 10" rx="3" ry="4"'),
             ("circle", 'cxy="25 40" rxy="15"', 'cxy="25 40" rx="15" ry="15"'),
             ("ellipse", 'cxy="25 40" rxy="15 10"', 'cxy="25 40" rx="15" ry="10"'),
             ("rect", 'xy="1,2" wh="20,10"', 'x="1" y="2" width="20" height="10"'),
             ("rect", 'cxy="11 7" wh="20 10"', 'cx="11" cy="7" width="20" height="10"'),
             ("rect", 'xy1="1 2" xy2="21 12"', 'x1="1" y1="2" x2="21" y2="12"'),
             ("rect", 'xy="1 2" wh="18 8" dwh="2"', 'xy="1 2" wh="18 8" dw="2" dh="2"'),
             ("rect", 'xy="1 2" wh="20 10" dxy="3 4"', 'xy="1 2" wh="20 10" dx="3" dy="4"'),
             ("line", 'xy1="1 2" xy2="21 12"', 'x1="1" y1="2" x2="21" y2="12"')]
    def attrs(doc, tag):
        r = run_svgdx(repo, doc)
        m = _re.search(r'<%s id="p"([^>]*)>' % tag, r["out"]) if r["rc"] == 0 else None
        return sorted(_re.findall(r'\b([a-z0-9]+)="([^"]*)"', m.group(1))) if m else ("rc %s" % r["rc"])
    for tag, short, long_ in pairs:
        a, b = attrs('<svg><%s id="p" %s/></svg>' % (tag, short), tag), attrs('<svg><%s id="p" %s/></svg>' % (tag, long_), tag)
        if a != b:
            return {"input": '<svg><%s id="p" %s/></svg>' % (tag, short), "input_longhand": '<svg><%s id="p" %s/></svg>' % (tag, long_),
                    "observed": "shorthand gives %r, longhand gives %r" % (a, b), "expected": "identical output geometry"}
    return None


@generator("C08.polyline.")
def _polyline_extent(repo, ob, failure):
    """the root extent of a polyline / polygon is the same for every separator spelling of its points"""
    import re as _re
    spellings = ["1 2 30 4 5 60", "1,2 30,4 5,60", "1 2, 30 4, 5 60", "1, 2, 30, 4, 5, 60", "1 2,30 4,5 60", " 1  2   30 4 5 60 "]
    want = "-4 -3 39 68"
    for tag in ("polyline", "polygon"):
        for sp in spellings:
            doc = '<svg><%s points="%s"/></svg>' % (tag, sp)
            r = run_svgdx(repo, doc)
            m = _re.search(r'<svg[^>]*viewBox="([^"]*)"', r["out"]) if r["rc"] == 0 else None
            got = m.group(1) if m else ("rc %s, no viewBox" % r["rc"])
            if got != want:
                return {"input": doc, "observed": "viewBox %s" % got, "expected": "viewBox %s (points 1,2 30,4 5,60 grown by the border 5)" % want}
    return None


@generator("C09.point.")
@generator("C11.native.")
def _phantom_placement(repo, ob, failure):
    """<point> and <box> (svgdx's invisible helpers) are positioned like any other element: a sibling placed
    beside them shows where they ended up"""
    import re as _re
    A = '<rect id="a" xy="10 20" wh="30 40"/>'
    cases = [('<point id="p" xy="#a@br"/>', (42, 58)), ('<point id="p" cxy="#a@br"/>', (42, 58)), ('<point id="p" cxy="#a@br" dxy="3 4"/>', (45, 62)),
             ('<point id="p" x2="40" y2="60"/>', (42, 58)),
             ('<box id="p" xy="#a@br" wh="5"/>', (47, 60.5)), ('<box id="p" xy="#a@br" xy-loc="br" wh="5"/>', (42, 55.5)),
             ('<box id="p" cxy="#a@c" wh="6"/>', (30, 38)), ('<box id="p" xy2="40 60" wh="6"/>', (42, 55)),
             ('<rect id="p" cxy="#a@c" wh="6"/>', (30, 38))]
    for el, (x, y) in cases:
        doc = "<svg>" + A + el + '<rect id="q" xy="#p|h 2" wh="4"/></svg>'
        r = run_svgdx(repo, doc)
        if r["rc"] != 0:
            continue
        m = _re.search(r'<rect id="q"([^>]*)>', r["out"])
        got = dict((k, float(v)) for k, v in _re.findall(r'\b(x|y)="([-0-9.]+)"', m.group(1))) if m else {}
        if abs(got.get("x", 1e9) - x) > 0.002 or abs(got.get("y", 1e9) - y) > 0.002:
            return {"input": doc, "observed": "the sibling placed beside it lands at %r" % got, "expected": "x=%g y=%g" % (x, y)}
    return None


NS = 'xmlns="http://www.w3.org/2000/svg"'


def _root_and_embedded(repo, ob, failure):
    """an svgdx document (outermost <svg> without the namespace) which embeds a namespaced <svg>
    subtree anywhere: the output root must be synthesised (namespace + version), everything outside
    the embedded subtree must be expanded exactly as without it, and a second pass changes nothing"""
    import re as _re
    inner = '<svg %s><rect width="3" height="3"/></svg>' % NS
    docs = ['<svg><if test="1">%s</if><rect wh="5"/></svg>' % inner,
            '<svg>%s<rect wh="5"/></svg>' % inner,
            '<svg><rect wh="5"/>%s</svg>' % inner,
            '<svg><loop count="1">%s</loop><rect wh="5"/></svg>' % inner,
            '<svg><g>%s</g><rect wh="5"/></svg>' % inner,
            '<svg><g>%s<rect wh="5"/></g></svg>' % inner,
            '<svg><specs><g id="t">%s</g></specs><reuse href="#t"/><rect wh="5"/></svg>' % inner,
            '<svg>%s</svg>' % inner]
    for doc in docs:
        r = run_svgdx(repo, doc)
        if r["rc"] != 0:
            continue
        m = _re.search(r"<svg\b([^>]*)>", r["out"])
        root = m.group(1) if m else ""
        if NS not in root or "version=" not in root:
            return {"input": doc, "observed": "output root is <svg%s>" % root, "expected": "a synthesised root <svg> declaring the SVG namespace and a version"}
        if "wh=" in r["out"] or ('<rect wh="5"/>' in doc and not _re.search(r'<rect width="5" height="5"', r["out"])):
            return {"input": doc, "observed": "shorthand left unexpanded next to the embedded <svg>: " + r["out"][-160:], "expected": '<rect width="5" height="5"/> as without the embedded subtree'}
        if inner not in r["out"]:
            return {"input": doc, "observed": "embedded namespaced <svg> not emitted verbatim: " + r["out"][-200:], "expected": inner}
        r2 = run_svgdx(repo, r["out"])
        if r2["rc"] != 0 or r2["out"] != r["out"]:
            return {"input": doc, "observed": "second pass differs (rc=%s)" % r2["rc"], "expected": "byte-identical output on re-processing"}
    return None


for _p in ("C02.root.", "C02.detect", "C03.document.", "C03.events.nested", "C03.events.frame", "C03.detect", "C05.root.", "C05.detect", "C11.detect", "C10.detect"):
    GENERATORS.insert(0, (_p, _root_and_embedded))


def _class_fixed_point(repo, ob, failure):
    """class lists stay duplicate free whatever variables expand to: T(T(x)) == T(x) and no class twice"""
    import re as _re
    docs = ['<svg><var e="d-red d-thick"/><g class="d-red $e"><rect wh="5"/></g></svg>',
            '<svg><var e="a b"/><g class="b $e a"><rect wh="5" class="$e b"/></g></svg>',
            '<svg><rect wh="5" class="a a b"/></svg>']
    for doc in docs:
        r1 = run_svgdx(repo, doc)
        if r1["rc"] != 0:
            continue
        for m in _re.finditer(r'class="([^"]*)"', r1["out"]):
            cl = m.group(1).split()
            if len(cl) != len(set(cl)):
                return {"input": doc, "observed": "class list with a duplicate entry: class=\"%s\"" % m.group(1), "expected": "every class at most once"}
        r2 = run_svgdx(repo, r1["out"])
        if r2["rc"] != 0 or r2["out"] != r1["out"]:
            return {"input": doc, "observed": "second pass differs (rc=%s)" % r2["rc"], "expected": "byte-identical output"}
    return None


GENERATORS.insert(0, ("C05.class.", _class_fixed_point))
GENERATORS.insert(0, ("C06.class.", _class_fixed_point))


def _tspan_lines(repo, ob, failure):
    """each line of a multi-line text is the character data of its own tspan, verbatim; only a line
    with no characters gets the zero-width-space placeholder"""
    cases = [(r'a\n \nb', ["a", " ", "b"]), (r'a\n\nb', ["a", "​", "b"]), (r' lead\ntrail ', [" lead", "trail "])]
    for text, want in cases:
        doc = '<svg><rect wh="20" text="%s"/></svg>' % text
        r = run_svgdx(repo, doc)
        if r["rc"] != 0:
            continue
        tree, err = _parse_xml(r["out"])
        if tree is None:
            return {"input": doc, "observed": "output not well-formed: " + err, "expected": repr(want)}
        got = ["".join(t.itertext()) for t in tree.iter() if t.tag.endswith("tspan")]
        if got != want:
            return {"input": doc, "observed": "tspan character data %r" % got, "expected": repr(want)}
    return None


GENERATORS.insert(0, ("C19.tspan.", _tspan_lines))


def _comment_cdata_delimiters(repo, ob, failure):
    """comments and CDATA sections of the output are correctly delimited whatever text flows into them:
    the output must be accepted by an independent XML parser (expat)"""
    cases = [('<svg><rect wh="5" _="a -- b"/></svg>', ()), ('<svg><rect wh="5" __="x--"/></svg>', ()),
             ('<svg><rect wh="5" _="ends with -"/></svg>', ()), ('<svg><rect wh="5" _="a --- b"/></svg>', ()),
             ('<svg><rect wh="5"/></svg>', ("--background", "x]]>y")),
             ('<svg><config background="x]]&gt;y"/><rect wh="5"/></svg>', ()),
             ('<svg><config font-family="a--b"/><rect wh="5" text="t"/></svg>', ("--debug",))]
    for doc, args in cases:
        r = run_svgdx(repo, doc, args=args)
        if r["rc"] != 0:
            continue
        tree, err = _parse_xml(r["out"])
        if tree is None:
            return {"input": doc, "args": list(args), "observed": "output rejected by expat: %s" % err, "expected": "well-formed XML (comment text without '--', CDATA text without ']]>')"}
    return None


GENERATORS.insert(0, ("C02.comment.", _comment_cdata_delimiters))
GENERATORS.insert(0, ("C02.cdata.", _comment_cdata_delimiters))


def _empty_root(repo, ob, failure):
    """an empty root element: the output is still one complete <svg> element, keeping the author's attributes"""
    for doc in ['<svg/>', '<svg width="10"/>', '<svg id="r" />\n', '<!-- c --><svg/>', '<svg width="10" height="10" text="hi"/>']:
        r = run_svgdx(repo, doc)
        if r["rc"] != 0:
            continue
        tree, err = _parse_xml(r["out"])
        if tree is None:
            return {"input": doc, "observed": "output rejected by expat: %s; output ends with %r" % (err, r["out"][-30:]), "expected": "a single complete <svg> root element"}
        if not tree.tag.endswith("svg") or ('width="10"' in doc and tree.get("width") != "10") or ('id="r"' in doc and tree.get("id") != "r"):
            return {"input": doc, "observed": "root <%s %r>" % (tree.tag, dict(tree.attrib)), "expected": "root <svg> keeping the author's attributes"}
    return None


GENERATORS.insert(0, ("C02.root.closed", _empty_root))
GENERATORS.insert(0, ("C02.root.end_tag_last", _empty_root))


def _reuse_placement(repo, ob, failure):
    """the instance of a template drawn at the origin lands at the reuse element's x / y, whatever kind
    of element the template is (docs/dev-notes.md: 'xy on the reuse should translate the bbox of the target')"""
    import re as _re
    lab = " ".join(ob.get("labels") or [ob.get("id", "")])
    cases = [("line", '<svg><specs><line id="t" x1="0" y1="0" x2="10" y2="5"/></specs><reuse href="#t" x="20" y="30"/></svg>', r'<line x1="20" y1="30" x2="30" y2="35"'),
             ("line", '<svg><specs><line id="t" xy1="0 0" xy2="10 5"/></specs><reuse href="#t" x="20" y="30"/></svg>', r'<line x1="20" y1="30" x2="30" y2="35"'),
             ("text", '<svg><specs><text id="t" text="hi"/></specs><reuse href="#t" x="20" y="30"/></svg>', r'<text x="20" y="30"'),
             ("nested_reuse", '<svg><specs><rect id="r" wh="5"/><reuse id="t" href="#r"/></specs><reuse href="#t" x="20" y="30"/></svg>', r'<rect (x="20" y="30" width="5" height="5"|width="5" height="5" transform="translate\(20, 30\)")'),
             ("rectlike", '<svg><specs><rect id="t" wh="5"/></specs><reuse href="#t" x="20" y="30"/></svg>', r'<rect x="20" y="30" width="5" height="5"'),
             ("circle", '<svg><specs><circle id="t" cxy="0" r="5"/></specs><reuse href="#t" x="20" y="30"/></svg>', r'<circle cx="25" cy="35" r="5"'),
             ("group", '<svg><specs><g id="t"><rect wh="5"/></g></specs><reuse href="#t" x="20" y="30"/></svg>', r'<g [^>]*transform="translate\(20, 30\)"'),
             ("via_transform", '<svg><specs><polyline id="t" points="0 0 10 5"/></specs><reuse href="#t" x="-20" y="-30"/></svg>', r'<polyline [^>]*transform="translate\(-20, -30\)"'),
             ("via_transform", '<svg><specs><polyline id="t" points="0 0 10 5"/></specs><reuse href="#t" x="-15"/></svg>', r'<polyline [^>]*transform="translate\(-15, 0\)"'),
             ("no_position", '<svg><specs><rect id="t" cx="$a" cy="5" wh="4"/></specs><reuse href="#t" a="10"/></svg>', r'<rect x="8" y="3" width="4" height="4"'),
             ("no_position", '<svg><specs><rect id="u" wh="10" dx="3" dw="3"/></specs><reuse href="#u"/></svg>', r'<rect x="3" width="13" height="10"')]
    mine = [c for c in cases if ("place." + c[0]) in lab]
    cases = mine or [c for c in cases if c[0] in ("rectlike", "circle", "group", "via_transform", "no_position")]     # never hand another obligation's known witness out
    for kind, doc, want in cases:
        r = run_svgdx(repo, doc)
        if r["rc"] != 0:
            continue
        body = r["out"].split("</style>")[-1]
        if not _re.search(want, body):
            return {"input": doc, "observed": "instance written as " + body.strip()[:160], "expected": "instance at x=20 y=30: /%s/" % want}
    return None


GENERATORS.insert(0, ("C18.place.", _reuse_placement))


def _deep_nesting(repo, ob, failure):
    """deeply nested expressions / long chains of variable references give a result or an error, never a crash"""
    n = 3000
    chain = '<svg>' + "".join('<var v%d="$v%d + 1"/>' % (i, i - 1) for i in range(n - 1, 0, -1)) + '<var v0="1"/><text text="{{$v%d}}"/></svg>' % (n - 1)
    docs = [('parentheses x%d' % n, '<svg><text text="{{' + '(' * n + '1' + ')' * n + '}}"/></svg>'),
            ('unary minus x%d' % (2 * n), '<svg><text text="{{' + '-' * (2 * n) + '1}}"/></svg>'),
            ('function calls x%d' % n, '<svg><text text="{{' + 'abs(' * n + '1' + ')' * n + '}}"/></svg>'),
            ('chain of %d lazily evaluated variables' % n, chain)]
    for what, doc in docs:
        r = run_svgdx(repo, doc, timeout=20)
        if r["timeout"] or r["rc"] not in (0, 1, 2):
            return {"input": doc[:120] + "...", "input_full": doc, "observed": "%s: process %s" % (what, "hangs" if r["timeout"] else "dies with status %s: %s" % (r["rc"], r["err"][-120:])),
                    "expected": "a result or an error"}
    return None


GENERATORS.insert(0, ("C01.expr.nest", _deep_nesting))
GENERATORS.insert(0, ("C01.expr.depth", _deep_nesting))


def _mirror_scale(repo, ob, failure):
    """a group scaled by a negative factor (mirrored) contributes the bounding box of its image"""
    import re as _re
    cases = [('<svg><g transform="scale(-1 1)"><rect wh="5"/></g></svg>', "-5 0 5 5"),
             ('<svg><g transform="translate(10 0) scale(1 -2)"><rect xy="1 1" wh="2 3"/></g></svg>', "11 -8 2 6"),
             ('<svg><g transform="scale(2)"><rect xy="1 1" wh="2 3"/></g></svg>', "2 2 4 6")]
    for doc, want in cases:
        r = run_svgdx(repo, doc, args=("--border", "0"))
        if r["rc"] != 0:
            continue
        m = _re.search(r'viewBox="([^"]*)"', r["out"])
        if not m or m.group(1) != want:
            return {"input": doc, "args": ["--border", "0"], "observed": "viewBox=%r" % (m and m.group(1)), "expected": "viewBox=%r" % want}
    return None


GENERATORS.insert(0, ("C08.transform.scale", _mirror_scale))
GENERATORS.insert(0, ("C08.transform.order", _mirror_scale))


def _container_scope(repo, ob, failure):
    """a value set by <var> inside an element's content is discarded when that element closes"""
    import re as _re
    lab = " ".join(ob.get("labels") or [ob.get("id", "")])
    cont = [('defs', '<svg><var a="1"/><defs><var a="5"/></defs><text text="$a"/></svg>'),
            ('specs', '<svg><var a="1"/><specs><var a="5"/></specs><text text="$a"/></svg>'),
            ('rect with element content', '<svg><var a="1"/><rect wh="2"><var a="5"/></rect><text text="$a"/></svg>')]
    grp = [('g', '<svg><var a="1"/><g><var a="5"/></g><text text="$a"/></svg>'),
           ('g attribute', '<svg><var a="1"/><g a="5"><text text="in"/></g><text text="$a"/></svg>'),
           ('reuse', '<svg><var a="1"/><specs><g id="t"><var a="7"/></g></specs><reuse href="#t" a="5"/><text text="$a"/></svg>')]
    cases = [cont[1]] if "specs" in lab else [cont[0], cont[2]] if "container" in lab else grp
    for what, doc in cases:
        r = run_svgdx(repo, doc)
        if r["rc"] != 0:
            continue
        texts = _re.findall(r"<text[^>]*>([^<]*)</text>", r["out"])
        if not texts or texts[-1] != "1":
            return {"input": doc, "observed": "after </%s> $a is %r" % (what, texts[-1] if texts else None), "expected": "$a is 1 again (the binding in force before the element)"}
    return None


GENERATORS.insert(0, ("C15.container.", _container_scope))
GENERATORS.insert(0, ("C15.group.", _container_scope))
GENERATORS.insert(0, ("C15.reuse.", _container_scope))
GENERATORS.insert(0, ("C15.scope.outer", _container_scope))


def _path_subpaths(repo, ob, failure):
    """the box of a <path> follows SVG path semantics: closepath returns to the start of the CURRENT
    sub-path (set by the last moveto), relative commands continue from there"""
    import re as _re
    cases = [('<svg><path d="M 10 10 h 5 v 5 z M 30 30 h 5 v 5 z m 10 10 h 5"/></svg>', "10 10 35 30"),
             ('<svg><path d="M0 0 L1 1 M 10 10 L 20 10 z l 5 5"/></svg>', "0 0 20 15"),
             ('<svg><path d="M 10 10 h 5 v 5 z m 10 10 h 5"/></svg>', "10 10 15 10"),
             ('<svg><path d="M 2 3 l 4 0 l 0 4 z l -1 -1"/></svg>', "1 2 5 5"),
             ('<svg><path d="M 1 1 5 1 5 5 z m 10 0 l 2 2"/></svg>', "1 1 12 4")]
    for doc, want in cases:
        r = run_svgdx(repo, doc, args=("--border", "0"))
        if r["rc"] != 0:
            continue
        m = _re.search(r'viewBox="([^"]*)"', r["out"])
        if not m or m.group(1) != want:
            return {"input": doc, "args": ["--border", "0"], "observed": "viewBox=%r" % (m and m.group(1)), "expected": "viewBox=%r" % want}
    return None


GENERATORS.insert(0, ("C08.path.", _path_subpaths))


def _clip_forward(repo, ob, failure):
    """a clipped group contributes the same box whether its <clipPath> is defined before or after it"""
    import re as _re
    clip = '<defs><clipPath id="c"><rect xy="2 2" wh="3"/></clipPath></defs>'
    for body in ('<g clip-path="url(#c)"><rect wh="10"/></g>', '<rect wh="10" clip-path="url(#c)"/>'):
        outs = []
        for doc in ('<svg>' + clip + body + '</svg>', '<svg>' + body + clip + '</svg>'):
            r = run_svgdx(repo, doc, args=("--border", "0"))
            m = _re.search(r'viewBox="([^"]*)"', r["out"]) if r["rc"] == 0 else None
            outs.append((doc, m.group(1) if m else "rc=%s" % r["rc"]))
        if outs[0][1] != outs[1][1]:
            return {"input": outs[1][0], "args": ["--border", "0"], "observed": "viewBox %r" % outs[1][1], "expected": "viewBox %r (as with the clipPath defined first)" % outs[0][1]}
    return None


GENERATORS.insert(0, ("C08.clip.unknown", _clip_forward))
GENERATORS.insert(0, ("C10.clip.unknown", _clip_forward))


def _retry_bindings(repo, ob, failure):
    """an element re-evaluated because of a forward reference resolves its variables as at its place in the document"""
    import re as _re
    cases = [('<svg><var a="1"/><rect xy="#z|h" wh="$a"/><var a="2"/><rect id="z" wh="3"/></svg>', r'<rect x="3" y="1" width="1" height="1"'),
             ('<svg><var a="1"/><rect id="z" wh="3"/><rect xy="#z|h" wh="$a"/><var a="2"/></svg>', r'<rect x="3" y="1" width="1" height="1"')]
    for doc, want in cases:
        r = run_svgdx(repo, doc)
        if r["rc"] != 0:
            continue
        body = r["out"].split("</style>")[-1]
        if not _re.search(want, body):
            return {"input": doc, "observed": "written as " + body.strip()[:200], "expected": "the referring rect has width 1 (the value of $a at its place in the document): /%s/" % want}
    return None


GENERATORS.insert(0, ("C15.retry.", _retry_bindings))


def _inside_transformed(repo, ob, failure):
    """a rect given inside= a circle / ellipse that carries a transform lies within the shape AS DRAWN"""
    import re as _re
    cases = [('<svg><circle id="c" cx="0" cy="0" r="10" transform="translate(100 0)"/><rect inside="#c"/></svg>', r'<rect x="92.929" y="-7.071" width="14.142" height="14.142"'),
             ('<svg><ellipse id="c" cx="0" cy="0" rx="20" ry="10" transform="translate(0 50)"/><rect inside="#c"/></svg>', r'<rect x="-14.142" y="42.929" width="28.284" height="14.142"'),
             ('<svg><circle id="c" cx="5" cy="5" r="10"/><rect inside="#c"/></svg>', r'<rect x="-2.071" y="-2.071" width="14.142" height="14.142"')]
    for doc, want in cases:
        r = run_svgdx(repo, doc)
        if r["rc"] != 0:
            continue
        body = r["out"].split("</style>")[-1]
        if not _re.search(want, body):
            return {"input": doc, "observed": "written as " + body.strip()[-150:], "expected": "/%s/" % want}
    return None


GENERATORS.insert(0, ("C12.inside.rect_in_", _inside_transformed))


def _retry_prev(repo, ob, failure):
    """'^' in an element that has to be re-evaluated (forward reference) still means the element written before it"""
    import re as _re
    cases = [('<svg><rect id="a" xy="10 20" wh="30 10"/><rect id="n" xy="^|h 5" wh="#z"/><rect id="z" xy="0 50" wh="20"/></svg>', r'<rect id="n" x="45" y="15" width="20" height="20"'),
             ('<svg><rect id="first" xy="0 0" wh="10"/><rect id="a" xy="#z|h 5" wh="10"/><rect id="n" xy="^|v 2" wh="4"/><rect id="z" xy="30 50" wh="20"/></svg>', r'<rect id="n" x="58" y="67" width="4" height="4"')]
    for doc, want in cases:
        r = run_svgdx(repo, doc)
        if r["rc"] != 0:
            continue
        body = r["out"].split("</style>")[-1]
        if not _re.search(want, body):
            m = _re.search(r'<rect id="n"[^>]*>', body)
            return {"input": doc, "observed": "written as %s" % (m.group(0) if m else body.strip()[:160]), "expected": "/%s/ (relative to the element written before it)" % want}
    return None


GENERATORS.insert(0, ("C10.retry.same_context", _retry_prev))
GENERATORS.insert(0, ("C09.retry.same_context", _retry_prev))


def _retry_control(repo, ob, failure):
    """an <if> / <loop> whose body contains a forward reference renders what its unrolling renders"""
    import re as _re
    cases = [('<svg><var n="0"/><if test="eq($n, 0)"><var n="1"/><rect xy="#z|h" wh="5"/></if><rect id="z" xy="0" wh="10"/></svg>', 1),
             ('<svg><var n="0"/><loop while="lt($n, 3)"><var n="{{$n + 1}}"/><rect xy="#z|h" wh="2"/></loop><rect id="z" xy="0" wh="10"/></svg>', 3)]
    for doc, want in cases:
        r = run_svgdx(repo, doc)
        if r["rc"] != 0:
            continue
        n = len(_re.findall(r"<rect (?!id=)", r["out"].split("</style>")[-1]))
        if n != want:
            return {"input": doc, "observed": "%d body rect(s) rendered" % n, "expected": "%d (as the manual unrolling renders)" % want}
    return None


GENERATORS.insert(0, ("C16.retry.same_context", _retry_control))


def _content_whole(repo, ob, failure):
    """element content consisting of several text / CDATA events is the text as a whole"""
    for doc, want in (('<svg><rect wh="20">abc<![CDATA[def]]>ghi</rect></svg>', "abcdefghi"), ('<svg><text xy="1">a <![CDATA[<]]> b</text></svg>', "a < b")):
        r = run_svgdx(repo, doc)
        if r["rc"] != 0:
            continue
        tree, err = _parse_xml(r["out"])
        if tree is None:
            return {"input": doc, "observed": "output not well-formed: " + err, "expected": want}
        texts = ["".join(t.itertext()) for t in tree.iter() if t.tag.endswith("text")]
        if want not in texts:
            return {"input": doc, "observed": "character data of generated text: %r" % texts, "expected": repr(want)}
    return None


GENERATORS.insert(0, ("C19.content.whole", _content_whole))


def _size_delta_round(repo, ob, failure):
    """dw / dh / dwh adjust the size of round shapes as they do for a rect, however the size was given"""
    import re as _re
    doc = ('<svg><rect id="a" xy="10 20" wh="30 10"/><rect id="r" xy="#a|h 2" wh="#a" dwh="4 2"/><ellipse id="e" xy="#a|h 2" wh="#a" dwh="4 2"/>'
           '<ellipse id="f" xy="#a|h 2" rxy="#a" dwh="4 2"/><circle id="c" xy="#a|h 2" wh="#a~h" dwh="4"/><circle id="d" xy="#a|h 2" r="#a~ry" dw="4"/></svg>')
    want = [r'<rect id="r" x="42" y="19" width="34" height="12"', r'<ellipse id="e" cx="59" cy="25" rx="17" ry="6"', r'<ellipse id="f" cx="59" cy="25" rx="17" ry="6"',
            r'<circle id="c" cx="49" cy="25" r="7"', r'<circle id="d" cx="49" cy="25" r="7"']
    r = run_svgdx(repo, doc)
    if r["rc"] != 0:
        return None
    body = r["out"].split("</style>")[-1]
    for w in want:
        if not _re.search(w, body):
            i = w.split('"')[1]
            m = _re.search(r'<\w+ id="%s"[^>]*>' % i, body)
            return {"input": doc, "observed": "written as %s" % (m.group(0) if m else "?"), "expected": "/%s/" % w}
    return None


GENERATORS.insert(0, ("C09.delta.", _size_delta_round))


def _limits_in_specs(repo, ob, failure):
    """a configured limit that is exceeded rejects the document, also inside <specs>"""
    cases = [('<svg><specs><loop count="2000" loop-var="i"><var n="$i"/></loop></specs><text text="n=$n"/></svg>', ()),
             ('<svg><specs><var v="123456"/></specs><rect wh="1"/></svg>', ("--var-limit", "5")),
             ('<svg><specs>' + '<g>' * 8 + '<rect wh="1"/>' + '</g>' * 8 + '</specs><rect wh="1"/></svg>', ("--depth-limit", "4"))]
    for doc, args in cases:
        r = run_svgdx(repo, doc, args=args)
        if r["rc"] == 0:
            return {"input": doc[:200], "input_full": doc, "args": list(args), "observed": "accepted (exit 0): " + r["out"].split("</style>")[-1][:120], "expected": "rejected with the limit error"}
    return None


GENERATORS.insert(0, ("C17.limit.propagated", _limits_in_specs))
GENERATORS.insert(0, ("C17.limit.final", _limits_in_specs))


def _text_content_depth(repo, ob, failure):
    """the depth limit measures nesting depth only: a shape written with text content is one level, like its text= form"""
    cases = [('<svg><config depth-limit="2"/><rect wh="10">hello</rect></svg>', '<svg><config depth-limit="2"/><rect wh="10" text="hello"/></svg>'),
             ('<svg><config depth-limit="3"/><g><circle r="4">hi</circle></g></svg>', '<svg><config depth-limit="3"/><g><circle r="4" text="hi"/></g></svg>')]
    for doc, twin in cases:
        a, b = run_svgdx(repo, doc), run_svgdx(repo, twin)
        if b["rc"] == 0 and a["rc"] != 0:
            return {"input": doc, "observed": "rejected: %s" % a["err"].strip()[-80:], "expected": "accepted, as the text= spelling of the same element at the same nesting depth is"}
    return None


GENERATORS.insert(0, ("C17.depth.text_content", _text_content_depth))
GENERATORS.insert(0, ("C17.depth.container", _text_content_depth))


def _clip_chain_depth(repo, ob, failure):
    """following clip-path references is not element nesting: the depth limit does not reject a flat document for it; a cyclic chain is an error, not a hang"""
    docs = ['<svg><config depth-limit="3"/><clipPath id="c1"><rect wh="5"/></clipPath><clipPath id="c2" clip-path="url(#c1)"><rect wh="6"/></clipPath>'
            '<clipPath id="c3" clip-path="url(#c2)"><rect wh="8"/></clipPath><rect wh="10" clip-path="url(#c3)"/></svg>']
    for doc in docs:
        r = run_svgdx(repo, doc)
        if r["rc"] != 0 and ("DepthLimit" in r["err"] or "exceeded limit" in r["err"]):
            return {"input": doc, "observed": "rejected: " + r["err"].strip()[-60:], "expected": "accepted (nesting depth is 3)"}
    n = 6000
    chain = '<svg><clipPath id="c0"><rect wh="5"/></clipPath>' + "".join('<clipPath id="c%d" clip-path="url(#c%d)"><rect wh="5"/></clipPath>' % (i, i - 1) for i in range(1, n)) + '<rect wh="10" clip-path="url(#c%d)"/></svg>' % (n - 1)
    r = run_svgdx(repo, chain, timeout=60)
    if r["timeout"] or r["rc"] not in (0, 1, 2):
        return {"input": chain[:160] + "...", "input_full": chain, "observed": "chain of %d clip-path references: process %s" % (n, "hangs" if r["timeout"] else "dies with status %s: %s" % (r["rc"], r["err"][-100:])), "expected": "a result or an error"}
    cyc = ('<svg><defs><clipPath id="a" clip-path="url(#b)"><rect wh="5"/></clipPath><clipPath id="b" clip-path="url(#a)"><rect wh="5"/></clipPath></defs>'
           '<rect wh="10" clip-path="url(#a)"/></svg>')
    r = run_svgdx(repo, cyc, timeout=20)
    if r["timeout"] or r["rc"] not in (0, 1, 2):
        return {"input": cyc, "observed": "process %s" % ("hangs" if r["timeout"] else "dies with status %s" % r["rc"]), "expected": "an error"}
    return None


GENERATORS.insert(0, ("C01.clip.terminates", _clip_chain_depth))


def _use_and_referenced(repo, ob, failure):
    """a <use> is counted where it is drawn (its own transform included); content of clipPath / mask / marker / pattern adds nothing"""
    import re as _re
    cases = [('<svg><defs><rect id="a" wh="10"/></defs><use href="#a" x="20" transform="translate(100 0)"/></svg>', "120 0 10 10"),
             ('<svg><defs><rect id="a" wh="10"/></defs><use href="#a" x="5" transform="scale(3)"/></svg>', "15 0 30 30"),
             ('<svg><clipPath id="c"><rect xy="0" wh="100"/></clipPath><rect xy="0" wh="10"/></svg>', "0 0 10 10"),
             ('<svg><mask id="m"><rect xy="0" wh="100"/></mask><rect xy="0" wh="10"/></svg>', "0 0 10 10"),
             ('<svg><use href="#a" x="100"/><rect id="a" xy="#b|h" wh="10"/><rect id="b" xy="0" wh="10"/></svg>', "0 0 120 10")]
    for doc, want in cases:
        r = run_svgdx(repo, doc, args=("--border", "0"))
        if r["rc"] != 0:
            continue
        m = _re.search(r'viewBox="([^"]*)"', r["out"])
        if not m or m.group(1) != want:
            return {"input": doc, "args": ["--border", "0"], "observed": "viewBox=%r" % (m and m.group(1)), "expected": "viewBox=%r" % want}
    return None


GENERATORS.insert(0, ("C08.use.", _use_and_referenced))
GENERATORS.insert(0, ("C08.container.", _use_and_referenced))


def _random_arity(repo, ob, failure):
    """random() takes no arguments: a call with arguments fails the transform instead of yielding a value"""
    for c in ("random(1, 2, 3)", "random(1)"):
        doc = '<svg><text xy="1" text="[{{%s}}]"/></svg>' % c
        r = run_svgdx(repo, doc)
        if r["rc"] == 0:
            import re as _re
            m = _re.search(r"\[[^\]]*\]", r["out"].split("</style>")[-1])
            return {"input": doc, "observed": "accepted, text %s" % (m.group(0) if m else "?"), "expected": "an arity error"}
    return None


GENERATORS.insert(0, ("C14.fn.random", _random_arity))


def _reuse_compound_expr(repo, ob, failure):
    """a compound size on a reused template is evaluated, then split: the instance is what the hand-written element is"""
    import re as _re
    cases = [('<svg><var s="3"/><rect id="t" xy="0" wh="{{$s*2}} {{$s - 1}}"/><reuse href="#t" y="10"/></svg>', r'<rect x="0" y="10" width="6" height="2"'),
             ('<svg><specs><rect id="t" wh="{{1 + 2}}"/></specs><reuse href="#t" x="1"/></svg>', r'<rect x="1" width="3" height="3"')]
    for doc, want in cases:
        r = run_svgdx(repo, doc)
        body = r["out"].split("</style>")[-1] if r["rc"] == 0 else "error: " + r["err"].strip()[-100:]
        if not _re.search(want, body):
            return {"input": doc, "observed": body.strip()[-160:], "expected": "/%s/" % want}
    return None


GENERATORS.insert(0, ("C14.reuse.evaluated", _reuse_compound_expr))
GENERATORS.insert(0, ("C18.reuse.evaluated", _reuse_compound_expr))


def _empty_content_shape(repo, ob, failure):
    """<rect ..></rect> (start and end tag, nothing between) is <rect ../>"""
    import re as _re
    for a, b in (('<svg><rect cxy="5" wh="4"></rect></svg>', '<svg><rect cxy="5" wh="4"/></svg>'),
                 ('<svg><circle id="c" cxy="20 5" r="3"></circle><rect xy="#c|h 1" wh="2"/></svg>', '<svg><circle id="c" cxy="20 5" r="3"/><rect xy="#c|h 1" wh="2"/></svg>')):
        ra, rb = run_svgdx(repo, a), run_svgdx(repo, b)
        if rb["rc"] != 0:
            continue
        norm = lambda s: _re.sub(r"></(rect|circle)>", "/>", s)
        if ra["rc"] != 0 or norm(ra["out"]) != norm(rb["out"]):
            return {"input": a, "observed": (ra["out"].split("</style>")[-1] if ra["rc"] == 0 else ra["err"])[-160:], "expected": "as " + b + ": " + rb["out"].split("</style>")[-1][-120:]}
    return None


GENERATORS.insert(0, ("C11.container.empty_content", _empty_content_shape))


def _defaults_vs_shorthand(repo, ob, failure):
    """<defaults> never override a value the element gives through a shorthand"""
    import re as _re
    doc = ('<svg><defaults><rect width="5" height="5"/><line x1="0" y1="0"/></defaults><rect id="short" xy="1" wh="8 2"/><rect id="long" xy="1" width="8" height="2"/>'
           '<line id="lshort" xy1="1 2" xy2="3 4"/></svg>')
    r = run_svgdx(repo, doc)
    if r["rc"] != 0:
        return None
    body = r["out"].split("</style>")[-1]
    for want in (r'<rect id="short" x="1" y="1" width="8" height="2"', r'<line id="lshort" x1="1" y1="2" x2="3" y2="4"'):
        if not _re.search(want, body):
            i = want.split('"')[1]
            m = _re.search(r'<\w+ id="%s"[^>]*>' % i, body)
            return {"input": doc, "observed": "written as %s" % (m.group(0) if m else "?"), "expected": "/%s/ (as its longhand spelling)" % want}
    return None


GENERATORS.insert(0, ("C11.defaults.", _defaults_vs_shorthand))


def _instance_defaults(repo, ob, failure):
    """<defaults> apply to a single-shape reuse instance as to the hand-written shape"""
    import re as _re
    doc = '<svg><defaults><rect rx="2" class="dflt"/></defaults><specs><rect id="t" wh="$w"/></specs><rect wh="8"/><reuse href="#t" w="8" y="10"/></svg>'
    r = run_svgdx(repo, doc)
    if r["rc"] != 0:
        return None
    body = r["out"].split("</style>")[-1]
    m = _re.search(r'<rect y="10"[^>]*>', body)
    if not m or 'rx="2"' not in m.group(0) or "dflt" not in m.group(0):
        return {"input": doc, "observed": "instance written as %s" % (m.group(0) if m else body[-120:]), "expected": 'rx="2" and class dflt on the instance, as on the hand-written rect'}
    return None


GENERATORS.insert(0, ("C18.instance.", _instance_defaults))


def _group_transform_expr(repo, ob, failure):
    """an expression or variable in a group's transform is evaluated like in any other attribute"""
    import re as _re
    doc = '<svg><var t="7"/><g id="g" transform="translate({{1 + 2}} $t)"><rect wh="4"/></g><rect xy="#g|h 1" wh="1"/></svg>'
    r = run_svgdx(repo, doc, args=("--border", "0"))
    if r["rc"] != 0:
        return {"input": doc, "args": ["--border", "0"], "observed": "rejected: " + r["err"].strip()[-100:], "expected": 'transform="translate(3 7)", viewBox 3 7 6 4'}
    m = _re.search(r'viewBox="([^"]*)"', r["out"])
    if not m or m.group(1) != "3 7 6 4":
        return {"input": doc, "args": ["--border", "0"], "observed": "viewBox=%r" % (m and m.group(1)), "expected": "viewBox='3 7 6 4'"}
    return None


GENERATORS.insert(0, ("C14.group.box", _group_transform_expr))
GENERATORS.insert(0, ("C08.group.box", _group_transform_expr))


def _group_attr_scope(repo, ob, failure):
    """the attributes of a <g> are evaluated in the enclosing scope, then shadow it for the descendants"""
    import re as _re
    cases = [('<svg><var b="1"/><g a="$b" b="7"><text text="$a"/></g></svg>', "1"),
             ('<svg><var a="1"/><g a="{{$a + 1}}"><text text="$a"/></g></svg>', "2"),
             ('<svg><var b="1"/><g a="$b"><var b="2"/><text text="$a"/></g></svg>', "1")]
    for doc, want in cases:
        r = run_svgdx(repo, doc)
        texts = _re.findall(r"<text[^>]*>([^<]*)</text>", r["out"]) if r["rc"] == 0 else ["error: " + r["err"].strip()[-80:]]
        if not texts or texts[-1] != want:
            return {"input": doc, "observed": "$a is %r inside the group" % (texts[-1] if texts else None), "expected": repr(want)}
    return None


GENERATORS.insert(0, ("C15.push.attributes", _group_attr_scope))


def _defaults_on_control(repo, ob, failure):
    """<defaults> do not turn into variable assignments: a wildcard default is not merged into <var> / <reuse>"""
    import re as _re
    doc = '<svg><var stroke="blue"/><defaults><_ stroke="red"/></defaults><var b="1"/><text text="[$stroke]"/></svg>'
    r = run_svgdx(repo, doc)
    if r["rc"] != 0:
        return None
    m = _re.search(r"\[[^\]]*\]", r["out"].split("</style>")[-1])
    if not m or m.group(0) != "[blue]":
        return {"input": doc, "observed": "$stroke is %s after an unrelated <var b=..>" % (m.group(0) if m else "?"), "expected": "[blue]"}
    return None


GENERATORS.insert(0, ("C15.defaults.", _defaults_on_control))


def _scope_var_growth(repo, ob, failure):
    """attribute variables of <reuse> / <g> grown by substitution are bounded by var-limit (an error, not memory exhaustion);
    a long value the author wrote as is stays accepted"""
    long_attr = "a" * 3000
    docs = [('self-reusing template doubling a <reuse> attribute', '<svg><specs><g id="a"><reuse href="#a" s="$s$s"/></g></specs><reuse href="#a" s="xx"/></svg>', "err"),
            ('self-reusing template doubling a <g> attribute', '<svg><specs><g id="a" s="$s$s"><reuse href="#a"/></g></specs><var s="xx"/><reuse href="#a"/></svg>', "err"),
            ('group template instantiating itself, attribute doubling', '<svg><var s="xx"/><specs><g id="a" s="$s$s"><reuse href="#a"/></g></specs><reuse href="#a"/></svg>', "err"),
            ('two group templates instantiating each other, attribute doubling', '<svg><var s="xx"/><specs><g id="a" s="$s$s"><rect wh="1"/><reuse href="#b"/></g><g id="b" s="$s"><reuse href="#a"/></g></specs><reuse href="#a"/></svg>', "err"),
            ('symbol template instantiating itself, attribute doubling', '<svg><var s="xx"/><specs><symbol id="a" s="$s$s"><reuse href="#a"/></symbol></specs><reuse href="#a"/></svg>', "err"),
            ('reuse of a reuse that doubles an attribute', '<svg><var s="xx"/><specs><reuse id="b" href="#b" s="$s$s"/></specs><reuse href="#b"/></svg>', "err"),
            ('long literal attribute on a group', '<svg><g data-x="%s"><rect wh="2"/></g></svg>' % long_attr, "ok")]
    for what, doc, want in docs:
        r = run_svgdx(repo, doc, timeout=20)
        if r["timeout"] or r["rc"] not in (0, 1, 2):
            return {"input": doc[:200], "input_full": doc, "observed": "%s: process %s" % (what, "hangs" if r["timeout"] else "dies with status %s: %s" % (r["rc"], r["err"][-160:])),
                    "expected": "an error (VarLimit / DepthLimit)"}
        if want == "ok" and r["rc"] != 0:
            return {"input": doc[:200], "input_full": doc, "observed": "%s: rejected: %s" % (what, r["err"][-160:]), "expected": "accepted: nothing was substituted"}
        if want == "err" and r["rc"] == 0:
            return {"input": doc, "observed": "%s: accepted" % what, "expected": "an error (VarLimit / DepthLimit)"}
    return None


GENERATORS.insert(0, ("C17.scope.", _scope_var_growth))
GENERATORS.insert(0, ("C01.scope.", _scope_var_growth))


def _tag_text_decoded(repo, ob, failure):
    """character data next to child elements (a tag's text / tail) reaches the output escaped exactly once"""
    docs = ['<svg><text x="1" y="2">R&amp;D <tspan>a &lt; b</tspan> &lt; c</text></svg>',
            '<svg><g>x &amp; y<rect wh="5"/> tail &gt; t</g></svg>']
    for doc in docs:
        r = run_svgdx(repo, doc, args=("--no-auto-styles",))
        if r["rc"] == 0 and ("&amp;amp;" in r["out"] or "&amp;lt;" in r["out"] or "&amp;gt;" in r["out"]):
            return {"input": doc, "args": ["--no-auto-styles"], "observed": r["out"].strip()[-200:], "expected": "every entity of the input text written once (&amp; stays &amp;)"}
    return None


GENERATORS.insert(0, ("C19.tag_text", _tag_text_decoded))
GENERATORS.insert(0, ("C02.tag_text", _tag_text_decoded))
GENERATORS.insert(0, ("C03.tag_text", _tag_text_decoded))


def _text_specific_attrs(repo, ob, failure):
    """text-lsp / text-style never reach the output, whatever element carries the text"""
    docs = ['<svg><text xy="0" text-lsp="2" text-style="fill:red" text="a\\nb"/></svg>',
            '<svg><text xy="0" text-style="fill:red">a</text></svg>',
            '<svg><rect wh="20" text-lsp="2" text-style="fill:red" text="a\\nb"/></svg>']
    for doc in docs:
        r = run_svgdx(repo, doc, args=("--no-auto-styles",))
        if r["rc"] == 0 and ("text-lsp=" in r["out"] or "text-style=" in r["out"]):
            return {"input": doc, "args": ["--no-auto-styles"], "observed": r["out"].strip()[-250:], "expected": "no text-lsp / text-style attribute in the output (text-style becomes style of the <text>)"}
    return None


GENERATORS.insert(0, ("C19.attrs.text_specific", _text_specific_attrs))
GENERATORS.insert(0, ("C19.attrs.moved_lsp", _text_specific_attrs))


def _phantom_text_content(repo, ob, failure):
    """text content of <box> / <point> is rendered exactly like their text attribute"""
    pairs = [('<svg><box xy="0" wh="20 10" text-loc="tl">label</box></svg>', '<svg><box xy="0" wh="20 10" text-loc="tl" text="label"/></svg>'),
             ('<svg><point xy="30 5">P</point></svg>', '<svg><point xy="30 5" text="P"/></svg>')]
    for a, b in pairs:
        ra, rb = run_svgdx(repo, a, args=("--no-auto-styles",)), run_svgdx(repo, b, args=("--no-auto-styles",))
        if ra["rc"] == 0 and rb["rc"] == 0 and ra["out"] != rb["out"]:
            return {"input": a, "args": ["--no-auto-styles"], "observed": ra["out"].strip()[-200:], "expected": "the output of %s: %s" % (b, rb["out"].strip()[-200:])}
    return None


GENERATORS.insert(0, ("C19.content.every_text_carrier", _phantom_text_content))
GENERATORS.insert(0, ("C19.content.promoted_for_every", _phantom_text_content))


def _axis_at_origin(repo, ob, failure):
    """an axis given by a length only lies at the origin (start 0; centre 0 for an ellipse), whichever pair spells the other axis"""
    pairs = [('<rect x="2" x2="8" height="4"/>', '<rect x="2" width="6" height="4"/>'),
             ('<line x="2" x2="8" height="4"/>', '<line x="2" width="6" height="4"/>'),
             ('<ellipse cx="5" x2="8" ry="2"/>', '<ellipse cx="5" rx="3" ry="2"/>'),
             ('<rect y="1" y2="6" width="10"/>', '<rect y="1" height="5" width="10"/>'),
             ('<ellipse rxy="5 3" dxy="1 2"/>', '<ellipse cxy="0" rxy="5 3" dxy="1 2"/>'),
             ('<ellipse cx="5" rxy="5 3" dy="2"/>', '<ellipse cxy="5 0" rxy="5 3" dy="2"/>')]
    for a, b in pairs:
        ra, rb = run_svgdx(repo, "<svg>%s</svg>" % a, args=("--no-auto-styles",)), run_svgdx(repo, "<svg>%s</svg>" % b, args=("--no-auto-styles",))
        if ra["rc"] == 0 and rb["rc"] == 0 and ra["out"] != rb["out"]:
            return {"input": "<svg>%s</svg>" % a, "args": ["--no-auto-styles"], "observed": ra["out"].strip()[-160:], "expected": "the geometry of %s: %s" % (b, rb["out"].strip()[-160:])}
    return None


GENERATORS.insert(0, ("C11.to_bbox.y_at_origin", _axis_at_origin))
GENERATORS.insert(0, ("C11.to_bbox.x_at_origin", _axis_at_origin))
GENERATORS.insert(0, ("C11.to_bbox.both_at_origin", _axis_at_origin))
GENERATORS.insert(0, ("C11.to_bbox.absent_position", _axis_at_origin))


def _xyloc_left_behind(repo, ob, failure):
    """xy-loc never reaches the output, and an element carrying it without xy is placed and usable as a reference"""
    docs = ['<svg><rect cxy="5" wh="4 2" xy-loc="c"/></svg>',
            '<svg><rect id="a" xy="10 20" wh="30 40"/><rect id="b" x="#a@r" y="#a@b" xy-loc="c" wh="10"/><rect id="c" xy="^|h" wh="2"/></svg>']
    for doc in docs:
        r = run_svgdx(repo, doc, args=("--no-auto-styles",))
        if r["rc"] != 0 or "xy-loc" in r["out"]:
            return {"input": doc, "args": ["--no-auto-styles"], "observed": (r["out"].strip() or r["err"].strip())[-250:], "expected": "no xy-loc attribute in the output"}
    return None


GENERATORS.insert(0, ("C11.shorthand.xyloc", _xyloc_left_behind))
GENERATORS.insert(0, ("C09.loc.xyloc", _xyloc_left_behind))


def _ellipse_r_delta(repo, ob, failure):
    """dw changes the width only, dh the height only - also for an ellipse whose two radii are spelled with one `r`"""
    pairs = [('<ellipse cxy="10" r="4" dw="2"/>', '<ellipse cxy="10" rxy="4" dw="2"/>'),
             ('<ellipse cxy="10" r="4" dwh="2 4"/>', '<ellipse cxy="10" rx="4" ry="4" dwh="2 4"/>'),
             ('<ellipse cxy="10" r="4" dh="2"/>', '<ellipse cxy="10" rxy="4 4" dh="2"/>')]
    for a, b in pairs:
        ra, rb = run_svgdx(repo, "<svg>%s</svg>" % a, args=("--no-auto-styles",)), run_svgdx(repo, "<svg>%s</svg>" % b, args=("--no-auto-styles",))
        if ra["rc"] == 0 and rb["rc"] == 0 and ra["out"] != rb["out"]:
            return {"input": "<svg>%s</svg>" % a, "args": ["--no-auto-styles"], "observed": ra["out"].strip()[-120:], "expected": "the geometry of %s: %s" % (b, rb["out"].strip()[-120:])}
    return None


GENERATORS.insert(0, ("C11.delta.", _ellipse_r_delta))
GENERATORS.insert(0, ("C09.delta.dw_changes", _ellipse_r_delta))
GENERATORS.insert(0, ("C09.delta.dh_changes", _ellipse_r_delta))
GENERATORS.insert(0, ("C09.delta.both", _ellipse_r_delta))


def _containment_edges(repo, ob, failure):
    """inside= areas without a common point is an error (never an element drawn elsewhere); margin never reaches the output"""
    d1 = '<svg><rect id="a" xy="0" wh="20 10"/><rect id="b" xy="50 30" wh="20 10"/><rect inside="#a #b" margin="1" wh="20 10"/></svg>'
    r = run_svgdx(repo, d1, args=("--no-auto-styles",))
    if r["rc"] == 0:
        return {"input": d1, "args": ["--no-auto-styles"], "observed": r["out"].strip()[-160:], "expected": "an error: #a and #b have no point in common"}
    d3 = '<svg><rect id="a" wh="20 10"/><rect inside="#a" margin="60%"/></svg>'
    r = run_svgdx(repo, d3, args=("--no-auto-styles",))
    if r["rc"] == 0 and ('height="-' in r["out"] or 'width="-' in r["out"]):
        return {"input": d3, "args": ["--no-auto-styles"], "observed": r["out"].strip()[-120:], "expected": "an error: the margin leaves no area inside #a"}
    d2 = '<svg><defaults><rect margin="2"/></defaults><rect id="a" wh="10 20"/><rect surround="#a"/></svg>'
    r = run_svgdx(repo, d2, args=("--no-auto-styles",))
    if r["rc"] == 0 and "margin=" in r["out"]:
        return {"input": d2, "args": ["--no-auto-styles"], "observed": r["out"].strip()[-200:], "expected": "no margin attribute in the output"}
    return None


GENERATORS.insert(0, ("C12.attrs.removed", _containment_edges))
GENERATORS.insert(0, ("C12.inside.empty", _containment_edges))
GENERATORS.insert(0, ("C12.surround.nothing", _containment_edges))


def _config_keeps_random_sequence(repo, ob, failure):
    """a <config> element without a seed does not restart the random sequence"""
    import re as _re
    doc = '<svg><text xy="0 0" text="{{random()}} {{random()}}"/><config border="2"/><text xy="0 5" text="{{random()}} {{random()}}"/></svg>'
    r = run_svgdx(repo, doc, args=("--no-auto-styles",))
    t = _re.findall(r">([^<]*)</text>", r["out"])
    if r["rc"] == 0 and len(t) == 2 and t[0] == t[1]:
        return {"input": doc, "args": ["--no-auto-styles"], "observed": "both texts read %r: the second pair of random() calls repeats the first draws" % t[0], "expected": "four successive draws of one sequence"}
    return None


GENERATORS.insert(0, ("C14.config.", _config_keeps_random_sequence))


def _clipped_template_size(repo, ob, failure):
    """a placed instance of a clipped shape template has the size its own variables give it, as written out by hand"""
    import re as _re
    doc = ('<svg><defs><clipPath id="band"><rect xy="0" wh="100 10"/></clipPath></defs><var s="20"/>'
           '<rect id="t" wh="$s" clip-path="url(#band)"/><reuse href="#t" x="60" s="8"/></svg>')
    r = run_svgdx(repo, doc, args=("--no-auto-styles",))
    m = _re.search(r'<rect x="60"[^>]*>', r["out"])
    if r["rc"] == 0 and m and 'width="8" height="8"' not in m.group(0):
        return {"input": doc, "args": ["--no-auto-styles"], "observed": m.group(0), "expected": '<rect x="60" width="8" height="8" clip-path="url(#band)" class="t"/>'}
    doc = '<svg><specs><circle id="c" r="$r" clip-path="url(#none)"/></specs><reuse href="#c" r="4" x="10" y="20"/></svg>'
    return None


GENERATORS.insert(0, ("C18.place.shape_size", _clipped_template_size))
GENERATORS.insert(0, ("C18.place.circle", _clipped_template_size))
GENERATORS.insert(0, ("C18.place.rectlike", _clipped_template_size))


def _instance_shorthand_and_deltas(repo, ob, failure):
    """a placed instance equals the template written out by hand: position shorthand on the template and dw / dh included"""
    import re as _re
    cases = [('<svg><specs><circle id="c" xy="0" r="$r"/></specs><reuse href="#c" r="4" x="10" y="20"/></svg>', r'<circle [^>]*>', 'cx="14" cy="24" r="4"'),
             ('<svg><specs><ellipse id="e" xy="0" rxy="$r 1"/></specs><reuse href="#e" r="4" x="10" y="20"/></svg>', r'<ellipse [^>]*>', 'cx="14" cy="21" rx="4" ry="1"'),
             ('<svg><specs><rect id="t" wh="$s" dwh="2"/></specs><reuse href="#t" s="4" x="10" y="20"/></svg>', r'<rect [^>]*>', 'x="10" y="20" width="6" height="6"')]
    for doc, pat, want in cases:
        r = run_svgdx(repo, doc, args=("--no-auto-styles",))
        m = _re.search(pat, r["out"])
        if r["rc"] == 0 and m and want not in m.group(0):
            return {"input": doc, "args": ["--no-auto-styles"], "observed": m.group(0), "expected": "... %s ..." % want}
    return None


GENERATORS.insert(0, ("C18.instance.size_includes", _instance_shorthand_and_deltas))
GENERATORS.insert(0, ("C18.place.position_shorthand", _instance_shorthand_and_deltas))


def _one_dimension_beside(repo, ob, failure):
    """a line given by a width (height) only, or a circle by one dimension, is placed beside its reference by its real size"""
    import re as _re
    cases = [('<svg><rect id="a" xy="10 20" wh="30 40"/><line xy="#a|H 5" width="10"/></svg>', r'<line [^>]*>', 'x1="-5" y1="40" x2="5" y2="40"'),
             ('<svg><rect id="a" xy="10 20" wh="30 40"/><line xy="#a|h 5" height="10"/></svg>', r'<line [^>]*>', 'x1="45" y1="35" x2="45" y2="45"'),
             ('<svg><rect id="a" xy="10 20" wh="30 40"/><circle xy="#a|H 5" width="10"/></svg>', r'<circle [^>]*>', 'cx="0" cy="40" r="5"')]
    for doc, pat, want in cases:
        r = run_svgdx(repo, doc, args=("--no-auto-styles",))
        m = _re.search(pat, r["out"])
        if r["rc"] == 0 and m and want not in m.group(0):
            return {"input": doc, "args": ["--no-auto-styles"], "observed": m.group(0), "expected": "... %s ..." % want}
    return None


GENERATORS.insert(0, ("C09.size.circle_one", _one_dimension_beside))
GENERATORS.insert(0, ("C09.size.line_one", _one_dimension_beside))
GENERATORS.insert(0, ("C09.size.circle", _one_dimension_beside))


def _comparison_chain(repo, ob, failure):
    """comparison operators associate left to right: `3 gt 2 gt 0` is `(3 gt 2) gt 0` = 1"""
    import re as _re
    for expr, want in [("3 gt 2 gt 0", "1"), ("1 lt 2 lt 3", "1"), ("5 gt 4 eq 0", "0")]:
        doc = '<svg><text text="{{%s}}"/></svg>' % expr
        r = run_svgdx(repo, doc, args=("--no-auto-styles",))
        m = _re.search(r">([^<]*)</text>", r["out"])
        if r["rc"] != 0 or not m or m.group(1) != want:
            return {"input": doc, "args": ["--no-auto-styles"], "observed": (m.group(1) if m and r["rc"] == 0 else r["err"].strip()[-160:]), "expected": want}
    return None


GENERATORS.insert(0, ("C14.cmp.", _comparison_chain))
GENERATORS.insert(0, ("loop1.ensures.25deed", _comparison_chain))


def _polyline_position_pending(repo, ob, failure):
    """a polyline / polygon / path positioned by x / y (moved by a transform) is unresolved until that is done: same output in every order"""
    import re as _re
    sib = ['<polyline id="p" points="0 0 10 10" x="#z~x2" y="20"/>', '<rect id="a" xy="#p|h" wh="5"/>', '<rect id="z" wh="30"/>']
    outs = {}
    for order in ((0, 1, 2), (2, 0, 1)):
        doc = "<svg>" + "".join(sib[i] for i in order) + "</svg>"
        r = run_svgdx(repo, doc, args=("--no-auto-styles",))
        m = _re.search(r'<rect id="a"[^>]*>', r["out"])
        outs[order] = (doc, m.group(0) if (r["rc"] == 0 and m) else r["err"].strip()[-120:])
    if outs[(0, 1, 2)][1] != outs[(2, 0, 1)][1]:
        return {"input": outs[(0, 1, 2)][0], "args": ["--no-auto-styles"], "observed": outs[(0, 1, 2)][1], "expected": "as with #z first: %s" % outs[(2, 0, 1)][1]}
    return None


GENERATORS.insert(0, ("C10.pending.foreign", _polyline_position_pending))


def _tail_text_kept(repo, ob, failure):
    """character data following an element that renders nothing (false <if>, empty <loop>) is kept, as in the unrolled document"""
    import re as _re
    for doc, want in [('<svg><text>a<if test="0"><tspan>b</tspan></if>c</text></svg>', "<text>ac</text>"),
                      ('<svg><text>a<loop count="0"><tspan>b</tspan></loop>c</text></svg>', "<text>ac</text>")]:
        r = run_svgdx(repo, doc, args=("--no-auto-styles",))
        if r["rc"] == 0 and want not in r["out"]:
            m = _re.search(r"<text>.*?</text>", r["out"])
            return {"input": doc, "args": ["--no-auto-styles"], "observed": m.group(0) if m else r["out"][-120:], "expected": want}
    return None


GENERATORS.insert(0, ("C16.tail.", _tail_text_kept))
GENERATORS.insert(0, ("C19.tail.", _tail_text_kept))
GENERATORS.insert(0, ("C03.tail.", _tail_text_kept))


def _clipped_shape_stays_resolved(repo, ob, failure):
    """a clipped shape written with shorthand can be referenced afterwards (its registered copy is the resolved element)"""
    docs = ['<svg><clipPath id="c"><rect xy="0" wh="5"/></clipPath><rect id="a" xy="0" wh="20 10" clip-path="url(#c)"/><use href="#a" x="50" y="0"/></svg>',
            '<svg><clipPath id="cp"><rect xy="0" wh="8"/></clipPath><circle id="c" cxy="0" r="10" clip-path="url(#cp)"/><rect inside="#c"/></svg>']
    for doc in docs:
        r = run_svgdx(repo, doc, args=("--no-auto-styles",))
        if r["rc"] != 0:
            return {"input": doc, "args": ["--no-auto-styles"], "observed": r["err"].strip()[-200:], "expected": "a document: the clipped element is resolved and has a box"}
    return None


GENERATORS.insert(0, ("C08.clip.registered", _clipped_shape_stays_resolved))
GENERATORS.insert(0, ("C10.clip.registered", _clipped_shape_stays_resolved))
GENERATORS.insert(0, ("C12.clip.registered", _clipped_shape_stays_resolved))


def _reuse_clip_box(repo, ob, failure):
    """the extent of a <reuse> is the extent of the instance it emitted (a clip-path on the <reuse> is not copied to the instance)"""
    import re as _re
    doc = ('<svg><clipPath id="c"><rect xy="0" wh="5"/></clipPath><specs><rect id="a" wh="20 10"/></specs>'
           '<reuse href="#a" x="0" y="0" clip-path="url(#c)"/><reuse href="#a" x="30" y="0" clip-path="url(#c)"/></svg>')
    r = run_svgdx(repo, doc, args=("--no-auto-styles", "--border", "0"))
    m = _re.search(r'viewBox="([^"]*)"', r["out"])
    if r["rc"] == 0 and m and "clip-path" not in r["out"].split("</clipPath>")[-1] and m.group(1) != "0 0 50 10":
        return {"input": doc, "args": ["--no-auto-styles", "--border", "0"], "observed": "viewBox=%r while both instances are drawn unclipped (x 0..20 and 30..50)" % m.group(1), "expected": "viewBox='0 0 50 10'"}
    return None


GENERATORS.insert(0, ("C08.clip.reuse_box", _reuse_clip_box))


def _text_outside_root(repo, ob, failure):
    """character data outside the root element never reaches the output (it would make it ill-formed): such input is an error"""
    docs = ['<!DOCTYPE svg [<!ENTITY arrow "->">]><svg><rect wh="5"/></svg>', 'stray<svg><rect wh="5"/></svg>']
    for doc in docs:
        r = run_svgdx(repo, doc, args=("--no-auto-styles",))
        head = r["out"].lstrip()
        if r["rc"] == 0 and not head.startswith("<"):
            return {"input": doc, "args": ["--no-auto-styles"], "observed": "output begins %r" % head[:40], "expected": "an error, or a document beginning with markup"}
    return None


GENERATORS.insert(0, ("C02.reader.no_text", _text_outside_root))


def _cdata_outside_root(repo, ob, failure):
    """a CDATA section outside the root element never reaches the output: such input is not XML and is an error"""
    for doc in ['<svg><rect wh="5"/></svg><![CDATA[x]]>', '<![CDATA[x]]><svg><rect wh="5"/></svg>']:
        r = run_svgdx(repo, doc, args=("--no-auto-styles",))
        if r["rc"] == 0:
            _el, e = _parse_xml(r["out"])
            if e:
                return {"input": doc, "args": ["--no-auto-styles"], "observed": "transform succeeds and an XML parser rejects the output (%s): %r" % (e, r["out"].strip()[-40:]),
                        "expected": "an error (character data outside the root element)"}
    return None


GENERATORS.insert(0, ("C02.reader.no_cdata", _cdata_outside_root))


def _group_attrs_once(repo, ob, failure):
    """an expression in a group attribute is evaluated once: random() advances once per occurrence"""
    import re as _re
    a = '<svg><g data-r="{{random()}}"><text text="{{random()}}"/></g><text text="{{random()}}"/></svg>'
    b = '<svg><text text="{{random()}} {{random()}} {{random()}}"/></svg>'
    ra, rb = run_svgdx(repo, a, args=("--no-auto-styles", "--seed", "7")), run_svgdx(repo, b, args=("--no-auto-styles", "--seed", "7"))
    if ra["rc"] != 0 or rb["rc"] != 0:
        return None
    seq_b = _re.search(r">([^<]*)</text>", rb["out"]).group(1).split()
    seq_a = [_re.search(r'data-r="([^"]*)"', ra["out"]).group(1)] + _re.findall(r">([^<]*)</text>", ra["out"])
    if seq_a != seq_b:
        return {"input": a, "args": ["--no-auto-styles", "--seed", "7"], "observed": "draws %s" % seq_a, "expected": "the first three draws of the sequence: %s" % seq_b}
    return None


GENERATORS.insert(0, ("C14.group.attributes_evaluated_once", _group_attrs_once))
GENERATORS.insert(0, ("C15.group.attributes_evaluated_once", _group_attrs_once))


def _scoping_instance_attrs(repo, ob, failure):
    """a reused <g> keeps its own wh / dw / rxy attributes as variables of its content; a reuse of a parameterised reuse works"""
    import re as _re
    doc = '<svg><var wh="outer-wh" dw="outer-dw" width="outer-width"/><specs><g id="t" wh="3 4" dw="2"><text text="wh=$wh dw=$dw width=$width"/></g></specs><reuse href="#t"/></svg>'
    r = run_svgdx(repo, doc, args=("--no-auto-styles",))
    m = _re.search(r">([^<]*)</text>", r["out"])
    if r["rc"] == 0 and m and m.group(1) != "wh=3 4 dw=2 width=outer-width":
        return {"input": doc, "args": ["--no-auto-styles"], "observed": m.group(1), "expected": "wh=3 4 dw=2 width=outer-width"}
    doc = '<svg><specs><rect id="t" wh="$w 4"/><reuse id="mid" href="#t" w="7"/></specs><reuse href="#mid"/></svg>'
    r = run_svgdx(repo, doc, args=("--no-auto-styles",))
    if r["rc"] != 0 or 'width="7" height="4"' not in r["out"]:
        return {"input": doc, "args": ["--no-auto-styles"], "observed": (r["err"].strip() or r["out"].strip())[-160:], "expected": '<rect width="7" height="4" class="mid t"/>'}
    return None


GENERATORS.insert(0, ("C15.instance.scoping", _scoping_instance_attrs))
GENERATORS.insert(0, ("C18.instance.scoping", _scoping_instance_attrs))
GENERATORS.insert(0, ("C18.instance.size_includes", _scoping_instance_attrs))


def _clipped_polyline_instance(repo, ob, failure):
    """x / y on a reuse of a polyline / polygon / path template move the instance whether or not its box is already known"""
    import re as _re
    doc = ('<svg><defs><clipPath id="cp"><rect wh="10"/></clipPath></defs><specs><polyline id="p" points="0 0 20 0 20 20" clip-path="url(#cp)"/></specs>'
           '<reuse href="#p" x="30" y="5"/></svg>')
    r = run_svgdx(repo, doc, args=("--no-auto-styles",))
    m = _re.search(r'<polyline [^>]*class="p"[^>]*>', r["out"])
    if r["rc"] == 0 and m and 'transform="translate(30, 5)"' not in m.group(0):
        return {"input": doc, "args": ["--no-auto-styles"], "observed": m.group(0), "expected": '... transform="translate(30, 5)" ...'}
    return None


GENERATORS.insert(0, ("C18.place.shape_moved", _clipped_polyline_instance))
GENERATORS.insert(0, ("C11.place.shape_moved", _clipped_polyline_instance))


def _radius_spellings_beside(repo, ob, failure):
    """every radius spelling Position accepts (circle rxy / rx ry, ellipse r) gives the element the same own size for |h |v placement"""
    import re as _re
    pairs = [('<circle xy="#a|h 2" rxy="5"/>', '<circle xy="#a|h 2" r="5"/>'), ('<ellipse xy="#a|h 2" r="5"/>', '<ellipse xy="#a|h 2" rxy="5"/>')]
    for a, b in pairs:
        ra = run_svgdx(repo, '<svg><rect id="a" wh="10"/>%s</svg>' % a, args=("--no-auto-styles",))
        rb = run_svgdx(repo, '<svg><rect id="a" wh="10"/>%s</svg>' % b, args=("--no-auto-styles",))
        if ra["rc"] == 0 and rb["rc"] == 0 and ra["out"] != rb["out"]:
            return {"input": '<svg><rect id="a" wh="10"/>%s</svg>' % a, "args": ["--no-auto-styles"], "observed": ra["out"].strip()[-90:], "expected": "as %s: %s" % (b, rb["out"].strip()[-90:])}
    return None


GENERATORS.insert(0, ("C09.size.radius", _radius_spellings_beside))
GENERATORS.insert(0, ("C11.size.radius", _radius_spellings_beside))

GENERATORS.insert(0, ("C12.margin.", _containment_edges))


def _relative_radius_spellings(repo, ob, failure):
    """a relative size in any radius spelling (ellipse r, circle rx) is resolved, never left in the output"""
    doc = '<svg><rect id="a" xy="10 20" wh="40 30"/><ellipse cxy="#a" r="#a 50%"/><circle cxy="#a" rx="#a 25%"/></svg>'
    r = run_svgdx(repo, doc, args=("--no-auto-styles",))
    if r["rc"] == 0 and '="#a' in r["out"]:
        return {"input": doc, "args": ["--no-auto-styles"], "observed": r["out"].strip()[-150:], "expected": '<ellipse cx="30" cy="35" rx="10" ry="10"/><circle cx="30" cy="35" r="5"/>'}
    return None


GENERATORS.insert(0, ("C09.size_attr.", _relative_radius_spellings))
GENERATORS.insert(0, ("C11.size_attr.", _relative_radius_spellings))


def _text_anchor_spellings(repo, ob, failure):
    """a <text> anchored by cxy / xy-loc / x2 y2 is written at that point, with no foreign attribute left"""
    import re as _re
    for doc, want in [('<svg><text cxy="10 10">a</text></svg>', 'x="10" y="10"'), ('<svg><text x2="20" y2="8">c</text></svg>', 'x="20" y="8"')]:
        r = run_svgdx(repo, doc, args=("--no-auto-styles",))
        m = _re.search(r"<text [^>]*>", r["out"])
        if r["rc"] == 0 and m and (want not in m.group(0) or "cx=" in m.group(0) or "x2=" in m.group(0)):
            return {"input": doc, "args": ["--no-auto-styles"], "observed": m.group(0), "expected": "<text %s class=..>" % want}
    return None


GENERATORS.insert(0, ("C19.anchor.any_spelling", _text_anchor_spellings))
GENERATORS.insert(0, ("C19.anchor.text_located", _text_anchor_spellings))
GENERATORS.insert(0, ("C09.point.any_spelling", _text_anchor_spellings))


def _degenerate_extent_dimension(repo, ob, failure):
    """a missing root dimension is never derived from an extent without area (no `inf` / `NaN` lengths)"""
    for doc in ['<svg height="100"><line xy1="0 5" xy2="20 5"/></svg>', '<svg width="50"><line xy1="3 0" xy2="3 9"/></svg>']:
        r = run_svgdx(repo, doc, args=("--no-auto-styles", "--border", "0"))
        if r["rc"] == 0 and ("inf" in r["out"] or "NaN" in r["out"]):
            return {"input": doc, "args": ["--no-auto-styles", "--border", "0"], "observed": r["out"].strip()[:160], "expected": "no inf / NaN length on the root: the dimension that cannot be derived is left out"}
    return None


GENERATORS.insert(0, ("C08.root.no_dimension", _degenerate_extent_dimension))
GENERATORS.insert(0, ("C08.root.derived", _degenerate_extent_dimension))


def _target_id_class(repo, ob, failure):
    """an instance carries the id its target is registered under as a class, not the id attribute re-evaluated with the reuse's variables"""
    import re as _re
    doc = '<svg><var i="1"/><rect id="t$i" wh="{{$i + 1}}"/><reuse href="#t1" i="7" x="20" y="0"/></svg>'
    r = run_svgdx(repo, doc, args=("--no-auto-styles",))
    m = _re.search(r'<rect x="20"[^>]*>', r["out"])
    if r["rc"] == 0 and m and 'class="t1"' not in m.group(0):
        return {"input": doc, "args": ["--no-auto-styles"], "observed": m.group(0), "expected": '... class="t1"'}
    return None


GENERATORS.insert(0, ("C18.carry.classes", _target_id_class))
GENERATORS.insert(0, ("C18.carry.target_id", _target_id_class))


def _single_axis_reuse(repo, ob, failure):
    """x alone (or y alone) on a reuse keeps the template's position on the other axis"""
    import re as _re
    for doc, pat, want in [('<svg><specs><rect id="t" cxy="5" wh="4"/></specs><reuse href="#t" x="10"/></svg>', r'<rect [^>]*>', 'x="10" y="3"'),
                           ('<svg><specs><circle id="c" cxy="5" r="2"/></specs><reuse href="#c" y="10"/></svg>', r'<circle [^>]*>', 'cx="5" cy="12"')]:
        r = run_svgdx(repo, doc, args=("--no-auto-styles",))
        m = _re.search(pat, r["out"])
        if r["rc"] == 0 and m and want not in m.group(0):
            return {"input": doc, "args": ["--no-auto-styles"], "observed": m.group(0), "expected": "... %s ..." % want}
    return None


GENERATORS.insert(0, ("C18.place.unpositioned", _single_axis_reuse))
