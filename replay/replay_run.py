"""bin/check --replay <file>: re-run the stored witness on the real binary, or re-verify the obligation."""
import json
import os
import subprocess
import sys

VERIF = os.path.dirname(os.path.dirname(os.path.abspath(__file__)))


def replay(path):
    rec = json.load(open(path))
    print("obligation:", rec["obligation"], "| function:", rec["function"], "| site:", rec["failing_site"])
    w = rec.get("witness") or {}
    if w.get("reproduced") and w.get("input_full", w.get("input")) and not str(w.get("input", "")).endswith("..."):
        import witness
        r = witness.run_svgdx(os.environ.get("VERIF_REPO", "/repo"), w.get("input_full", w["input"]), args=tuple(w.get("args") or ()), timeout=5)
        print("replayed input on the real binary: rc=%s timeout=%s" % (r["rc"], r["timeout"]))
        print((r["out"] or r["err"])[:600])
        print("expected:", w.get("expected"))
        print("observed when found:", w.get("observed"))
        return 0
    if w.get("kani_playback"):
        print(w["kani_playback"])
    print("no concrete input stored; re-verifying the obligation:")
    return subprocess.call([os.path.join(VERIF, "bin", "check"), rec["property"]])
