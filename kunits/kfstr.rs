//@unit kfstr
//@props C14 C09
// K-fstr: the whole-number shortcut of fstr (src/types.rs), the function every computed number goes
// through on its way into an attribute: when the shortcut prints `x as i32`, that integer must
// denote x (re-reading it gives the same f32). Bit-precise over all f32, loop-free: complete.
//@assume only the shortcut condition is under contract; the `{x:.3}` formatting branch (format!, trim_end_matches) is string code outside both verifiers
//@rewrite plain
#![allow(dead_code, unused_variables)]

//@item src/types.rs :: fn fstr
//@ fragment-name int_shortcut
//@ fragment-inner
//@ fragment-from <<<        return "0".to_string();\n    }\n    if >>>
//@ fragment-to <<< {\n        return (x as i32).to_string();>>>
//@ fragment-head <<<fn int_shortcut(x: f32) -> bool {>>>
//@ fragment-tail <<<}>>>
//@end

#[cfg(kani)]
mod proofs {
    use super::*;
    // @harness int_shortcut_exact @C14.fstr.int_exact @C09.fstr.int_exact complete :: whenever fstr prints the integer `x as i32`, that integer re-reads as exactly x (no saturation, no lost fraction), for every f32 with |x| >= 0.0001
    #[kani::proof]
    fn int_shortcut_exact() {
        let x: f32 = kani::any();
        kani::assume(!(x.abs() < 0.0001));
        if int_shortcut(x) {
            assert!(((x as i32) as f32) == x);
        }
    }
    // @harness int_shortcut_small_ints @C14.fstr.int_used complete :: every integer of magnitude up to 2^24 takes the shortcut (is printed without a decimal point)
    #[kani::proof]
    fn int_shortcut_small_ints() {
        let n: i32 = kani::any();
        kani::assume(n != 0 && n > -16777216 && n < 16777216);
        assert!(int_shortcut(n as f32));
    }
}
