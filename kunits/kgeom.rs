//@unit kgeom
//@props C08 C09 C11 C12
// K-geom: the numeric kernel of bounding boxes (src/position.rs) on REAL f32, bit-precise over the
// full input domain (Kani / CBMC, loop-free harnesses: complete proofs). These are the claims that
// are exact in IEEE arithmetic; the identities that only hold over the reals are the Verus units'
// (U-geom) business and stay there, labelled as the real-number idealisation.
//@assume none beyond Kani / CBMC themselves: the functions are compiled as extracted
//@rewrite plain
#![allow(dead_code, unused_variables)]

#[derive(Clone, Copy, Debug, PartialEq)]
//@item src/position.rs :: struct BoundingBox
//@end
#[derive(Clone, Copy, Debug, PartialEq)]
//@item src/position.rs :: enum Length
//@end

impl BoundingBox {
//@item src/position.rs :: impl BoundingBox :: fn new
//@end
//@item src/position.rs :: impl BoundingBox :: fn combine
//@end
//@item src/position.rs :: impl BoundingBox :: fn intersect
//@end
//@item src/position.rs :: impl BoundingBox :: fn round
//@end
//@item src/position.rs :: impl BoundingBox :: fn translated
//@end
//@item src/position.rs :: impl BoundingBox :: fn width
//@end
//@item src/position.rs :: impl BoundingBox :: fn height
//@end
}
/// only the field extent() reads
pub struct Position { pub shape: String }
impl Position {
//@item src/position.rs :: impl Position :: fn extent
//@end
}
impl Length {
//@item src/position.rs :: impl Length :: fn calc_offset
//@end
//@item src/position.rs :: impl Length :: fn adjust
//@end
}

#[cfg(kani)]
mod proofs {
    use super::*;
    fn any_box() -> BoundingBox { BoundingBox::new(kani::any(), kani::any(), kani::any(), kani::any()) }
    fn no_nan(b: &BoundingBox) -> bool { !(b.x1.is_nan() || b.y1.is_nan() || b.x2.is_nan() || b.y2.is_nan()) }
    fn finite(b: &BoundingBox) -> bool { b.x1.is_finite() && b.y1.is_finite() && b.x2.is_finite() && b.y2.is_finite() }

    // @harness combine_encloses @C08.k.combine_encloses @C12.k.combine_encloses complete :: combine(a, b) encloses both boxes, for all non-NaN f32 coordinates (infinities included)
    #[kani::proof]
    fn combine_encloses() {
        let (a, b) = (any_box(), any_box());
        kani::assume(no_nan(&a) && no_nan(&b));
        let c = a.combine(&b);
        assert!(c.x1 <= a.x1 && c.x1 <= b.x1 && c.y1 <= a.y1 && c.y1 <= b.y1);
        assert!(c.x2 >= a.x2 && c.x2 >= b.x2 && c.y2 >= a.y2 && c.y2 >= b.y2);
        // least: every edge is an edge of one of the two
        assert!((c.x1 == a.x1 || c.x1 == b.x1) && (c.x2 == a.x2 || c.x2 == b.x2) && (c.y1 == a.y1 || c.y1 == b.y1) && (c.y2 == a.y2 || c.y2 == b.y2));
    }

    // @harness intersect_inside @C12.k.intersect_inside complete :: intersect(a, b), when it exists, lies inside both boxes and is not inverted; for all finite coordinates
    #[kani::proof]
    fn intersect_inside() {
        let (a, b) = (any_box(), any_box());
        kani::assume(finite(&a) && finite(&b));
        if let Some(c) = a.intersect(&b) {
            assert!(c.x1 >= a.x1 && c.x1 >= b.x1 && c.y1 >= a.y1 && c.y1 >= b.y1);
            assert!(c.x2 <= a.x2 && c.x2 <= b.x2 && c.y2 <= a.y2 && c.y2 <= b.y2);
            assert!(c.x1 <= c.x2 && c.y1 <= c.y2);
        }
    }

    // @harness intersect_exists @C12.k.intersect_exists @C08.k.intersect_exists complete :: when the two boxes (well-formed, finite) share a point, intersect returns a box
    #[kani::proof]
    fn intersect_exists() {
        let (a, b) = (any_box(), any_box());
        kani::assume(finite(&a) && finite(&b));
        let (lx, ly) = (if a.x1 > b.x1 { a.x1 } else { b.x1 }, if a.y1 > b.y1 { a.y1 } else { b.y1 });
        let (hx, hy) = (if a.x2 < b.x2 { a.x2 } else { b.x2 }, if a.y2 < b.y2 { a.y2 } else { b.y2 });
        if lx <= hx && ly <= hy { assert!(a.intersect(&b).is_some()); }
    }

    // @harness round_outward @C08.k.round_outward complete :: round() moves every edge outward to an integer by at most 1, for all finite coordinates
    #[kani::proof]
    fn round_outward() {
        let mut a = any_box();
        kani::assume(finite(&a));
        let o = a;
        a.round();
        assert!(a.x1 <= o.x1 && a.y1 <= o.y1 && a.x2 >= o.x2 && a.y2 >= o.y2);
        assert!(a.x1 == a.x1.trunc() && a.y1 == a.y1.trunc() && a.x2 == a.x2.trunc() && a.y2 == a.y2.trunc());
        assert!(o.x1 - a.x1 <= 1.0 && a.x2 - o.x2 <= 1.0 && o.y1 - a.y1 <= 1.0 && a.y2 - o.y2 <= 1.0);
    }

    // @harness translated_zero @C08.k.translate_zero complete :: translating by (0, 0) is the identity, for all non-NaN coordinates
    #[kani::proof]
    fn translated_zero() {
        let a = any_box();
        kani::assume(no_nan(&a));
        let t = a.translated(0.0, 0.0);
        assert!(t.x1 == a.x1 && t.y1 == a.y1 && t.x2 == a.x2 && t.y2 == a.y2);
    }

    // @harness extent_given_edges @C11.k.extent_given_edges complete :: when both edges of an axis are given they are returned bit-for-bit, whatever else is given; a finite start and length give exactly (s, s + l); for all f32
    #[kani::proof]
    fn extent_given_edges() {
        let p = Position { shape: String::new() };
        let (s, e): (f32, f32) = (kani::any(), kani::any());
        let m: Option<f32> = if kani::any() { Some(kani::any()) } else { None };
        let l: Option<f32> = if kani::any() { Some(kani::any()) } else { None };
        let r = p.extent(Some(s), Some(e), m, l);
        assert!(r.is_some());
        let (a, b) = r.unwrap();
        assert!(a.to_bits() == s.to_bits() && b.to_bits() == e.to_bits());
        if s.is_finite() && e.is_finite() {     // (inf + -inf is flagged by Kani's own NaN check; not a panic of the code)
            let r2 = p.extent(Some(s), None, None, Some(e));
            let (a2, b2) = r2.unwrap();
            assert!(a2.to_bits() == s.to_bits() && b2 == s + e);
        }
        core::mem::forget(p);
    }

    // @harness extent_underdetermined @C11.k.extent_underdetermined complete :: a single constraint on an axis of a non-line shape determines no extent
    #[kani::proof]
    fn extent_underdetermined() {
        let p = Position { shape: String::new() };
        let v: f32 = kani::any();
        assert!(p.extent(Some(v), None, None, None).is_none());
        assert!(p.extent(None, Some(v), None, None).is_none());
        assert!(p.extent(None, None, Some(v), None).is_none());
        assert!(p.extent(None, None, None, Some(v)).is_none());
        assert!(p.extent(None, None, None, None).is_none());
        core::mem::forget(p);
    }

    // @harness offset_endpoints @C09.k.offset_endpoints complete :: an edge offset of 0% is the start of the edge, 100% is its end, `0` units is the start; for all finite edges
    #[kani::proof]
    fn offset_endpoints() {
        let (s, e): (f32, f32) = (kani::any(), kani::any());
        kani::assume(s.is_finite() && e.is_finite() && (e - s).is_finite());
        assert!(Length::Ratio(0.0).calc_offset(s, e) == s);
        assert!(Length::Absolute(0.0).calc_offset(s, e) == s);
        let r1 = Length::Ratio(1.0).calc_offset(s, e);
        // s + (e - s) may round: within one ulp-scale step of e; exact when e - s is exact
        if (e - s) + s == e { assert!(r1 == e); }
    }
}
