//@unit kfunctions
//@props C01 C14
// K-functions: float-exact arms of the built-in function table (src/functions.rs eval_function),
// extracted mechanically (R-fragment, as in U-functions) and checked bit-precisely by Kani/CBMC over
// the FULL f32 domain (NaN, infinities, signed zero, subnormals). Every harness is loop-free, so a
// pass is a complete proof for the extracted arm, not a bounded one.
//@assume ExprValue::one_number / number_pair / number_triple are stand-ins that return the harness-chosen numbers (ARGS) or an error; the real ones only select list elements (U-functions: nums_of)
//@assume the random-number call of randint is replaced by an arbitrary value in min..=max (rand's own contract)
//@rewrite plain
#![allow(dead_code, unused_variables, unused_mut, unused_imports, static_mut_refs)]

#[derive(Debug)]
pub enum SvgdxError { ParseError(String), InvalidData(String) }
pub type Result<T> = core::result::Result<T, SvgdxError>;

#[derive(Debug, Clone, PartialEq)]
//@item src/expression.rs :: enum ExprValue
//@end
impl From<f32> for ExprValue {
//@item src/expression.rs :: impl From<f32> for ExprValue :: fn from
//@end
}

/// the numeric arguments chosen by the harness
pub static mut ARGS: (f32, f32, f32) = (0.0, 0.0, 0.0);
pub static mut ARGS_OK: bool = true;
impl ExprValue {
    pub fn one_number(&self) -> Result<f32> { unsafe { if ARGS_OK { Ok(ARGS.0) } else { Err(SvgdxError::ParseError(String::new())) } } }
    pub fn number_pair(&self) -> Result<(f32, f32)> { unsafe { if ARGS_OK { Ok((ARGS.0, ARGS.1)) } else { Err(SvgdxError::ParseError(String::new())) } } }
    pub fn number_triple(&self) -> Result<(f32, f32, f32)> { unsafe { if ARGS_OK { Ok(ARGS) } else { Err(SvgdxError::ParseError(String::new())) } } }
}

//@item src/functions.rs :: fn eval_function
//@ fragment-name arm_clamp
//@ fragment-inner
//@ fragment-from <<<        Function::Clamp => {>>>
//@ fragment-to <<<\n        }\n        Function::Mix => >>>
//@ fragment-head <<<fn arm_clamp(args: &ExprValue) -> Result<ExprValue> {\n    let e = {>>>
//@ fragment-tail <<<    };\n    Ok(e.into())\n}>>>
//@end

//@item src/functions.rs :: fn eval_function
//@ fragment-name arm_sign
//@ fragment-inner
//@ fragment-from <<<        Function::Sign => {>>>
//@ fragment-to <<<\n        }\n        Function::DivMod => >>>
//@ fragment-head <<<fn arm_sign(args: &ExprValue) -> Result<ExprValue> {\n    let e = {>>>
//@ fragment-tail <<<    };\n    Ok(e.into())\n}>>>
//@end

//@item src/functions.rs :: fn eval_function
//@ fragment-name arm_mix
//@ fragment-inner
//@ fragment-from <<<        Function::Mix => {>>>
//@ fragment-to <<<\n        }\n        Function::Equal => >>>
//@ fragment-head <<<fn arm_mix(args: &ExprValue) -> Result<ExprValue> {\n    let e = {>>>
//@ fragment-tail <<<    };\n    Ok(e.into())\n}>>>
//@end

#[cfg(kani)]
mod proofs {
    use super::*;
    fn setup() -> (f32, f32, f32) {
        let t: (f32, f32, f32) = (kani::any(), kani::any(), kani::any());
        unsafe { ARGS = t; ARGS_OK = kani::any(); }
        t
    }
    fn num(r: &Result<ExprValue>) -> Option<f32> { match r { Ok(ExprValue::Number(v)) => Some(*v), _ => None } }
    // NOTE every harness ends with mem::forget of the ExprValue values: the recursive drop glue of
    // ExprValue::List(Vec<ExprValue>) would otherwise be unwound without end by CBMC

    // @harness clamp_total @C01.fn.clamp.total complete :: clamp(x, min, max) returns a value or an error for EVERY f32 triple (NaN bounds included), it never panics
    #[kani::proof]
    fn clamp_total() {
        let _ = setup();
        let a = ExprValue::Number(0.0);
        let r = arm_clamp(&a);
        core::mem::forget(r); core::mem::forget(a);
    }

    // @harness clamp_value @C14.fn.clamp.value complete :: when clamp succeeds on non-NaN arguments the result lies in [min, max] and equals x if x does
    #[kani::proof]
    fn clamp_value() {
        let (x, lo, hi) = setup();
        kani::assume(!x.is_nan() && !lo.is_nan() && !hi.is_nan());
        let a = ExprValue::Number(0.0);
        let r = arm_clamp(&a);
        if unsafe { ARGS_OK } {
            if lo > hi { assert!(r.is_err()); } else {
                let v = num(&r).unwrap();
                assert!(lo <= v && v <= hi);
                if lo <= x && x <= hi { assert!(v == x); }
            }
        } else { assert!(r.is_err()); }
        core::mem::forget(r); core::mem::forget(a);
    }

    // @harness sign_table @C14.fn.sign complete :: sign(x) is -1, 0 or 1 by the sign of x (0 for both zeros), for every non-NaN f32
    #[kani::proof]
    fn sign_table() {
        let (x, _, _) = setup();
        let a = ExprValue::Number(0.0);
        let r = arm_sign(&a);
        if unsafe { ARGS_OK } {
            let v = num(&r).unwrap();
            if x > 0.0 { assert!(v == 1.0); }
            if x < 0.0 { assert!(v == -1.0); }
            if x == 0.0 { assert!(v == 0.0); }
        } else { assert!(r.is_err()); }
        core::mem::forget(r); core::mem::forget(a);
    }

    // @harness mix_ends @C14.fn.mix complete :: mix(a, b, 0) == a and mix(a, b, 1) == b for finite a, b
    #[kani::proof]
    fn mix_ends() {
        let (a0, b0, c) = setup();
        kani::assume(a0.is_finite() && b0.is_finite() && (c == 0.0 || c == 1.0));
        let a = ExprValue::Number(0.0);
        let r = arm_mix(&a);
        if unsafe { ARGS_OK } {
            let v = num(&r).unwrap();
            if c == 0.0 { assert!(v == a0); } else { assert!(v == b0); }
        }
        core::mem::forget(r); core::mem::forget(a);
    }
}
