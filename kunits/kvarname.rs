//@unit kvarname
//@props C01 C14
// K-varname: valid_variable_name (src/expression.rs), called by the tokenizer for every `$name` /
// `${name}` of an expression. It slices the name by BYTE (`var[1..]`), which is only sound because
// the first test pins the first character to one byte. Verus has no model of str byte slicing or of
// closures over chars, so this is a BOUNDED stand-in: Kani/CBMC, every valid UTF-8 string of up to
// 4 bytes (covers 1-, 2-, 3- and 4-byte first characters followed by further bytes).
//@assume a change that brings Unicode classification tables (char::is_alphabetic) into the function needs far deeper unwinding than 6: such a tree is reported UNDECIDED (unwinding bound), not proved and not a violation; format! on the error path is replaced by String::new() (the message text is not part of the property); strings longer than 4 bytes are not explored (bounded)
//@rewrite plain
#![allow(dead_code, unused_variables, unused_mut, unused_imports)]

#[derive(Debug)]
pub enum SvgdxError { ParseError(String) }
pub type Result<T> = core::result::Result<T, SvgdxError>;

//@item src/expression.rs :: fn valid_variable_name
//@ replace-all[R-fmt] <<<format!(\n            "Invalid variable name '{var}'"\n        )>>> => <<<String::new()>>>
//@end

#[cfg(kani)]
mod proofs {
    use super::*;
    // @harness varname_total @C01.varname.total @C14.varname.ascii_identifier bounded 4 :: for every valid UTF-8 string of at most 4 bytes valid_variable_name returns (no slice panic at a non-boundary), and accepts exactly the ASCII identifiers [A-Za-z][A-Za-z0-9_]*
    #[kani::proof]
    #[kani::unwind(6)]
    fn varname_total() {
        let bytes: [u8; 4] = kani::any();
        let n: usize = kani::any();
        kani::assume(n <= 4);
        if let Ok(s) = core::str::from_utf8(&bytes[..n]) {
            let r = valid_variable_name(s);
            let mut ident = n > 0 && bytes[0].is_ascii_alphabetic();
            let mut i = 1;
            while i < n { if !(bytes[i].is_ascii_alphanumeric() || bytes[i] == b'_') { ident = false; } i += 1; }
            assert!(r.is_ok() == ident);
            core::mem::forget(r);
        }
    }
}
