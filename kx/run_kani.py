"""Kani side: K-units are plain-Rust templates (kunits/*.rs, `//@rewrite plain`) whose `//@item`
directives pull the real functions / fragments out of /repo on every run (same weaver as the Verus
units). Each `// @harness NAME @Cxx.label MODE :: claim` comment announces a `#[kani::proof]`
harness. MODE is `complete` (loop-free harness over the full input domain: a pass is a proof) or
`bounded N` (a stand-in with a stated bound, never counted as proved).

  harnesses_for(prop, tier) -> [harness dict]
  run(prop, tier, harnesses) -> {"status", "reason", "checker_cmd", "harnesses": [...]}
"""
import glob
import hashlib
import json
import os
import re
import shutil
import subprocess
import sys
import time
from concurrent.futures import ThreadPoolExecutor

VERIF = os.path.dirname(os.path.dirname(os.path.abspath(__file__)))
sys.path.insert(0, os.path.join(VERIF, "vx"))
import weave  # noqa: E402

WORK = os.path.join(os.environ.get("VERIF_WORK", os.path.join(VERIF, ".work")), "kani")
REPO = os.environ.get("VERIF_REPO", "/repo")
TIMEOUT = int(os.environ.get("VERIF_KANI_TIMEOUT", "1500"))
HARNESS_RE = re.compile(r"^\s*//\s*@harness\s+(\w+)\s+((?:@C\d+\.[A-Za-z0-9_.\-]+\s+)+)(complete|bounded\s+\d+)\s*::\s*(.*)$")

CARGO_TOML = """[package]
name = "%s"
version = "0.1.0"
edition = "2021"

[lib]
path = "src/lib.rs"

[dependencies]

[lints.rust]
unexpected_cfgs = { level = "allow", check-cfg = ['cfg(kani)'] }
"""


def kunits():
    return sorted(glob.glob(os.path.join(VERIF, "kunits", "*.rs")))


def parse_harnesses(path):
    out = []
    unit = os.path.basename(path)[:-3]
    for ln in open(path).read().split("\n"):
        m = HARNESS_RE.match(ln)
        if m:
            labels = re.findall(r"@(C\d+\.[A-Za-z0-9_.\-]+)", m.group(2))
            mode = m.group(3).split()
            out.append({"unit": unit, "unit_path": path, "harness": m.group(1), "labels": labels,
                        "id": "%s@kani:%s::%s" % (labels[0], unit, m.group(1)),
                        "props": sorted({l.split(".")[0] for l in labels}),
                        "mode": mode[0], "bound": int(mode[1]) if len(mode) > 1 else None, "claim": m.group(4).strip(),
                        "fn": "%s::%s" % (unit, m.group(1))})
    return out


def harnesses_for(prop, tier="quick"):
    """Kani harnesses take tens of seconds each (bit-blasting floats): they belong to the thorough tier."""
    if tier != "thorough" and not os.environ.get("VERIF_KANI_QUICK"):
        return []
    hs = []
    for p in kunits():
        hs += [h for h in parse_harnesses(p) if prop in h["props"]]
    return hs


def _prepare(unit_path, repo):
    """weave the K-unit into a crate; -> (crate_dir, woven)"""
    w = weave.expand(unit_path, repo=repo)
    unit = os.path.basename(unit_path)[:-3]
    d = os.path.join(WORK + ".%d" % os.getpid(), unit)
    os.makedirs(os.path.join(d, "src"), exist_ok=True)
    open(os.path.join(d, "Cargo.toml"), "w").write(CARGO_TOML % unit)
    os.makedirs(os.path.join(d, ".cargo"), exist_ok=True)
    open(os.path.join(d, ".cargo", "config.toml"), "w").write("[net]\noffline = true\n")
    open(os.path.join(d, "src", "lib.rs"), "w").write("\n".join(w.lines) + "\n")
    return d, w


def _parse(out, harness):
    """-> (status, detail, failed_checks, concrete_vals)"""
    if "VERIFICATION:- SUCCESSFUL" in out:
        return "proved", "VERIFICATION:- SUCCESSFUL", [], None
    if "VERIFICATION:- FAILED" in out:
        failed = []
        for m in re.finditer(r"Check \d+: (\S+)\n\s*- Status: FAILURE\n\s*- Description: \"(.*?)\"\n\s*- Location: (.*)", out):
            failed.append({"check": m.group(1), "description": m.group(2), "location": m.group(3).strip()})
        if not failed:
            m = re.search(r"Failed Checks: (.*)\n\s*File: \"(.*?)\", line (\d+), in (.*)", out)
            if m:
                failed.append({"check": m.group(4), "description": m.group(1), "location": "%s:%s" % (m.group(2), m.group(3))})
        only_unwind = failed and all("unwinding assertion" in f["description"] for f in failed)
        vals = None
        m = re.search(r"let concrete_vals: Vec<Vec<u8>> = vec!\[(.*?)\];", out, re.S)
        if m:
            vals = []
            for cm, vm in re.findall(r"//\s*(.*?)\n\s*vec!\[([\d, ]*)\]", m.group(1)):
                vals.append({"repr": cm.strip(), "bytes": [int(x) for x in vm.split(",") if x.strip()]})
        if only_unwind:
            return "undecided", "unwinding bound too small", failed, vals
        return "failed", "; ".join("%s [%s]" % (f["description"], f["location"]) for f in failed[:4]) or "VERIFICATION:- FAILED", failed, vals
    tail = " | ".join(l for l in out.strip().split("\n")[-6:])
    return "undecided", "no verdict from Kani: " + tail[-400:], [], None


def _run_one(crate, h):
    cmd = ["cargo", "kani", "-Z", "function-contracts", "-Z", "stubbing", "-Z", "concrete-playback", "--concrete-playback=print",
           "--harness", h["harness"], "--target-dir", os.path.join(crate, "target-" + h["harness"])]
    env = dict(os.environ, CARGO_NET_OFFLINE="true")
    t0 = time.time()
    try:
        p = subprocess.run(cmd, cwd=crate, env=env, stdout=subprocess.PIPE, stderr=subprocess.STDOUT, universal_newlines=True, timeout=TIMEOUT)
        out = p.stdout
    except subprocess.TimeoutExpired:
        return dict(h, status="undecided", detail="kani timeout after %ds" % TIMEOUT, wall_s=round(time.time() - t0, 1), output="")
    status, detail, failed, vals = _parse(out, h["harness"])
    m = re.search(r"Verification Time: ([\d.]+)s", out)
    site = failed[0]["location"] if failed else ""
    keep = out[-6000:] if status != "proved" else ""
    return dict(h, status=status, detail=detail, failed_checks=failed, counterexample=vals, site=site,
                solver_s=float(m.group(1)) if m else None, wall_s=round(time.time() - t0, 1), output=keep,
                checker_cmd=" ".join(cmd[:11]))


def run(prop, tier, harnesses, repo=None):
    repo = repo or REPO
    res = {"status": "ok", "reason": None, "harnesses": [], "checker_cmd": "cargo kani -Z function-contracts -Z stubbing -Z concrete-playback --concrete-playback=print --harness <h> (crate woven from kunits/*.rs)"}
    crates = {}
    items = {}
    for up in sorted({h["unit_path"] for h in harnesses}):
        try:
            crates[up], w = _prepare(up, repo)
            items[up] = w
        except (weave.WeaveError, OSError) as e:
            res.update(status="undecided", reason="weave (K-unit %s): %s" % (os.path.basename(up), e))
            return res
    with ThreadPoolExecutor(max_workers=int(os.environ.get("VERIF_KANI_JOBS", "6"))) as ex:
        out = list(ex.map(lambda h: _run_one(crates[h["unit_path"]], h), harnesses))
    for h in out:
        w = items[h["unit_path"]]
        h["sources"] = [{"file": it["file"], "path": it["path"], "fn": it["fn"], "sha256": it["sha256"], "src_line": it["src_line"]} for it in w.items if it["kind"] == "fn"]
        h["rewrites"] = w.rewrites
        h["assumes"] = w.assumes
        # a bounded harness never counts as proved
        if h["mode"] == "bounded" and h["status"] == "proved":
            h["status"] = "bounded-ok"
        h.pop("unit_path", None)
    res["harnesses"] = out
    for up, d in crates.items():
        for t in glob.glob(os.path.join(d, "target-*")):
            shutil.rmtree(t, ignore_errors=True)
    # keep the last woven crates (sources only) under .work/kani/<unit> for inspection, drop the per-process dir
    for up, d in crates.items():
        keep = os.path.join(WORK, os.path.basename(d))
        shutil.rmtree(keep, ignore_errors=True)
        try:
            shutil.copytree(d, keep)
        except OSError:
            pass
    shutil.rmtree(WORK + ".%d" % os.getpid(), ignore_errors=True)
    return res


if __name__ == "__main__":
    prop = sys.argv[1]
    hs = harnesses_for(prop, "thorough")
    r = run(prop, "thorough", hs)
    for h in r["harnesses"]:
        print(h["id"], h["status"], h.get("wall_s"), h.get("detail", "")[:200])
        if h.get("counterexample"):
            print("   cex:", h["counterexample"])
    print(r["status"], r["reason"])
