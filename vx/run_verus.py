"""Run Verus on a woven unit (and its vacuity twin) and turn diagnostics into obligations."""
import hashlib
import json
import os
import re
import subprocess
import sys
import time

sys.path.insert(0, os.path.dirname(os.path.abspath(__file__)))
import weave  # noqa: E402

VERIF = os.path.dirname(os.path.dirname(os.path.abspath(__file__)))
WORK = os.environ.get("VERIF_WORK", os.path.join(VERIF, ".work"))
VERUS_TIMEOUT = int(os.environ.get("VERIF_VERUS_TIMEOUT", "900"))

# messages that are verification failures (an obligation was not discharged); any other
# error-level diagnostic means the unit could not be translated -> undecided
FAIL_PREFIXES = (
    "postcondition not satisfied",
    "precondition not satisfied",
    "assertion failed",
    "invariant not satisfied",
    "loop invariant not satisfied",
    "decreases not satisfied",
    "possible arithmetic underflow/overflow",
    "possible division by zero",
    "possible bit shift underflow/overflow",
    "could not prove termination",
    "unreachable code may be reachable",
    "cannot show invariant holds",
    "cannot show loop invariant",
    "loop ensures not satisfied",
    "failed to prove",
    "recommendation not met",
    "constructed value may fail to meet its declared type invariant",
    "possible overflow",
    "index out of bounds",
)
RLIMIT_MARKERS = ("Resource limit (rlimit) exceeded", "rlimit")


def _run(cmd, cwd, timeout):
    t0 = time.time()
    try:
        p = subprocess.run(cmd, cwd=cwd, stdout=subprocess.PIPE, stderr=subprocess.PIPE, timeout=timeout,
                           universal_newlines=True)
        return p.returncode, p.stdout, p.stderr, time.time() - t0
    except subprocess.TimeoutExpired as e:
        return None, e.stdout or "", e.stderr or "", time.time() - t0


def parse_diags(stderr):
    diags, raw = [], []
    for ln in stderr.split("\n"):
        ln = ln.strip()
        if ln.startswith("{"):
            try:
                diags.append(json.loads(ln))
                continue
            except ValueError:
                pass
        if ln:
            raw.append(ln)
    return diags, raw


def _item_at(items, line):
    for it in items:
        if it["line_start"] <= line <= it["line_end"]:
            return it
    return None


def _clause_at(clauses, ls, le):
    for c in clauses:
        if not (le < c["line_start"] or ls > c["line_end"]):
            return c
    return None


def _span_text(sp):
    """site text = the full source line(s) the span touches, whitespace-normalised"""
    if (sp.get("label") or "").startswith("at the end of the function body"):
        return "end of function body"
    return " ".join(" ".join(t["text"] for t in sp["text"]).split())


def classify(diags, w, gen_file=None, verif_phase=False):
    """-> (failures, hard_errors). failure: dict(fn, label(s)|None, clause, kind, site, message, rendered)"""
    failures, hard = [], []
    for d in diags:
        if d.get("level") != "error":
            continue
        msg = d.get("message", "")
        if msg.startswith("aborting due to"):
            continue
        if any(m in msg for m in RLIMIT_MARKERS):
            hard.append({"kind": "rlimit", "message": msg, "rendered": d.get("rendered", "")})
            continue
        if not msg.startswith(FAIL_PREFIXES) and not verif_phase:
            hard.append({"kind": "translation", "message": msg, "rendered": d.get("rendered", "")})
            continue
        clause = None
        site_sp = None
        for sp in d.get("spans", []):
            if gen_file and os.path.basename(sp.get("file_name", gen_file)) != os.path.basename(gen_file):
                continue      # span inside vstd (e.g. the precondition of Result::expect): not ours
            # a span inside a macro expansion (matches!, vec!, ...) -> use the macro call site
            lab0, prim0 = sp.get("label"), sp.get("is_primary")
            while (sp.get("expansion") and sp["expansion"].get("span")
                   and str(sp["expansion"].get("macro_decl_name", "")).endswith("!")):
                sp = dict(sp["expansion"]["span"])
                sp["label"], sp["is_primary"] = lab0, prim0
            lab = sp.get("label") or ""
            if lab.startswith("failed"):
                is_clause = True           # "failed this postcondition" / "failed precondition" / "failed this invariant"
            elif lab.startswith("at "):
                is_clause = False          # "at this exit" / "at the end of the function body" / "at this loop exit"
            else:
                # unlabelled: the clause itself for invariant / decreases failures, otherwise the site
                is_clause = msg.startswith(("invariant", "loop invariant", "decreases", "cannot show", "loop ensures"))
            if is_clause:
                c = _clause_at(w.clauses, sp["line_start"], sp["line_end"])
                if c is not None and clause is None:
                    clause = c
                elif c is None and site_sp is None:
                    site_sp = sp           # clause written in hand-written text without a label
            else:
                if site_sp is None or sp.get("is_primary"):
                    site_sp = sp
        if clause is None and site_sp is not None:
            c = _clause_at(w.clauses, site_sp["line_start"], site_sp["line_end"])
            if c is not None and c["kind"] == "hint":
                clause = c             # a labelled proof hint (assert / lemma call) inside the function body
        it = None
        if site_sp is not None:
            it = _item_at(w.items, site_sp["line_start"])
        if it is None and clause is not None and clause["item"] is not None:
            it = w.items[clause["item"]]
        if it is None:
            # span in prelude / hand-written text: cannot attribute -> machinery problem
            hard.append({"kind": "unattributed", "message": msg, "rendered": d.get("rendered", "")})
            continue
        site = _span_text(site_sp) if site_sp is not None else msg
        failures.append({
            "fn": it["fn"], "item": w.items.index(it),
            "labels": clause["labels"] if clause else [],
            "clause": clause["text"] if clause else None,
            "clause_kind": clause["kind"] if clause else None,
            "kind": msg, "site": site, "rendered": d.get("rendered", ""),
        })
    return failures, hard


def trait_link(w):
    """impl-fn item index -> trait decl item index (same unit)"""
    decl = {}
    for i, it in enumerate(w.items):
        segs = it["path"].split(" :: ")
        if len(segs) == 2 and segs[0].startswith("trait ") and it["kind"] == "fn":
            decl[(segs[0].split()[1].split("<")[0].rstrip(":"), it["fn"].split("::")[-1])] = i
    link = {}
    for i, it in enumerate(w.items):
        segs = it["path"].split(" :: ")
        if len(segs) == 2 and segs[0].startswith("impl ") and " for " in segs[0] and it["kind"] == "fn":
            tname = segs[0][5:].split(" for ")[0].strip().split("<")[0]
            k = (tname, it["fn"].split("::")[-1])
            if k in decl:
                link[i] = decl[k]
    # default methods inside the trait itself are their own decl
    return link


def obligations_of(w, default_props):
    """Enumerate obligations of a woven unit: one per ensures / invariant / decreases clause of every
    function with a verified body (including clauses inherited from the trait declaration), plus
    one implicit `panic_free` obligation per such function."""
    link = trait_link(w)
    obs = []
    by_item = {}
    for c in w.clauses:
        by_item.setdefault(c["item"], []).append(c)
    for i, it in enumerate(w.items):
        if not it.get("has_body"):
            continue
        props = it["implicit"] if it["implicit"] is not None else list(default_props)
        cl = list(by_item.get(i, []))
        if i in link:
            cl += [c for c in by_item.get(link[i], []) if c["kind"] in ("ensures",)]
        for c in cl:
            if c["kind"] in ("requires", "recommends"):
                continue
            labs = [l for l in c["labels"] if l != "VACUITY"]
            cprops = sorted({l.split(".")[0] for l in labs if re.match(r"C\d+\.", l)}) or props
            obs.append({"id": "%s@%s" % (labs[0] if labs else "%s.%s" % (c["kind"], hashlib.sha1(c["text"].encode()).hexdigest()[:6]), it["fn"]),
                        "fn": it["fn"], "item": i, "labels": labs, "kind": c["kind"], "clause": c["text"],
                        "props": cprops, "status": "discharged", "failures": []})
        obs.append({"id": "panic_free@%s" % it["fn"], "fn": it["fn"], "item": i, "labels": [], "kind": "implicit",
                    "clause": "no panic: callee preconditions, arithmetic overflow, unwrap/expect, index bounds, proof hints",
                    "props": props, "status": "discharged", "failures": []})
    return obs


def assign_failures(obs, failures, w):
    link = trait_link(w)
    unassigned = []
    for f in failures:
        target = None
        if f["clause"] is not None and f["clause_kind"] not in ("requires", "recommends"):
            for o in obs:
                if o["item"] == f["item"] and o["clause"] == f["clause"] and o["kind"] == f["clause_kind"]:
                    target = o
                    break
        # a labelled proof hint, or a call that does not meet a LABELLED precondition of its callee: reported under that label, at the caller
        if target is None and f["clause_kind"] in ("hint", "requires", "recommends") and f["labels"]:
            it = w.items[f["item"]]
            oid = "%s@%s" % (f["labels"][0], it["fn"])
            for o in obs:
                if o["id"] == oid:
                    target = o
                    # the hint may carry labels of further properties: the obligation serves them too
                    o["labels"] = list(o["labels"]) + [l for l in f["labels"] if l not in o["labels"]]
                    o["props"] = sorted(set(o["props"]) | {l.split(".")[0] for l in f["labels"]})
                    break
            if target is None:
                target = {"id": oid, "fn": it["fn"], "item": f["item"], "labels": list(f["labels"]), "kind": "hint",
                          "clause": f["clause"], "props": sorted({l.split(".")[0] for l in f["labels"]}),
                          "status": "failed", "failures": []}
                obs.append(target)
        if target is None:
            for o in obs:
                if o["item"] == f["item"] and o["kind"] == "implicit":
                    target = o
                    break
        if target is None:
            unassigned.append(f)
            continue
        target["status"] = "failed"
        target["failures"].append({"kind": f["kind"], "site": f["site"], "rendered": f["rendered"],
                                   "callee_clause": f["clause"] if f["clause_kind"] in ("requires", "recommends") else None,
                                   "labels": f["labels"]})
    return unassigned


def run_unit(unit_path, repo=None, twin=True):
    """-> dict(unit, status 'ok'|'undecided', reason, obligations, functions, times, ...)"""
    name = os.path.basename(unit_path)[:-3]
    res = {"unit": name, "status": "ok", "reason": None, "obligations": [], "wall_s": 0.0}
    t0 = time.time()
    # one directory per process: several checks (C08, C09, ...) weave the same unit and may run at the same time
    d = os.path.join(WORK, "run.%d" % os.getpid(), name)
    os.makedirs(d, exist_ok=True)
    try:
        w = weave.expand(unit_path, twin=False, repo=repo)
        wt = weave.expand(unit_path, twin=True, repo=repo) if twin else None
    except (weave.WeaveError, OSError, rsitems_error()) as e:
        res.update(status="undecided", reason="weave: %s" % e)
        return res
    res["props"] = w.props
    res["items"] = w.items
    res["rewrites"] = w.rewrites
    res["preludes"] = w.preludes
    gen = os.path.join(d, name + ".rs")
    open(gen, "w").write("\n".join(w.lines) + "\n")
    res["generated"] = gen
    text = "\n".join(w.lines)
    # mechanical scan: no assume/admit outside the prelude
    body_no_prelude = re.sub(r"// ---- prelude (\w+) ----.*?// ---- end prelude \1 ----", "", text, flags=re.S)
    bad = re.findall(r"\b(assume|admit)\s*\(", body_no_prelude)
    if bad:
        res.update(status="undecided", reason="assume/admit found outside prelude: %s" % bad)
        return res
    res["trusted_scan"] = {
        "external_body": len(re.findall(r"verifier::external_body", text)),
        "assume_specification": len(re.findall(r"assume_specification", text)),
        "axiom": len(re.findall(r"\baxiom fn\b", text)),
        "uninterp": len(re.findall(r"\buninterp spec fn\b", text)),
    }
    res["assumed_contracts"] = assumed_contracts(text)
    cmd = ["verus", gen, "--multiple-errors", "50", "--output-json", "--time", "--", "--error-format=json"]
    # (the file is generated into a per-process directory and copied to .work/<unit>/ when the check ends)
    res["checker_cmd"] = " ".join(cmd).replace(gen, os.path.join(WORK, name, name + ".rs"))
    procs = [(w, gen)]
    if twin:
        gent = os.path.join(d, name + "_twin.rs")
        open(gent, "w").write("\n".join(wt.lines) + "\n")
        procs.append((wt, gent))
    from concurrent.futures import ThreadPoolExecutor

    def _verus(g, nerr):
        return _run(["verus", g, "--multiple-errors", str(nerr), "--output-json", "--time", "--", "--error-format=json"], d, VERUS_TIMEOUT)
    with ThreadPoolExecutor(max_workers=2) as ex:
        # the twin only has to show ONE failing probe per function: a small error budget keeps it cheap
        futs = [ex.submit(_verus, procs[0][1], 50)] + ([ex.submit(_verus, procs[1][1], 3)] if twin else [])
        outs = [f.result() for f in futs]
    rc, out, err, secs = outs[0]
    open(os.path.join(d, name + ".stdout.json"), "w").write(out)
    open(os.path.join(d, name + ".stderr.json"), "w").write(err)
    if rc is None:
        res.update(status="undecided", reason="verus timeout after %ds" % VERUS_TIMEOUT)
        return res
    diags, raw = parse_diags(err)
    try:
        js = json.loads(out)
    except ValueError:
        js = None
    vr = (js or {}).get("verification-results", {})
    # once Verus has reached the SMT phase (it counts verified / failed functions) every error
    # diagnostic is a verification failure, whatever its wording (vstd uses custom messages such as
    # "precondition not met: index in bounds for this access"); before that phase an error is a
    # translation / type error and the unit is undecided
    verif_phase = ((vr.get("verified") or 0) + (vr.get("errors") or 0)) > 0 and not vr.get("encountered-vir-error")
    failures, hard = classify(diags, w, gen, verif_phase)
    if hard:
        res.update(status="undecided", reason="%s: %s" % (hard[0]["kind"], hard[0]["message"]), hard=hard)
        return res
    if js is None:
        res.update(status="undecided", reason="verus produced no JSON (exit %s): %s" % (rc, " | ".join(raw[:3])))
        return res
    if vr.get("encountered-vir-error"):
        res.update(status="undecided", reason="verus vir error")
        return res
    if rc != 0 and not failures:
        res.update(status="undecided", reason="verus exit %s without a verification failure: %s" % (rc, " | ".join(raw[:3])))
        return res
    res["verus_verified"] = vr.get("verified")
    res["verus_errors"] = vr.get("errors")
    fn_times = {}
    try:
        for m in js["times-ms"]["smt"]["smt-run-module-times"]:
            for fb in m.get("function-breakdown", []):
                fn_times[fb["function"]] = {"ms": fb["time"], "rlimit": fb.get("rlimit"), "success": fb.get("success")}
    except (KeyError, TypeError):
        pass
    res["fn_times"] = fn_times
    res["smt_ms"] = js.get("times-ms", {}).get("smt", {}).get("total")
    res["verus_wall_s"] = round(secs, 2)
    obs = obligations_of(w, w.props)
    un = assign_failures(obs, failures, w)
    if un:
        res.update(status="undecided", reason="failure could not be attributed: %s" % un[0]["kind"])
        return res
    if not obs:
        res.update(status="undecided", reason="vacuity: unit generated zero obligations")
        return res
    res["obligations"] = obs
    # ---- vacuity twin: every function with a body must FAIL `ensures false`
    if twin:
        rct, outt, errt, secst = outs[1]
        if rct is None:
            res.update(status="undecided", reason="verus timeout on vacuity twin")
            return res
        dt, rawt = parse_diags(errt)
        ft, hardt = classify(dt, wt, gent, _phase(outt))
        # an rlimit inside the twin (Verus re-running queries to collect several errors) is not a
        # verdict; what counts is that every function's probe is refuted below
        hardt = [h for h in hardt if h["kind"] != "rlimit"]
        if hardt:
            res.update(status="undecided", reason="vacuity twin: %s: %s" % (hardt[0]["kind"], hardt[0]["message"]))
            return res
        refuted = {f["item"] for f in ft if "VACUITY" in f["labels"]}
        need = {i for i, it in enumerate(wt.items) if it.get("has_body")}
        missing = sorted(need - refuted)
        hneed = {"HINTVAC#%d" % h["n"] for h in wt.hint_probes}
        hrefuted = {l for f in ft for l in f["labels"] if l.startswith("HINTVAC#")}
        if missing or (hneed - hrefuted):
            # a function with other failing obligations may have used up the small budget: full run
            rct, outt, errt, secst = _verus(procs[1][1], 50)
            if rct is None:
                res.update(status="undecided", reason="verus timeout on vacuity twin")
                return res
            dt, rawt = parse_diags(errt)
            ft, hardt = classify(dt, wt, gent, _phase(outt))
            hardt = [h for h in hardt if h["kind"] != "rlimit"]
            if hardt:
                res.update(status="undecided", reason="vacuity twin: %s: %s" % (hardt[0]["kind"], hardt[0]["message"]))
                return res
            refuted = {f["item"] for f in ft if "VACUITY" in f["labels"]}
            missing = sorted(need - refuted)
            hrefuted = {l for f in ft for l in f["labels"] if l.startswith("HINTVAC#")}
        res["vacuity_twins_rejected"] = len(need & refuted)
        res["hint_antecedents_reachable"] = len(hneed & hrefuted)
        hmissing = sorted(hneed - hrefuted)
        if hmissing and not missing:
            hp = {("HINTVAC#%d" % h["n"]): h for h in wt.hint_probes}
            res.update(status="undecided", reason="vacuity: the antecedent of a labelled proof hint can never hold where the hint stands (it proves nothing there): %s"
                       % "; ".join("%s [%s]" % (hp[k]["text"][:120], ",".join(hp[k]["labels"])) for k in hmissing))
            return res
        if missing:
            res.update(status="undecided", reason="vacuity: `ensures false` was ACCEPTED for %s (contradictory precondition or assumption)"
                       % ", ".join(wt.items[i]["fn"] for i in missing))
            return res
    res["wall_s"] = round(time.time() - t0, 2)
    return res


def _phase(out):
    try:
        vr = json.loads(out).get("verification-results", {})
    except ValueError:
        return False
    return ((vr.get("verified") or 0) + (vr.get("errors") or 0)) > 0 and not vr.get("encountered-vir-error")


def rsitems_error():
    import rsitems
    return rsitems.ScanError


def assumed_contracts(text):
    """names of functions whose contract is assumed (external_body / assume_specification)"""
    out = []
    for mm in re.finditer(r"#\[verifier::external_body\]\s*(?:#\[[^\]]*\]\s*)*(?:pub\s+)?(fn|struct)\s+([A-Za-z_0-9]+)", text):
        out.append("%s %s" % (mm.group(1), mm.group(2)))
    for mm in re.finditer(r"assume_specification(?:<[^\[]*>)?\s*\[\s*([^\]]+)\]", text):
        out.append("std " + " ".join(mm.group(1).split()))
    return sorted(set(out))


if __name__ == "__main__":
    r = run_unit(sys.argv[1])
    for o in r.get("obligations", []):
        print(o["status"], o["id"], o["props"], [f["site"] for f in o["failures"]])
    r.pop("items", None)
    print(json.dumps({k: v for k, v in r.items() if k not in ("obligations",)}, indent=1)[:3000])
