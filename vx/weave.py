"""Unit template expander: mechanical extraction of items from /repo/src + contract weaving.

A unit template (units/<name>.rs) is ordinary Verus text with directive lines starting `//@`.
See DESIGN.md section 2.2 for the semantics; the grammar is:

  //@unit NAME
  //@props C01 C17                     default properties for implicit (panic-freedom) obligations
  //@prelude NAME...                   include vx/prelude/NAME.rs here
  //@rewrite f32|fmt                   switch a global mechanical rewrite on for all later items
  //@item FILE :: SEG :: SEG           extract an item (SEG = `fn x`, `impl A for B`, `struct S`, ...)
  //@ ret NAME                         name of the return value (default r)
  //@ implicit C01 ...                 properties the implicit obligations of this fn belong to
  //@ external_body                    keep the signature, drop the body: contract is ASSUMED
  //@ keep-derive Clone Copy           derives to keep on a struct/enum (others are dropped)
  //@ requires|ensures|decreases|recommends        section keyword
  //@ - CLAUSE TEXT  @@LABEL @@LABEL   one clause (continuation lines have no leading `- `)
  //@ loop N                           annotate the N-th loop (source order) of the fn
  //@ iter NAME                        (inside loop) name the ghost iterator of a `for` loop
  //@ invariant|invariant_except_break|ensures|decreases   (inside loop) section keyword
  //@ before <<<ANCHOR>>> / after <<<ANCHOR>>>   insert the following `//@ | raw` lines
  //@ replace[RULE] <<<OLD>>> => <<<NEW>>>        named rewrite; must match exactly once
  //@ replace-all[RULE] <<<OLD>>> => <<<NEW>>>    must match at least once
  //@end

Everything else is copied verbatim.
"""
import hashlib
import os
import re
import sys

sys.path.insert(0, os.path.dirname(os.path.abspath(__file__)))
import rsitems  # noqa: E402

REPO = os.environ.get("VERIF_REPO", "/repo")
HERE = os.path.dirname(os.path.abspath(__file__))


class WeaveError(Exception):
    """Broken machinery (lost anchor, unmatched rewrite, ...) -> exit 2, never an alarm."""


SECTION_KW = ("requires", "ensures", "decreases", "recommends", "invariant",
              "invariant_except_break", "no_unwind")


class Clause:
    def __init__(self, kind, text, labels):
        self.kind, self.text, self.labels = kind, text, labels


class LoopSpec:
    def __init__(self, n):
        self.n = n
        self.iter = None
        self.body_hint = []
        self.fragment = {}
        self.sections = []  # (kind, [Clause])


class ItemSpec:
    def __init__(self, file, path, lineno):
        self.file, self.path, self.lineno = file, path, lineno
        self.ret = "r"
        self.implicit = None
        self.external_body = False
        self.keep_derive = []
        self.sections = []  # (kind, [Clause])
        self.loops = []
        self.inserts = []  # (where, anchor, text)
        self.replaces = []  # (rule, old, new, all)
        self.extra_attrs = []
        self.extra_lits = []
        self.body_hint = []
        self.fragment = {}


def _parse_clause_line(s):
    labels = re.findall(r"@@([A-Za-z0-9_.\-]+)", s)
    text = re.sub(r"\s*@@[A-Za-z0-9_.\-]+", "", s).rstrip()
    return text, labels


def parse_item_block(lines, start, file, path):
    """lines[start] is the //@item line; returns (ItemSpec, index after //@end)"""
    spec = ItemSpec(file, path, start + 1)
    i = start + 1
    cur_sections = spec.sections
    cur_loop = None
    cur_clause = None
    pending_insert = None
    while True:
        if i >= len(lines):
            raise WeaveError("unterminated //@item at line %d" % (start + 1))
        ln = lines[i]
        if not ln.lstrip().startswith("//@"):
            raise WeaveError("non-directive line inside //@item block at line %d" % (i + 1))
        body = ln.lstrip()[3:]
        if body.strip() == "end":
            i += 1
            break
        b = body.strip()
        if b.startswith("| ") or b == "|":
            if pending_insert is None:
                raise WeaveError("raw line without before/after at line %d" % (i + 1))
            pending_insert[2].append(body.split("|", 1)[1][1:] if len(body.split("|", 1)[1]) > 0 else "")
            i += 1
            continue
        pending_insert = None
        if b.startswith("- "):
            text, labels = _parse_clause_line(b[2:])
            if not cur_sections or not cur_sections[-1]:
                raise WeaveError("clause outside a section at line %d" % (i + 1))
            cur_clause = Clause(cur_sections[-1][0], text, labels)
            cur_sections[-1][1].append(cur_clause)
        elif b.split()[0] in SECTION_KW and len(b.split()) == 1:
            cur_sections.append((b, []))
            cur_clause = None
        elif b.startswith("ret "):
            spec.ret = b.split()[1]
        elif b.startswith("implicit"):
            spec.implicit = b.split()[1:]
        elif b == "external_body":
            spec.external_body = True
        elif b.startswith("attr "):
            spec.extra_attrs.append(b[5:].strip())
        elif b.strip() == "fragment-inner":
            spec.fragment["inner"] = "1"      # the piece EXCLUDES the from / to anchors
        elif b.startswith("fragment-"):
            mm = re.match(r"fragment-(from|to|head|tail|name)\s+(?:<<<(.*)>>>|(\S+))$", b, re.S)
            if not mm:
                raise WeaveError("bad fragment directive at line %d" % (i + 1))
            spec.fragment[mm.group(1)] = (mm.group(2) if mm.group(2) is not None else mm.group(3)).replace("\\n", "\n")
        elif b.startswith("strlit "):
            spec.extra_lits += re.findall(r'"(?:[^"\\]|\\.)*"', b[7:])
        elif b.startswith("keep-derive"):
            spec.keep_derive = b.split()[1:]
        elif b.startswith("loop ") or b.startswith("loop? "):
            cur_loop = LoopSpec(int(b.split()[1]))
            cur_loop.optional = b.startswith("loop? ")     # `loop? N`: invariants that go away with the loop (the fn's own clauses still decide)
            spec.loops.append(cur_loop)
            cur_sections = cur_loop.sections
            cur_clause = None
        elif b.startswith("iter "):
            cur_loop.iter = b.split()[1]
        elif b == "fn":
            cur_sections = spec.sections
            cur_loop = None
        elif b == "body-start":
            tgt = cur_loop if cur_loop is not None else spec
            pending_insert = ("body-start", None, tgt.body_hint)
        elif re.match(r"(before|after)\??(#\d+)? ", b):
            where, rest = b.split(" ", 1)
            mm = re.match(r"<<<(.*)>>>$", rest.strip(), re.S)
            if not mm:
                raise WeaveError("bad anchor at line %d" % (i + 1))
            pending_insert = (where, mm.group(1).replace("\\n", "\n"), [])
            spec.inserts.append(pending_insert)
        elif b.startswith("cut[") or b.startswith("cut?["):
            mm = re.match(r"cut(\?)?\[([^\]]+)\]\s*<<<(.*?)>>>\s*\.\.\s*<<<(.*?)>>>\s*=>\s*<<<(.*)>>>$", b, re.S)
            if not mm:
                raise WeaveError("bad cut at line %d: %s" % (i + 1, b))
            spec.replaces.append((mm.group(2), (mm.group(3), mm.group(4)), mm.group(5), "cut?" if mm.group(1) else "cut"))
        elif b.startswith("replace"):
            mm = re.match(r"replace(-all|-re|\?)?\[([^\]]+)\]\s*<<<(.*?)>>>\s*=>\s*<<<(.*)>>>$", b, re.S)
            if not mm:
                raise WeaveError("bad replace at line %d: %s" % (i + 1, b))
            spec.replaces.append((mm.group(2), mm.group(3), mm.group(4), mm.group(1) or ""))
        elif cur_clause is not None:
            # continuation of the previous clause
            text, labels = _parse_clause_line(b)
            cur_clause.text += "\n        " + text if text else ""
            cur_clause.labels += labels
        else:
            raise WeaveError("unknown directive at line %d: %s" % (i + 1, b))
        i += 1
    return spec, i


# ---------------------------------------------------------------------------------------------
# mechanical rewrites

FLOAT_LIT = re.compile(r"(?<![\w.])(\d[\d_]*\.\d[\d_]*(?:[eE][+-]?\d+)?|\d[\d_]*\.(?![.\w])|\d[\d_]*[eE][+-]?\d+)(_?f32)?(?![\w])")


def rewrite_f32(text):
    """R-f32: type name f32 -> R32, float literals L -> lit(Ghost(Lreal)), f32::CONST -> R32::CONST"""
    src = rsitems.Src(text)
    out = []
    i = 0
    n = 0
    t = text
    L = len(t)
    while i < L:
        if not src.mask[i]:
            out.append(t[i])
            i += 1
            continue
        mm = FLOAT_LIT.match(t, i)
        if mm and (i == 0 or not (t[i - 1].isalnum() or t[i - 1] in "_.")):
            lit = mm.group(1).replace("_", "")
            if lit.endswith("."):
                lit += "0"
            if "e" in lit.lower():
                lit = repr(float(lit))
            out.append("lit(Ghost(%sreal))" % lit)
            i = mm.end()
            n += 1
            continue
        m2 = re.match(r"f32\b", t[i:i + 4])
        if m2 and (i == 0 or not (t[i - 1].isalnum() or t[i - 1] == "_")):
            out.append("R32")
            i += 3
            n += 1
            continue
        # skip identifiers whole so digits inside names are not treated as literals
        m3 = re.match(r"[A-Za-z_][A-Za-z0-9_]*", t[i:])
        if m3:
            out.append(m3.group(0))
            i += m3.end()
            continue
        # integer literal (possibly tuple index) - copy whole
        m4 = re.match(r"\d[\d_]*", t[i:])
        if m4:
            out.append(m4.group(0))
            i += m4.end()
            continue
        out.append(t[i])
        i += 1
    return "".join(out), n


def _unescape(lit):
    body = lit[1:-1]
    if "\\" in body:
        try:
            return bytes(body, "utf-8").decode("unicode_escape")
        except Exception:
            return None
    return body


def strlit_hints(lits):
    """proof text making the given string literals pairwise distinct for the solver:
    reveal each, state its length, and for equal-length pairs name a differing position"""
    out = []
    vals = []
    for l in lits:
        v = _unescape(l)
        out.append("reveal_strlit(%s);" % l)
        if v is not None:
            out.append("assert(%s@.len() == %d);" % (l, len(v)))
            vals.append((l, v))
    for i in range(len(vals)):
        for j in range(i + 1, len(vals)):
            (l1, v1), (l2, v2) = vals[i], vals[j]
            if len(v1) == len(v2) and v1 != v2:
                k = [n for n in range(len(v1)) if v1[n] != v2[n]][0]
                out.append("assert(%s@[%d] != %s@[%d]);" % (l1, k, l2, k))
    return " ".join(out)


INSPECT_RE = re.compile(r"\s*\.inspect_err\(\|_\|\s*\{\s*context\.pop_element\(\);\s*\}\)\?")


def rewrite_continue(text):
    """R-continue: Verus rejects `continue` inside a `for` loop. In `LOOPBODY { .. if C { S; continue; } REST }`
    where `continue;` is the LAST statement of an `if` block that is itself a statement of the loop
    body, `REST` runs exactly when the block was not taken:
        if C { S; continue; } REST              ==>  if C { S; } else { REST }
        if C { S; continue; } else if D { X } REST  ==>  if C { S; } else { if D { X } REST }
    Applied to every such `continue`; any other `continue` is left alone (and will be reported by Verus)."""
    n = 0
    pos = 0
    while True:
        src = rsitems.Src(text)
        m = None
        for mm in re.finditer(r"\bcontinue\s*;", text):
            if mm.start() >= pos and src.mask[mm.start()]:
                m = mm
                break
        if m is None:
            return text, n
        pos = m.start() + 1
        # the block that ends right after `continue;`
        j = m.end()
        while j < len(text) and (text[j].isspace() or not src.mask[j]):
            j += 1
        if j >= len(text) or text[j] != "}":
            continue
        close_if = j
        # opening brace of that block, and of the enclosing block (the loop body)
        depth, k, open_if = 0, m.start() - 1, None
        while k >= 0:
            if src.mask[k]:
                if text[k] in ")]}":
                    depth += 1
                elif text[k] in "([{":
                    if depth == 0:
                        open_if = k
                        break
                    depth -= 1
            k -= 1
        if open_if is None or text[open_if] != "{":
            continue
        depth, k, open_body = 0, open_if - 1, None
        while k >= 0:
            if src.mask[k]:
                if text[k] in ")]}":
                    depth += 1
                elif text[k] in "([{":
                    if depth == 0:
                        open_body = k
                        break
                    depth -= 1
            k -= 1
        if open_body is None or text[open_body] != "{":
            continue
        close_body = src.match_close(open_body)
        after = text[close_if + 1:close_body]
        mm2 = re.match(r"(\s*)else\b", after)
        if mm2:
            mid = after[:mm2.end()] + " {" + after[mm2.end():]
        else:
            mid = " else {" + after
        text = text[:m.start()] + text[m.end():close_if + 1] + mid + "}\n" + text[close_body:]
        n += 1
        pos = m.start()


def rewrite_inspect_err(text):
    """R-inspect-err: `EXPR.inspect_err(|_| { context.pop_element(); })?` ->
    `match EXPR { Ok(v_) => v_, Err(err_) => { context.pop_element(); return Err(err_); } }`
    (same control flow; Verus does not translate closures that capture `&mut context`)."""
    n = 0
    while True:
        src = rsitems.Src(text)
        mm = None
        for cand in INSPECT_RE.finditer(text):
            if src.mask[cand.start() + len(cand.group(0)) - len(cand.group(0).lstrip())]:
                mm = cand
                break
        if mm is None:
            return text, n
        # walk back to the start of the expression: after `= ` of a let/assignment or a statement boundary
        i = mm.start() - 1
        depth = 0
        start = 0
        while i >= 0:
            if src.mask[i]:
                c = text[i]
                if c == "}" and depth == 0:
                    start = i + 1      # a preceding block statement ends here
                    break
                if c in ")]}":
                    depth += 1
                elif c in "([{":
                    if depth == 0:
                        start = i + 1
                        break
                    depth -= 1
                elif depth == 0 and c == ";":
                    start = i + 1
                    break
                elif depth == 0 and c == "=" and text[i + 1] not in "=>" and text[i - 1] not in "=!<>+-*/":
                    start = i + 1
                    break
            i -= 1
        expr = text[start:mm.start()]
        lead = expr[:len(expr) - len(expr.lstrip())]
        text = (text[:start] + lead + "match " + expr.strip() +
                " { Ok(v_) => v_, Err(err_) => { context.pop_element(); return Err(err_); } }" + text[mm.end():])
        n += 1


STRLIT_RE = r'"(?:[^"\\\\]|\\\\.)*"'


def _parse_str_arms(src, text, ob, cb):
    """arms of `match .. { .. }` between ob and cb; returns list of (lits|None, binding|None, body)
    or None if some arm is not a plain string-literal / `_` / identifier pattern"""
    arms = []
    i = ob + 1
    while True:
        i = rsitems.skip_ws_comments(src, i, cb)
        if i >= cb:
            break
        arrow = None
        j = i
        while j < cb:
            if src.mask[j]:
                if text[j] in "([{":
                    j = src.match_close(j)
                elif text.startswith("=>", j):
                    arrow = j
                    break
            j += 1
        if arrow is None:
            return None
        pat = text[i:arrow].strip()
        k = rsitems.skip_ws_comments(src, arrow + 2, cb)
        if text[k] == "{":
            e = src.match_close(k)
            body = text[k:e + 1]
            nxt = rsitems.skip_ws_comments(src, e + 1, cb)
            if nxt < cb and text[nxt] == ",":
                nxt += 1
        else:
            e = src.next_code(k, ",", cb)
            if e < 0:
                e = cb
            body = "{ " + text[k:e].strip() + " }"
            nxt = e + 1 if e < cb else cb
        # strip comments inside the pattern
        pat = " ".join(l.split("//")[0] for l in pat.split("\n")).strip()
        if re.fullmatch(r"\|?\s*%s(\s*\|\s*%s)*" % (STRLIT_RE, STRLIT_RE), pat):
            arms.append((re.findall(STRLIT_RE, pat), None, body))
        elif re.fullmatch(r"\|?\s*Some\(%s\)(\s*\|\s*Some\(%s\))*" % (STRLIT_RE, STRLIT_RE), pat):
            arms.append((["Some:" + l for l in re.findall(STRLIT_RE, pat)], None, body))
        elif pat == "_":
            arms.append((None, None, body))
        elif re.fullmatch(r"[a-z_][a-z0-9_]*", pat):
            arms.append((None, pat, body))
        else:
            return None
        i = nxt
    return arms


def rewrite_strmatch(text):
    """R-strmatch: `match E { "a" | "b" => X, .. , _ => Z }` over string literals becomes
    `{ let m_ = E; if m_ == "a" || m_ == "b" X else .. else Z }` and `matches!(E, "a" | "b")` becomes
    `{ let m_ = E; m_ == "a" || m_ == "b" }`. Same semantics (first matching arm, literals compared
    by string equality); needed because Verus gives string-literal patterns no meaning."""
    n = 0
    pos = 0
    # `E != "lit"`: PartialEq::ne is a provided method Verus cannot be given a spec for; rewrite to `!(E == "lit")`
    def _ne(mm):
        return "!(%s == %s)" % (mm.group(1), mm.group(2))
    src0 = rsitems.Src(text)
    pieces, last = [], 0
    for mm in re.finditer(r"([A-Za-z_][\w\.]*(?:\(\))?)\s*!=\s*(%s)" % STRLIT_RE, text):
        if src0.mask[mm.start()]:
            pieces.append(text[last:mm.start()] + _ne(mm))
            last = mm.end()
            n += 1
    text = "".join(pieces) + text[last:]
    while True:
        src = rsitems.Src(text)
        found = None
        for w, p in src.words(pos, len(text)):
            if w == "match" or w == "matches!":
                found = (w, p)
                # try this occurrence
                if w == "matches!":
                    op = rsitems.skip_ws_comments(src, p + len(w), len(text))
                    if text[op] != "(":
                        continue
                    cp = src.match_close(op)
                    comma = src.next_code(op + 1, ",", cp)
                    if comma < 0:
                        continue
                    pat = " ".join(l.split("//")[0] for l in text[comma + 1:cp].split("\n")).strip()
                    if not re.fullmatch(r"\|?\s*%s(\s*\|\s*%s)*" % (STRLIT_RE, STRLIT_RE), pat):
                        continue
                    lits = re.findall(STRLIT_RE, pat)
                    expr = text[op + 1:comma].strip()
                    if re.fullmatch(r"[A-Za-z_][\w]*(\.[A-Za-z_0-9]+(\(\))?)*", expr):
                        new = "(%s)" % " || ".join("%s == %s" % (expr, l) for l in lits)
                    else:
                        new = "{ let m_ = %s; %s }" % (expr, " || ".join("m_ == %s" % l for l in lits))
                    text = text[:p] + new + text[cp + 1:]
                    n += 1
                    pos = p + 1
                    break
                else:
                    ob = src.next_code(p + 5, "{", len(text))
                    if ob < 0:
                        continue
                    cb = src.match_close(ob)
                    arms = _parse_str_arms(src, text, ob, cb)
                    if not arms or not any(a[0] for a in arms):
                        continue
                    expr = text[p + 5:ob].strip()
                    parts = []
                    closed = False
                    # a plain field/method path is repeated instead of bound: a `let m_ = &..` borrow of
                    # the scrutinee would stay alive across arms that mutate the same object
                    simple = re.fullmatch(r"[A-Za-z_][\w]*(\.[A-Za-z_0-9]+(\(\))?)*", expr) is not None
                    sc = expr if simple else "m_"
                    if any(l.startswith("Some:") for a in arms if a[0] for l in a[0]):
                        simple, sc = False, "m_"      # Option<&str> scrutinee: bind it, compare with opt_str_is
                    for lits, bind, body in arms:
                        if lits:
                            parts.append("if %s %s" % (" || ".join(("opt_str_is(%s, %s)" % (sc, l[5:])) if l.startswith("Some:") else ("%s == %s" % (sc, l)) for l in lits), body))
                        elif bind:
                            parts.append("{ let %s = %s; %s }" % (bind, sc, body))
                            closed = True
                            break
                        else:
                            parts.append(body)
                            closed = True
                            break
                    if not closed:
                        continue      # non-exhaustive over strings cannot happen in Rust; be safe
                    new = ("{ %s }" % " else ".join(parts)) if simple else ("{ let m_ = %s; %s }" % (expr, " else ".join(parts)))
                    text = text[:p] + new + text[cb + 1:]
                    n += 1
                    pos = p + 1
                    break
        else:
            return text, n


def strip_inner_attrs(text):
    """drop `#[...]` attributes inside a struct/enum body (field/variant attributes)"""
    src = rsitems.Src(text)
    out = []
    i = 0
    while i < len(text):
        if src.mask[i] and text[i] == "#" and i + 1 < len(text) and text[i + 1] == "[":
            k = src.match_close(i + 1)
            i = k + 1
            continue
        out.append(text[i])
        i += 1
    return "".join(out)


def widen_vis(text, kind, in_trait):
    """R-vis: make the item and (for structs) all its fields `pub`. Visibility has no run-time
    meaning; Verus needs it because contracts of pub functions may not mention private fields."""
    src = rsitems.Src(text)
    if in_trait:
        return text
    mm = re.match(r"\s*pub(\s*\([^)]*\))?\s+", text)
    if mm:
        text = "pub " + text[mm.end():]
    else:
        text = "pub " + text.lstrip()
    if kind != "struct":
        return text
    src = rsitems.Src(text)
    ob = src.next_code(0, "{(;")
    if ob < 0 or text[ob] == ";":
        return text
    cb = src.match_close(ob)
    # split fields at top-level commas
    out = [text[:ob + 1]]
    i = ob + 1
    while i < cb:
        j = src.next_code(i, ",", cb)
        if j < 0:
            j = cb
        seg = text[i:j]
        # position of first code char in seg
        k = rsitems.skip_ws_comments(src, i, j)
        if k < j:
            head = text[i:k]
            body = text[k:j]
            m2 = re.match(r"pub(\s*\([^)]*\))?\s+", body)
            if m2:
                body = "pub " + body[m2.end():]
            else:
                body = "pub " + body
            seg = head + body
        out.append(seg)
        if j < cb:
            out.append(",")
        i = j + 1
    out.append(text[cb:])
    return "".join(out)


def strip_attrs(attrs, keep_derive):
    out = []
    for a in attrs:
        body = a.strip()
        if body.startswith("#[derive"):
            names = [x.strip() for x in body[body.index("(") + 1: body.rindex(")")].split(",")]
            kept = [x for x in names if x in keep_derive]
            if kept:
                out.append("#[derive(%s)]" % ", ".join(kept))
        # all other attributes (doc, allow, clap, cfg_attr, inline...) are dropped
    return out


# ---------------------------------------------------------------------------------------------

class Woven:
    def __init__(self):
        self.lines = []          # generated text lines
        self.items = []          # dicts
        self.clauses = []        # dicts: line_start,line_end,labels,kind,fn,item_index,text
        self.rewrites = []       # dicts
        self.unit = None
        self.props = []
        self.preludes = []
        self.probes = []
        self.assumes = []
        self.expects = []
        self.hint_probes = []
        self.twin = False
        self.flags = {}
        self.inline_buf = []

    def add(self, text):
        for ln in text.split("\n"):
            self.lines.append(ln)

    def cur_line(self):
        return len(self.lines) + 1


def _emit_sections(w, sections, fn_label, item_index, indent, twin_false=None, loop_n=None):
    for kind, clauses in sections:
        if not clauses:
            continue
        w.add("%s%s" % (indent, kind))
        for c in clauses:
            ls = w.cur_line()
            ctext = c.text
            lab = " ".join("@" + x for x in c.labels)
            parts = ctext.split("\n")
            for k, p in enumerate(parts):
                last = k == len(parts) - 1
                w.add("%s    %s%s" % (indent, p, ("," + (" // " + lab if lab else "")) if last else ""))
            w.clauses.append({"line_start": ls, "line_end": w.cur_line() - 1, "labels": list(c.labels),
                              "kind": kind if loop_n is None else "loop%d.%s" % (loop_n, kind),
                              "fn": fn_label, "item": item_index, "text": " ".join(ctext.split())})


def weave_fn(w, spec, text, fn_label, item_index, twin):
    parts = rsitems.fn_parts(text)
    src = parts["src"]
    body_open = parts["body_open"]
    if spec.external_body and body_open is None:
        raise WeaveError("external_body on a declaration without body: %s" % fn_label)
    # --- loops, inserts: compute edit list on the body (positions in `text`)
    edits = []  # (pos, insert_text_or_marker)
    loop_marks = {}
    if spec.loops:
        if body_open is None:
            raise WeaveError("loop annotation on bodiless fn %s" % fn_label)
        loops = rsitems.loops_in(src, body_open, len(text))
        for ls in list(spec.loops):
            if getattr(ls, "optional", False) and (ls.n < 1 or ls.n > len(loops)):
                spec.loops.remove(ls)
                continue
            if ls.n < 1 or ls.n > len(loops):
                raise WeaveError("%s: loop %d not found (%d loops)" % (fn_label, ls.n, len(loops)))
            kw, p, b = loops[ls.n - 1]
            if ls.iter:
                if kw != "for":
                    raise WeaveError("%s: iter on non-for loop %d" % (fn_label, ls.n))
                mm = re.compile(r"\bin\b").search(text, p, b)
                # first ` in ` at depth 0 after the pattern
                q = p + 3
                found = None
                while q < b:
                    if src.mask[q]:
                        if text[q] in "([{":
                            q = src.match_close(q)
                        elif re.match(r"in\b", text[q:]) and not (text[q - 1].isalnum() or text[q - 1] == "_"):
                            found = q
                            break
                    q += 1
                if found is None:
                    raise WeaveError("%s: no `in` in for loop %d" % (fn_label, ls.n))
                edits.append((found + 2, " %s:" % ls.iter))
            loop_marks[b] = ls
            edits.append((b, ("LOOP", ls)))
            if ls.body_hint:
                edits.append((b + 1, "\n" + "\n".join(ls.body_hint) + "\n"))
    for where, anchor, raw in spec.inserts:
        if body_open is None:
            raise WeaveError("insert on bodiless fn %s" % fn_label)
        cnt = text.count(anchor, body_open)
        nth = None
        optional = "?" in where          # `before? <<<anchor>>>`: a proof hint that goes away with its anchor
        where = where.replace("?", "")
        if optional and cnt == 0:
            continue
        if "#" in where:
            where, nth = where.split("#")
            nth = int(nth)
        if nth is None and cnt != 1:
            raise WeaveError("%s: anchor %r matched %d times" % (fn_label, anchor, cnt))
        if nth is not None and optional and not (1 <= nth <= cnt):
            continue      # `before?#n`: the n-th occurrence went away with its anchor
        if nth is not None and not (1 <= nth <= cnt):
            raise WeaveError("%s: anchor %r occurrence %d of %d not found" % (fn_label, anchor, nth, cnt))
        p = body_open
        for _ in range(nth or 1):
            p = text.index(anchor, p + 1)
        if where == "after":
            p += len(anchor)
        edits.append((p, "\n" + "\n".join(raw) + "\n"))
    # --- header
    sig_end = parts["sig_end"]
    header = text[:sig_end]
    if parts["ret"] is not None:
        rs, re_ = parts["ret"]
        rtype = text[rs + 2:re_].strip()
        tail = text[re_:sig_end]
        header = text[:rs] + "-> (%s: %s)" % (spec.ret, rtype) + ((" " + tail.strip()) if tail.strip() else "")
    header = header.rstrip()
    if spec.external_body:
        w.add("#[verifier::external_body]")
    for a in spec.extra_attrs:
        w.add(a)
    hl = w.cur_line()
    w.add(header)
    sections = [(k, list(c)) for k, c in spec.sections]
    if twin and body_open is not None and not spec.external_body:
        # a fresh uninterpreted predicate per function: provable only if the function's
        # preconditions / assumed callee contracts are contradictory; callers learn nothing from it
        probe = "vacuity_probe_%d()" % item_index
        w.probes.append("pub uninterp spec fn %s -> bool;" % probe)
        for k, c in sections:
            if k == "ensures":
                c.append(Clause("ensures", probe, ["VACUITY"]))
                break
        else:
            # ensures must come before decreases
            idx = len(sections)
            for n_, (k, c) in enumerate(sections):
                if k in ("decreases", "no_unwind"):
                    idx = n_
                    break
            sections.insert(idx, ("ensures", [Clause("ensures", probe, ["VACUITY"])]))
    _emit_sections(w, sections, fn_label, item_index, "    ")
    if body_open is None:
        w.add(";")
        return hl
    if spec.external_body:
        w.add("{ unimplemented!() }")
        return hl
    if spec.body_hint and body_open is not None and not spec.external_body:
        edits.append((body_open + 1, "\n" + "\n".join(spec.body_hint) + "\n"))
    # --- string literal distinctness hints (proof only, no assumption): reveal every literal
    # that occurs in the body or the contract at the start of the body
    if w.flags.get("strlit"):
        lits = list(spec.extra_lits)
        for mm in re.finditer(r'(?<![A-Za-z0-9_])"((?:[^"\\\n]|\\.)*)"', text[body_open:] + "\n" + "\n".join(c.text for _, cl in sections for c in cl)):
            if mm.group(0) not in lits:
                lits.append(mm.group(0))
        if lits:
            edits.append((body_open + 1, "\n        proof { %s }\n" % strlit_hints(lits)))
    # --- body with edits
    edits.sort(key=lambda e: e[0])
    pos = body_open
    for p, ins in edits:
        if p < pos:
            raise WeaveError("%s: overlapping edits" % fn_label)
        w_text = text[pos:p]
        _add_inline(w, w_text)
        if isinstance(ins, tuple):
            ls = ins[1]
            _flush_inline(w)
            _emit_sections(w, ls.sections, fn_label, item_index, "        ", loop_n=ls.n)
        else:
            _add_inline(w, ins)
        pos = p
    _add_inline(w, text[pos:])
    _flush_inline(w)
    return hl




def _add_inline(w, s):
    w.inline_buf.append(s)


def _flush_inline(w):
    s = "".join(w.inline_buf)
    del w.inline_buf[:]
    if s == "":
        return
    if s.endswith("\n"):
        s = s[:-1]
    out_lines = []
    for ln in s.split("\n"):
        mm = re.search(r"//.*?((?:@C\d+\.[A-Za-z0-9_.\-]+\s*)+)$", ln)     # (the comment may contain '/')
        if mm and ln.split("//")[0].strip():
            code = ln.split("//")[0].strip()
            ante = _hint_antecedent(code)
            if getattr(w, "twin", False) and ante is not None:
                # vacuity twin: the hint's antecedent must be SATISFIABLE where the hint stands (an `assert(A ==> B)` that an
                # edit moved into a branch where A never holds proves nothing): `assert(!(fresh && A))` has to fail here (what
                # Verus assumes after the failure, `fresh ==> !A`, constrains nothing: `fresh` is a new uninterpreted constant).
                k_ = len(w.hint_probes)
                w.probes.append("pub uninterp spec fn vacuity_hint_branch_%d() -> bool;" % k_)
                w.clauses.append({"line_start": w.cur_line() + len(out_lines), "line_end": w.cur_line() + len(out_lines),
                                  "labels": ["HINTVAC", "HINTVAC#%d" % k_], "kind": "hint", "fn": None, "item": None, "text": code})
                w.hint_probes.append({"n": k_, "text": code, "labels": re.findall(r"@(C\d+\.[A-Za-z0-9_.\-]+)", mm.group(1))})
                out_lines.append("assert(!(vacuity_hint_branch_%d() && (%s)));" % (k_, ante))
            # labelled proof hint inserted into a function body: a failing assert / lemma call on
            # this line is reported under the label
            w.clauses.append({"line_start": w.cur_line() + len(out_lines), "line_end": w.cur_line() + len(out_lines),
                              "labels": re.findall(r"@(C\d+\.[A-Za-z0-9_.\-]+)", mm.group(1)),
                              "kind": "hint", "fn": None, "item": None, "text": " ".join(ln.split("//")[0].split())})
        out_lines.append(ln)
    w.add("\n".join(out_lines))


def _hint_antecedent(code):
    """`assert(A ==> B);` -> A; `assert(B);` -> `true` (the point itself must be reachable); anything else -> None"""
    mm = re.match(r"assert\((.*)\);$", code, re.S)
    if not mm:
        return None
    e = mm.group(1)
    depth = 0
    i = 0
    while i < len(e):
        c = e[i]
        if c in "([{":
            depth += 1
        elif c in ")]}":
            depth -= 1
        elif depth == 0 and e.startswith("==>", i) and not e.startswith("<==>", i - 1):
            return e[:i].strip()
        i += 1
    return "true"


def expand(unit_path, twin=False, repo=None):
    repo = repo or REPO
    w = Woven()
    w.twin = twin
    lines = open(unit_path).read().split("\n")
    flags = {"f32": False, "fmt": False, "strlit": False, "inspect_err": False, "strmatch": False, "plain": False, "continue": False}
    w.flags = flags
    src_cache = {}
    i = 0
    while i < len(lines):
        ln = lines[i]
        s = ln.lstrip()
        if not s.startswith("//@"):
            mm = re.search(r"//.*?((?:@C\d+\.[A-Za-z0-9_.\-]+\s*)+)$", ln)
            if mm:
                # labelled line in hand-written text (typically a lemma precondition that carries
                # a property-level fact): a failure pointing at it is reported under this label
                w.clauses.append({"line_start": w.cur_line(), "line_end": w.cur_line(),
                                  "labels": re.findall(r"@(C\d+\.[A-Za-z0-9_.\-]+)", mm.group(1)),
                                  "kind": "hint", "fn": None, "item": None, "text": " ".join(ln.split("//")[0].split())})
            w.add(ln)
            i += 1
            continue
        d = s[3:].strip()
        if d.startswith("unit "):
            w.unit = d.split()[1]
            i += 1
        elif d.startswith("assume "):
            w.assumes.append(d[7:])
            i += 1
        elif d.startswith("props"):
            w.props = d.split()[1:]
            i += 1
        elif d.startswith("prelude"):
            groups = []
            for name in d.split()[1:]:
                p = os.path.join(HERE, "prelude", name + ".rs")
                w.preludes.append(name)
                ptxt = open(p).read().rstrip("\n")
                groups += re.findall(r"^// BROADCAST: (\S+)", ptxt, re.M)
                w.add("// ---- prelude %s ----" % name)
                w.add(ptxt)
                w.add("// ---- end prelude %s ----" % name)
            if groups:
                # Verus allows one module-level `broadcast use` per module
                w.add("broadcast use %s;" % ", ".join(groups))
            i += 1
        elif d.startswith("rewrite "):
            for f in d.split()[1:]:
                if f.startswith("-"):
                    flags[f[1:]] = False
                else:
                    flags[f] = True
            i += 1
        elif d.startswith("expect "):
            # //@expect FILE :: path <<<body text>>>: the function's body must be exactly this text
            # (whitespace-normalised); justifies an R-inline rewrite elsewhere. Emits nothing.
            mm = re.match(r"expect (.*?)<<<(.*)>>>$", d, re.S)
            if not mm:
                raise WeaveError("bad expect at %s:%d" % (unit_path, i + 1))
            segs = mm.group(1).split("::")
            file = segs[0].strip()
            path = [x.strip() for x in segs[1:]]
            fpath = os.path.join(repo, file)
            if fpath not in src_cache:
                if not os.path.exists(fpath):
                    raise WeaveError("source file missing: %s" % file)
                src_cache[fpath] = rsitems.Src(open(fpath).read())
            src = src_cache[fpath]
            try:
                it = rsitems.locate(src, path)
            except (LookupError, rsitems.ScanError) as e:
                raise WeaveError("cannot locate %s :: %s (%s)" % (file, " :: ".join(path), e))
            if it.body_open is None:
                raise WeaveError("expect: %s has no body" % " :: ".join(path))
            body = " ".join(src.text[it.body_open + 1:it.end - 1].split())
            if body != " ".join(mm.group(2).split()):
                raise WeaveError("expect: body of %s :: %s is `%s`, expected `%s` (an R-inline rewrite relies on it)"
                                 % (file, " :: ".join(path), body[:80], mm.group(2)[:80]))
            w.expects.append({"file": file, "path": " :: ".join(path), "body": body})
            i += 1
        elif d.startswith("item "):
            mm = d[5:].split("::")
            file = mm[0].strip()
            path = [x.strip() for x in mm[1:]]
            spec, i = parse_item_block(lines, i, file, path)
            fpath = os.path.join(repo, file)
            if fpath not in src_cache:
                if not os.path.exists(fpath):
                    raise WeaveError("source file missing: %s" % file)
                src_cache[fpath] = rsitems.Src(open(fpath).read())
            src = src_cache[fpath]
            try:
                it = rsitems.locate(src, path)
            except (LookupError, rsitems.ScanError) as e:
                raise WeaveError("cannot locate %s :: %s (%s)" % (file, " :: ".join(path), e))
            raw = src.text[it.start:it.end]
            sha = hashlib.sha256(raw.encode()).hexdigest()
            text = raw
            applied = []
            frag_name = None
            if spec.fragment:
                # R-fragment: a contiguous piece of the function body becomes a function of its own;
                # its free variables are the parameters given in the head text
                fr = spec.fragment
                for k in ("from", "to", "head", "tail", "name"):
                    if k not in fr:
                        raise WeaveError("fragment of %s :: %s lacks fragment-%s" % (file, " :: ".join(path), k))
                if raw.count(fr["from"]) != 1:
                    raise WeaveError("fragment-from %r matched %d times in %s" % (fr["from"], raw.count(fr["from"]), " :: ".join(path)))
                p0 = raw.index(fr["from"])
                p1 = raw.find(fr["to"], p0 + len(fr["from"]))
                if p1 < 0:
                    raise WeaveError("fragment-to %r not found in %s" % (fr["to"], " :: ".join(path)))
                piece = raw[p0:p1 + len(fr["to"])]
                if fr.get("inner"):
                    piece = raw[p0 + len(fr["from"]):p1]
                text = fr["head"] + "\n" + piece + "\n" + fr["tail"]
                frag_name = fr["name"]
                applied.append({"rule": "R-fragment", "old": fr["from"][:60] + " .. " + fr["to"][:60], "new": fr["head"][:120], "count": 1,
                                "piece_sha256": hashlib.sha256(piece.encode()).hexdigest(), "piece_lines": piece.count("\n") + 1})
            for rule, old, new, all_ in spec.replaces:
                if all_ in ("cut", "cut?"):
                    a_, b_ = old[0].replace("\\n", "\n"), old[1].replace("\\n", "\n")
                    if all_ == "cut?" and text.count(a_) == 0:
                        continue
                    if text.count(a_) != 1:
                        raise WeaveError("%s :: %s: cut[%s] start %r matched %d times" % (file, " :: ".join(path), rule, old[0], text.count(a_)))
                    p0 = text.index(a_)
                    p1 = text.find(b_, p0 + len(a_))
                    if p1 < 0:
                        raise WeaveError("%s :: %s: cut[%s] end %r not found" % (file, " :: ".join(path), rule, old[1]))
                    removed = text[p0:p1 + len(b_)]
                    text = text[:p0] + new.replace("\\n", "\n") + text[p1 + len(b_):]
                    applied.append({"rule": rule, "old": old[0] + " .. " + old[1], "new": new, "count": 1,
                                    "removed_sha256": hashlib.sha256(removed.encode()).hexdigest(), "removed_lines": removed.count("\n") + 1})
                    continue
                if all_ == "-re":
                    # pattern with captures (\\1 ...): the captured source text is carried over verbatim
                    text, cnt = re.subn(old, new, text)
                    if cnt < 1:
                        raise WeaveError("%s :: %s: replace-re[%s] %r matched %d times" % (file, " :: ".join(path), rule, old, cnt))
                    applied.append({"rule": rule, "old": old, "new": new, "count": cnt})
                    continue
                old_ = old.replace("\\n", "\n")
                new_ = new.replace("\\n", "\n")
                cnt = text.count(old_)
                if cnt == 0 and all_ == "?":
                    continue      # optional purely syntactic rewrite: nothing to do
                if cnt == 0 or (cnt != 1 and all_ != "-all"):
                    raise WeaveError("%s :: %s: replace[%s] %r matched %d times" % (file, " :: ".join(path), rule, old, cnt))
                text = text.replace(old_, new_)
                applied.append({"rule": rule, "old": old, "new": new, "count": cnt})
            if flags.get("continue") and it.kind == "fn":
                text, nrw = rewrite_continue(text)
                if nrw:
                    applied.append({"rule": "R-continue", "count": nrw})
            if flags.get("inspect_err") and it.kind == "fn":
                text, nrw = rewrite_inspect_err(text)
                if nrw:
                    applied.append({"rule": "R-inspect-err", "count": nrw})
            if flags.get("strmatch") and it.kind == "fn":
                text, nrw = rewrite_strmatch(text)
                if nrw:
                    applied.append({"rule": "R-strmatch", "count": nrw})
            if flags["f32"]:
                text, nrw = rewrite_f32(text)
                if nrw:
                    applied.append({"rule": "R-f32", "count": nrw})
            in_trait = len(path) > 1 and (path[-2].startswith("trait ") or (path[-2].startswith("impl ") and " for " in path[-2]))
            if it.kind in ("fn", "struct", "enum", "type", "const", "trait"):
                text = widen_vis(text, it.kind, in_trait)
            fn_label = _fn_label(path)
            if frag_name:
                fn_label = fn_label + "#" + frag_name
            item_index = len(w.items)
            start_line = w.cur_line()
            if it.kind == "fn" and flags.get("plain"):
                # K-units: plain Rust for Kani - the item text as extracted (after the listed
                # rewrites), preceded by the attribute lines of the template
                if spec.sections or spec.loops:
                    raise WeaveError("verus contract sections in a plain unit: %s" % fn_label)
                for a in spec.extra_attrs:
                    w.add(a)
                w.add(text)
            elif it.kind == "fn":
                weave_fn(w, spec, text, fn_label, item_index, twin)
            else:
                if spec.sections or spec.loops:
                    raise WeaveError("contract on non-fn item %s" % fn_label)
                for a in strip_attrs(it.attrs, spec.keep_derive):
                    w.add(a)
                for a in spec.extra_attrs:
                    w.add(a)
                if spec.external_body:
                    w.add("#[verifier::external_body]")
                if it.kind in ("struct", "enum"):
                    text = strip_inner_attrs(text)
                w.add(text)
            w.items.append({"file": file, "path": " :: ".join(path), "fn": fn_label, "kind": it.kind,
                            "sha256": sha, "line_start": start_line, "line_end": w.cur_line() - 1,
                            "implicit": spec.implicit, "external_body": spec.external_body,
                            "src_line": src.text.count("\n", 0, it.start) + 1,
                            "has_body": it.kind == "fn" and it.body_open is not None and not spec.external_body,
                            "has_contract": bool(spec.sections or spec.loops)})
            for a in applied:
                a2 = dict(a)
                a2["fn"] = fn_label
                w.rewrites.append(a2)
        else:
            raise WeaveError("unknown directive at %s:%d: %s" % (unit_path, i + 1, d))
    if w.probes:
        idx = max(k for k, ln in enumerate(w.lines) if ln.strip().startswith("} // verus!"))
        w.lines[idx:idx] = w.probes
    return w


def _fn_label(path):
    last = path[-1].split(" ", 1)[1]
    if len(path) > 1:
        hdr = path[-2].split(" ", 1)[1]
        return "%s::%s" % (hdr.replace(" ", "_"), last)
    return last


if __name__ == "__main__":
    import json
    w = expand(sys.argv[1], twin="--twin" in sys.argv)
    sys.stdout.write("\n".join(w.lines) + "\n")
    sys.stderr.write(json.dumps({"items": w.items, "clauses": w.clauses, "rewrites": w.rewrites}, indent=1))
