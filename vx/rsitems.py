"""Brace/paren/string/comment-aware scanner for Rust source text.

No regexes over bodies: the scanner classifies every byte as code / comment / string and
tracks bracket depth, which is all the extractor and weaver need (item boundaries, function
signature parts, loop headers, statement anchors).
"""
import re

KW_BRACE = {"fn", "struct", "enum", "union", "impl", "trait", "mod", "macro_rules"}
KW_SEMI = {"use", "const", "static", "type", "extern"}
QUALIFIERS = {"pub", "unsafe", "async", "default", "const", "extern"}


class ScanError(Exception):
    pass


def code_mask(text):
    """Return a bytearray m with m[i]=1 for code, 0 for comment/string/char-literal content.
    Delimiters of strings count as non-code too."""
    n = len(text)
    m = bytearray(b"\x01") * n
    i = 0
    while i < n:
        c = text[i]
        if c == "/" and i + 1 < n and text[i + 1] == "/":
            j = text.find("\n", i)
            if j < 0:
                j = n
            for k in range(i, j):
                m[k] = 0
            i = j
        elif c == "/" and i + 1 < n and text[i + 1] == "*":
            depth = 1
            j = i + 2
            while j < n and depth:
                if text.startswith("/*", j):
                    depth += 1
                    j += 2
                elif text.startswith("*/", j):
                    depth -= 1
                    j += 2
                else:
                    j += 1
            for k in range(i, j):
                m[k] = 0
            i = j
        elif c == '"' or (c in "rb" and _raw_or_byte_string_start(text, i)):
            j = _string_end(text, i)
            for k in range(i, j):
                m[k] = 0
            i = j
        elif c == "'":
            j = _char_or_lifetime_end(text, i)
            if j is not None:
                for k in range(i, j):
                    m[k] = 0
                i = j
            else:
                i += 1
        else:
            i += 1
    return m


def _raw_or_byte_string_start(text, i):
    # r"..", r#".."#, b"..", br"..", b'.' handled separately
    if i > 0 and (text[i - 1].isalnum() or text[i - 1] == "_"):
        return False
    mm = re.match(r'(br|rb|b|r)(#*)"', text[i:i + 40])
    if not mm:
        return False
    if mm.group(2) and "r" not in mm.group(1):
        return False
    return True


def _string_end(text, i):
    n = len(text)
    mm = re.match(r'(br|rb|b|r)?(#*)"', text[i:i + 40])
    prefix, hashes = mm.group(1) or "", mm.group(2)
    j = i + mm.end()
    if "r" in prefix:
        close = '"' + hashes
        k = text.find(close, j)
        if k < 0:
            raise ScanError("unterminated raw string")
        return k + len(close)
    while j < n:
        if text[j] == "\\":
            j += 2
        elif text[j] == '"':
            return j + 1
        else:
            j += 1
    raise ScanError("unterminated string")


def _char_or_lifetime_end(text, i):
    # 'a' '\n' '\u{1F600}' are char literals; 'a (no closing quote right after) is a lifetime
    n = len(text)
    if i + 1 >= n:
        return None
    if text[i + 1] == "\\":
        j = i + 2
        while j < n and text[j] != "'":
            j += 1
        return j + 1
    if i + 2 < n and text[i + 2] == "'":
        return i + 3
    return None


class Src:
    def __init__(self, text):
        self.text = text
        self.mask = code_mask(text)

    def is_code(self, i):
        return self.mask[i] == 1

    def match_close(self, i):
        """i is at an opening bracket in code; return index of its matching closer."""
        t = self.text
        pairs = {"(": ")", "[": "]", "{": "}"}
        stack = [pairs[t[i]]]
        j = i + 1
        n = len(t)
        while j < n:
            if self.mask[j]:
                c = t[j]
                if c in "([{":
                    stack.append(pairs[c])
                elif c in ")]}":
                    if c != stack[-1]:
                        raise ScanError("bracket mismatch at %d" % j)
                    stack.pop()
                    if not stack:
                        return j
            j += 1
        raise ScanError("unclosed bracket at %d" % i)

    def next_code(self, i, chars, stop=None):
        """index of the first code char in `chars` at bracket depth 0 from i (skipping nested
        brackets), or -1."""
        t = self.text
        n = stop if stop is not None else len(t)
        j = i
        while j < n:
            if self.mask[j]:
                c = t[j]
                if c in chars:
                    return j
                if c in "([{":
                    j = self.match_close(j)
                elif c in ")]}":
                    return -1
            j += 1
        return -1

    def words(self, start, end):
        """yield (word, pos) for identifier-like tokens in code between start and end, depth-unaware"""
        for mm in re.finditer(r"[A-Za-z_][A-Za-z0-9_]*!?", self.text[start:end]):
            p = start + mm.start()
            if self.mask[p]:
                yield mm.group(0), p


def skip_ws_comments(src, i, end):
    t = src.text
    while i < end:
        if t[i].isspace():
            i += 1
        elif not src.mask[i] and (t.startswith("//", i) or t.startswith("/*", i)):
            # skip the whole comment
            while i < end and not src.mask[i]:
                i += 1
        else:
            break
    return i


class Item:
    __slots__ = ("kind", "name", "header", "start", "decl_start", "end", "body_open", "attrs")

    def __repr__(self):
        return "Item(%s %s @%d-%d)" % (self.kind, self.name or self.header, self.start, self.end)


def items_in(src, start, end):
    """Enumerate items directly inside [start, end) (a file, or the inside of an impl/trait/mod
    block). `start` of an item excludes its attributes and doc comments; `attrs` holds the
    attribute texts."""
    t = src.text
    out = []
    i = start
    while True:
        i = skip_ws_comments(src, i, end)
        if i >= end:
            break
        attrs = []
        # attributes
        while i < end and t[i] == "#" and src.mask[i]:
            j = i + 1
            if t[j] == "!":
                j += 1
            if t[j] != "[":
                raise ScanError("odd attribute at %d" % i)
            k = src.match_close(j)
            attrs.append(t[i:k + 1])
            i = skip_ws_comments(src, k + 1, end)
        if i >= end:
            break
        decl_start = i
        # qualifiers
        j = i
        kind = None
        name = None
        while True:
            j = skip_ws_comments(src, j, end)
            mm = re.match(r"[A-Za-z_][A-Za-z0-9_]*!?", t[j:end])
            if not mm:
                raise ScanError("cannot parse item at %d: %r" % (j, t[j:j + 40]))
            w = mm.group(0)
            if w == "pub":
                j += 3
                j2 = skip_ws_comments(src, j, end)
                if j2 < end and t[j2] == "(":
                    j = src.match_close(j2) + 1
                continue
            if w == "extern":
                j += len(w)
                j2 = skip_ws_comments(src, j, end)
                if j2 < end and t[j2] == '"':
                    j = _string_end(t, j2)
                    continue
                if re.match(r"crate\b", t[j2:end]):
                    kind = "extern"
                    break
                continue
            if w == "const":
                j2 = skip_ws_comments(src, j + 5, end)
                if re.match(r"(fn|unsafe|async|extern)\b", t[j2:end]):
                    j = j2
                    continue
                kind = "const"
                j = j2
                break
            if w in ("unsafe", "async", "default"):
                j += len(w)
                continue
            if w == "macro_rules!":
                kind = "macro_rules"
                j += len(w)
                break
            kind = w
            j += len(w)
            break
        j = skip_ws_comments(src, j, end)
        it = Item()
        it.kind = kind
        it.attrs = attrs
        it.start = decl_start
        it.decl_start = decl_start
        it.body_open = None
        it.header = None
        mm = re.match(r"[A-Za-z_][A-Za-z0-9_]*", t[j:end])
        it.name = mm.group(0) if mm else None
        if kind in KW_BRACE:
            semi = src.next_code(j, ";{", end)
            if semi < 0:
                raise ScanError("no end for item at %d" % decl_start)
            if t[semi] == ";":
                it.end = semi + 1
            else:
                close = src.match_close(semi)
                it.body_open = semi
                it.end = close + 1
                # tuple struct / unit struct ends with ';' handled above
            if kind in ("impl", "trait"):
                hdr_end = it.body_open if it.body_open is not None else it.end - 1
                it.header = " ".join(t[j:hdr_end].split())
                if kind == "impl":
                    it.name = None
        elif kind in KW_SEMI or kind == "let":
            semi = src.next_code(j, ";", end)
            if semi < 0:
                raise ScanError("no ';' for item at %d" % decl_start)
            it.end = semi + 1
        else:
            # macro invocation item, e.g. thread_local! { .. } or lazy_static!
            semi = src.next_code(j, ";{", end)
            if semi < 0:
                raise ScanError("unknown item kind %r at %d" % (kind, decl_start))
            if t[semi] == "{":
                it.end = src.match_close(semi) + 1
            else:
                it.end = semi + 1
        out.append(it)
        i = it.end
    return out


def norm(s):
    return " ".join(s.split())


def locate(src, path):
    """path: list of segments like 'impl EventGen for SvgElement', 'fn generate_events',
    'struct Position'. Returns the Item (positions relative to src.text). Several blocks with
    the same header (e.g. two `impl TransformerContext`) are all searched; the complete path must
    match exactly one item."""
    def cands_for(seg, lo, hi):
        seg = norm(seg)
        if seg.startswith("impl"):
            kind, rest = "impl", seg[4:].strip()
        else:
            kind, _, rest = seg.partition(" ")
        out = []
        for x in items_in(src, lo, hi):
            if x.kind != kind:
                continue
            if kind in ("impl",):
                if norm(x.header).replace(" ", "") == rest.replace(" ", ""):
                    out.append(x)
            elif kind == "trait":
                if x.name == rest or norm(x.header) == rest:
                    out.append(x)
            else:
                if x.name == rest:
                    out.append(x)
        return [c for c in out if not any("cfg(test)" in a for a in c.attrs)]

    def walk(i, lo, hi):
        res = []
        for c in cands_for(path[i], lo, hi):
            if i == len(path) - 1:
                res.append(c)
            elif c.body_open is not None:
                res += walk(i + 1, c.body_open + 1, c.end - 1)
        return res
    found = walk(0, 0, len(src.text))
    if len(found) != 1:
        raise LookupError("path %r matched %d items" % (" :: ".join(path), len(found)))
    return found[0]


class FnParts:
    """positions inside a function item text (relative to the item text)"""
    pass


def fn_parts(text):
    """Split a fn item: returns dict with sig_end (index right after params ')'), ret (start,end)
    or None, where_start or None, body_open (index of '{') or None (decl ending in ';')."""
    src = Src(text)
    mm = None
    for w, p in src.words(0, len(text)):
        if w == "fn":
            mm = p
            break
    if mm is None:
        raise ScanError("not a fn")
    i = mm + 2
    # name
    m2 = re.match(r"\s*([A-Za-z_][A-Za-z0-9_]*)", text[i:])
    name = m2.group(1)
    i += m2.end()
    # generics
    i = skip_ws_comments(src, i, len(text))
    if text[i] == "<":
        depth = 0
        while True:
            c = text[i]
            if src.mask[i]:
                if c == "<":
                    depth += 1
                elif c == ">" and text[i - 1] != "-":
                    depth -= 1
                    if depth == 0:
                        i += 1
                        break
            i += 1
        i = skip_ws_comments(src, i, len(text))
    if text[i] != "(":
        raise ScanError("expected ( in fn %s" % name)
    pclose = src.match_close(i)
    params = (i, pclose)
    j = skip_ws_comments(src, pclose + 1, len(text))
    ret = None
    where_start = None
    body_open = None
    k = j
    if text.startswith("->", j):
        k = j + 2
    # find body '{' or ';' or 'where'
    pos = k
    end_sig = None
    while pos < len(text):
        if src.mask[pos]:
            c = text[pos]
            if c == "{":
                body_open = pos
                end_sig = pos
                break
            if c == ";":
                end_sig = pos
                break
            if c in "([":
                pos = src.match_close(pos)
            elif re.match(r"where\b", text[pos:]) and not (text[pos - 1].isalnum() or text[pos - 1] == "_"):
                where_start = pos
                # continue to find the body
        pos += 1
    if end_sig is None:
        raise ScanError("no body or ; in fn %s" % name)
    ret_end = where_start if where_start is not None else end_sig
    if text.startswith("->", j):
        ret = (j, ret_end)
    return {"name": name, "params": params, "ret": ret, "where": where_start,
            "sig_end": end_sig, "body_open": body_open, "src": src}


def loops_in(src, start, end):
    """positions of loop keywords (while/loop/for) in code within [start,end), source order,
    each with the index of its body '{'."""
    out = []
    t = src.text
    for w, p in src.words(start, end):
        if w in ("while", "loop", "for"):
            if w == "for":
                # exclude `impl X for Y` / `for<'a>`: inside fn bodies a `for` loop is followed by a pattern and `in`
                q = skip_ws_comments(src, p + 3, end)
                if t[q] == "<":
                    continue
            # label like 'outer: precedes; fine
            b = src.next_code(p + len(w), "{", end)
            if b < 0:
                continue
            out.append((w, p, b))
    return out
