// R-f32: `f32` is modelled as an opaque number type whose value is a mathematical real.
// Assumption (listed in evidence): machine arithmetic treated as mathematical; no NaN, no
// infinities, no rounding, no signed zero.
pub mod r32m {
use vstd::prelude::*;
#[verifier::external_body]
pub struct R32 { v: f32 }
impl Clone for R32 {
    #[verifier::external_body]
    fn clone(&self) -> (r: Self) ensures r == *self { R32 { v: self.v } }
}
impl Copy for R32 {}
/// f32::default() is 0.0
impl Default for R32 {
    #[verifier::external_body]
    fn default() -> (r: Self) ensures val(r) == 0real { R32 { v: 0.0 } }
}

pub uninterp spec fn val(x: R32) -> real;
pub uninterp spec fn mk(x: real) -> R32;
pub broadcast axiom fn ax_mk(x: real) ensures #[trigger] val(mk(x)) == x;
pub broadcast axiom fn ax_mk_val(x: R32) ensures #[trigger] mk(val(x)) == x;
pub broadcast group r32_axioms { ax_mk, ax_mk_val }

#[verifier::external_body]
pub fn lit(g: Ghost<real>) -> (r: R32) ensures val(r) == g@ { unimplemented!() }

impl vstd::std_specs::ops::AddSpecImpl<R32> for R32 {
    open spec fn obeys_add_spec() -> bool { true }
    open spec fn add_req(self, rhs: R32) -> bool { true }
    open spec fn add_spec(self, rhs: R32) -> R32 { mk(val(self) + val(rhs)) }
}
impl std::ops::Add<R32> for R32 { type Output = R32; #[verifier::external_body] fn add(self, rhs: R32) -> R32 { R32 { v: self.v + rhs.v } } }
impl vstd::std_specs::ops::SubSpecImpl<R32> for R32 {
    open spec fn obeys_sub_spec() -> bool { true }
    open spec fn sub_req(self, rhs: R32) -> bool { true }
    open spec fn sub_spec(self, rhs: R32) -> R32 { mk(val(self) - val(rhs)) }
}
impl std::ops::Sub<R32> for R32 { type Output = R32; #[verifier::external_body] fn sub(self, rhs: R32) -> R32 { R32 { v: self.v - rhs.v } } }
impl vstd::std_specs::ops::MulSpecImpl<R32> for R32 {
    open spec fn obeys_mul_spec() -> bool { true }
    open spec fn mul_req(self, rhs: R32) -> bool { true }
    open spec fn mul_spec(self, rhs: R32) -> R32 { mk(val(self) * val(rhs)) }
}
impl std::ops::Mul<R32> for R32 { type Output = R32; #[verifier::external_body] fn mul(self, rhs: R32) -> R32 { R32 { v: self.v * rhs.v } } }
// division: total in f32 (x/0 = inf/NaN, no panic); modelled as an uninterpreted value when the divisor is 0
pub uninterp spec fn div0(x: real) -> real;
pub open spec fn rdiv(a: real, b: real) -> real { if b == 0real { div0(a) } else { a / b } }
impl vstd::std_specs::ops::DivSpecImpl<R32> for R32 {
    open spec fn obeys_div_spec() -> bool { true }
    open spec fn div_req(self, rhs: R32) -> bool { true }
    open spec fn div_spec(self, rhs: R32) -> R32 { mk(rdiv(val(self), val(rhs))) }
}
impl std::ops::Div<R32> for R32 { type Output = R32; #[verifier::external_body] fn div(self, rhs: R32) -> R32 { R32 { v: self.v / rhs.v } } }
// reference operand variants (f32 has them; the code uses `x * ratio` with `ratio: &f32`)
impl<'a> vstd::std_specs::ops::AddSpecImpl<&'a R32> for R32 {
    open spec fn obeys_add_spec() -> bool { true }
    open spec fn add_req(self, rhs: &'a R32) -> bool { true }
    open spec fn add_spec(self, rhs: &'a R32) -> R32 { mk(val(self) + val(*rhs)) }
}
impl<'a> std::ops::Add<&'a R32> for R32 { type Output = R32; #[verifier::external_body] fn add(self, rhs: &'a R32) -> R32 { unimplemented!() } }
impl<'a> vstd::std_specs::ops::AddSpecImpl<R32> for &'a R32 {
    open spec fn obeys_add_spec() -> bool { true }
    open spec fn add_req(self, rhs: R32) -> bool { true }
    open spec fn add_spec(self, rhs: R32) -> R32 { mk(val(*self) + val(rhs)) }
}
impl<'a> std::ops::Add<R32> for &'a R32 { type Output = R32; #[verifier::external_body] fn add(self, rhs: R32) -> R32 { unimplemented!() } }
impl<'a, 'b> vstd::std_specs::ops::AddSpecImpl<&'b R32> for &'a R32 {
    open spec fn obeys_add_spec() -> bool { true }
    open spec fn add_req(self, rhs: &'b R32) -> bool { true }
    open spec fn add_spec(self, rhs: &'b R32) -> R32 { mk(val(*self) + val(*rhs)) }
}
impl<'a, 'b> std::ops::Add<&'b R32> for &'a R32 { type Output = R32; #[verifier::external_body] fn add(self, rhs: &'b R32) -> R32 { unimplemented!() } }
impl<'a> vstd::std_specs::ops::SubSpecImpl<&'a R32> for R32 {
    open spec fn obeys_sub_spec() -> bool { true }
    open spec fn sub_req(self, rhs: &'a R32) -> bool { true }
    open spec fn sub_spec(self, rhs: &'a R32) -> R32 { mk(val(self) - val(*rhs)) }
}
impl<'a> std::ops::Sub<&'a R32> for R32 { type Output = R32; #[verifier::external_body] fn sub(self, rhs: &'a R32) -> R32 { unimplemented!() } }
impl<'a> vstd::std_specs::ops::SubSpecImpl<R32> for &'a R32 {
    open spec fn obeys_sub_spec() -> bool { true }
    open spec fn sub_req(self, rhs: R32) -> bool { true }
    open spec fn sub_spec(self, rhs: R32) -> R32 { mk(val(*self) - val(rhs)) }
}
impl<'a> std::ops::Sub<R32> for &'a R32 { type Output = R32; #[verifier::external_body] fn sub(self, rhs: R32) -> R32 { unimplemented!() } }
impl<'a, 'b> vstd::std_specs::ops::SubSpecImpl<&'b R32> for &'a R32 {
    open spec fn obeys_sub_spec() -> bool { true }
    open spec fn sub_req(self, rhs: &'b R32) -> bool { true }
    open spec fn sub_spec(self, rhs: &'b R32) -> R32 { mk(val(*self) - val(*rhs)) }
}
impl<'a, 'b> std::ops::Sub<&'b R32> for &'a R32 { type Output = R32; #[verifier::external_body] fn sub(self, rhs: &'b R32) -> R32 { unimplemented!() } }
impl<'a> vstd::std_specs::ops::MulSpecImpl<&'a R32> for R32 {
    open spec fn obeys_mul_spec() -> bool { true }
    open spec fn mul_req(self, rhs: &'a R32) -> bool { true }
    open spec fn mul_spec(self, rhs: &'a R32) -> R32 { mk(val(self) * val(*rhs)) }
}
impl<'a> std::ops::Mul<&'a R32> for R32 { type Output = R32; #[verifier::external_body] fn mul(self, rhs: &'a R32) -> R32 { unimplemented!() } }
impl<'a> vstd::std_specs::ops::MulSpecImpl<R32> for &'a R32 {
    open spec fn obeys_mul_spec() -> bool { true }
    open spec fn mul_req(self, rhs: R32) -> bool { true }
    open spec fn mul_spec(self, rhs: R32) -> R32 { mk(val(*self) * val(rhs)) }
}
impl<'a> std::ops::Mul<R32> for &'a R32 { type Output = R32; #[verifier::external_body] fn mul(self, rhs: R32) -> R32 { unimplemented!() } }
impl<'a, 'b> vstd::std_specs::ops::MulSpecImpl<&'b R32> for &'a R32 {
    open spec fn obeys_mul_spec() -> bool { true }
    open spec fn mul_req(self, rhs: &'b R32) -> bool { true }
    open spec fn mul_spec(self, rhs: &'b R32) -> R32 { mk(val(*self) * val(*rhs)) }
}
impl<'a, 'b> std::ops::Mul<&'b R32> for &'a R32 { type Output = R32; #[verifier::external_body] fn mul(self, rhs: &'b R32) -> R32 { unimplemented!() } }
impl<'a> vstd::std_specs::ops::DivSpecImpl<&'a R32> for R32 {
    open spec fn obeys_div_spec() -> bool { true }
    open spec fn div_req(self, rhs: &'a R32) -> bool { true }
    open spec fn div_spec(self, rhs: &'a R32) -> R32 { mk(rdiv(val(self), val(*rhs))) }
}
impl<'a> std::ops::Div<&'a R32> for R32 { type Output = R32; #[verifier::external_body] fn div(self, rhs: &'a R32) -> R32 { unimplemented!() } }
impl<'a> vstd::std_specs::ops::DivSpecImpl<R32> for &'a R32 {
    open spec fn obeys_div_spec() -> bool { true }
    open spec fn div_req(self, rhs: R32) -> bool { true }
    open spec fn div_spec(self, rhs: R32) -> R32 { mk(rdiv(val(*self), val(rhs))) }
}
impl<'a> std::ops::Div<R32> for &'a R32 { type Output = R32; #[verifier::external_body] fn div(self, rhs: R32) -> R32 { unimplemented!() } }
impl<'a, 'b> vstd::std_specs::ops::DivSpecImpl<&'b R32> for &'a R32 {
    open spec fn obeys_div_spec() -> bool { true }
    open spec fn div_req(self, rhs: &'b R32) -> bool { true }
    open spec fn div_spec(self, rhs: &'b R32) -> R32 { mk(rdiv(val(*self), val(*rhs))) }
}
impl<'a, 'b> std::ops::Div<&'b R32> for &'a R32 { type Output = R32; #[verifier::external_body] fn div(self, rhs: &'b R32) -> R32 { unimplemented!() } }
impl vstd::std_specs::ops::NegSpecImpl for R32 {
    open spec fn obeys_neg_spec() -> bool { true }
    open spec fn neg_req(self) -> bool { true }
    open spec fn neg_spec(self) -> R32 { mk(0real - val(self)) }
}
impl std::ops::Neg for R32 { type Output = R32; #[verifier::external_body] fn neg(self) -> R32 { R32 { v: -self.v } } }

impl vstd::std_specs::ops::AddAssignSpecImpl<R32> for R32 {
    open spec fn obeys_add_assign_spec() -> bool { true }
    open spec fn add_assign_req(&self, rhs: R32) -> bool { true }
    open spec fn add_assign_spec(&self, rhs: R32) -> &R32 { &mk(val(*self) + val(rhs)) }
}
impl std::ops::AddAssign<R32> for R32 { #[verifier::external_body] fn add_assign(&mut self, rhs: R32) { unimplemented!() } }
impl vstd::std_specs::ops::SubAssignSpecImpl<R32> for R32 {
    open spec fn obeys_sub_assign_spec() -> bool { true }
    open spec fn sub_assign_req(&self, rhs: R32) -> bool { true }
    open spec fn sub_assign_spec(&self, rhs: R32) -> &R32 { &mk(val(*self) - val(rhs)) }
}
impl std::ops::SubAssign<R32> for R32 { #[verifier::external_body] fn sub_assign(&mut self, rhs: R32) { unimplemented!() } }
impl vstd::std_specs::ops::MulAssignSpecImpl<R32> for R32 {
    open spec fn obeys_mul_assign_spec() -> bool { true }
    open spec fn mul_assign_req(&self, rhs: R32) -> bool { true }
    open spec fn mul_assign_spec(&self, rhs: R32) -> &R32 { &mk(val(*self) * val(rhs)) }
}
impl std::ops::MulAssign<R32> for R32 { #[verifier::external_body] fn mul_assign(&mut self, rhs: R32) { unimplemented!() } }
impl vstd::std_specs::ops::DivAssignSpecImpl<R32> for R32 {
    open spec fn obeys_div_assign_spec() -> bool { true }
    open spec fn div_assign_req(&self, rhs: R32) -> bool { true }
    open spec fn div_assign_spec(&self, rhs: R32) -> &R32 { &mk(rdiv(val(*self), val(rhs))) }
}
impl std::ops::DivAssign<R32> for R32 { #[verifier::external_body] fn div_assign(&mut self, rhs: R32) { unimplemented!() } }
impl vstd::std_specs::cmp::PartialEqSpecImpl for R32 {
    open spec fn obeys_eq_spec() -> bool { true }
    open spec fn eq_spec(&self, other: &R32) -> bool { val(*self) == val(*other) }
}
impl PartialEq for R32 { #[verifier::external_body] fn eq(&self, other: &R32) -> bool { self.v == other.v } }
impl vstd::std_specs::cmp::PartialOrdSpecImpl for R32 {
    open spec fn obeys_partial_cmp_spec() -> bool { true }
    open spec fn partial_cmp_spec(&self, other: &R32) -> Option<std::cmp::Ordering> {
        if val(*self) < val(*other) { Some(std::cmp::Ordering::Less) }
        else if val(*self) == val(*other) { Some(std::cmp::Ordering::Equal) }
        else { Some(std::cmp::Ordering::Greater) }
    }
}
impl PartialOrd for R32 { #[verifier::external_body] fn partial_cmp(&self, other: &R32) -> Option<std::cmp::Ordering> { self.v.partial_cmp(&other.v) } }

pub open spec fn rmin(a: real, b: real) -> real { if a <= b { a } else { b } }
pub open spec fn rmax(a: real, b: real) -> real { if a >= b { a } else { b } }
pub open spec fn rabs(a: real) -> real { if a >= 0real { a } else { 0real - a } }
pub uninterp spec fn rfloor(a: real) -> real;
pub uninterp spec fn rceil(a: real) -> real;
pub uninterp spec fn is_integral(a: real) -> bool;
pub uninterp spec fn rsqrt(a: real) -> real;
pub uninterp spec fn rsin(a: real) -> real;
pub uninterp spec fn rcos(a: real) -> real;
pub uninterp spec fn rtan(a: real) -> real;
pub uninterp spec fn rto_radians(a: real) -> real;
pub uninterp spec fn rto_degrees(a: real) -> real;

impl R32 {
    #[verifier::external_body]
    pub fn min(self, o: R32) -> (r: R32) ensures val(r) == rmin(val(self), val(o)), r == self || r == o { unimplemented!() }
    #[verifier::external_body]
    pub fn max(self, o: R32) -> (r: R32) ensures val(r) == rmax(val(self), val(o)), r == self || r == o { unimplemented!() }
    #[verifier::external_body]
    pub fn abs(self) -> (r: R32) ensures val(r) == rabs(val(self)) { unimplemented!() }
    #[verifier::external_body]
    pub fn floor(self) -> (r: R32)
        ensures val(r) == rfloor(val(self)), is_integral(val(r)), val(r) <= val(self), val(self) < val(r) + 1real,
    { unimplemented!() }
    #[verifier::external_body]
    pub fn ceil(self) -> (r: R32)
        ensures val(r) == rceil(val(self)), is_integral(val(r)), val(r) >= val(self), val(self) > val(r) - 1real,
    { unimplemented!() }
    // the real model has no NaN and no infinities (assumption R-f32; the Kani K-units cover them)
    #[verifier::external_body]
    pub fn is_nan(self) -> (r: bool) ensures !r { unimplemented!() }
    #[verifier::external_body]
    pub fn is_infinite(self) -> (r: bool) ensures !r { unimplemented!() }
    #[verifier::external_body]
    pub fn is_finite(self) -> (r: bool) ensures r { unimplemented!() }
    #[verifier::external_body]
    pub fn sin(self) -> (r: R32) ensures val(r) == rsin(val(self)) { unimplemented!() }
    #[verifier::external_body]
    pub fn cos(self) -> (r: R32) ensures val(r) == rcos(val(self)) { unimplemented!() }
    #[verifier::external_body]
    pub fn tan(self) -> (r: R32) ensures val(r) == rtan(val(self)) { unimplemented!() }
    #[verifier::external_body]
    pub fn to_radians(self) -> (r: R32) ensures val(r) == rto_radians(val(self)) { unimplemented!() }
    #[verifier::external_body]
    pub fn to_degrees(self) -> (r: R32) ensures val(r) == rto_degrees(val(self)) { unimplemented!() }
    #[verifier::external_body]
    pub fn sqrt(self) -> (r: R32)
        ensures val(r) == rsqrt(val(self)), val(self) >= 0real ==> (val(r) >= 0real && val(r) * val(r) == val(self)),
    { unimplemented!() }
}
} // mod r32m
pub use r32m::*;
// BROADCAST: r32m::r32_axioms
