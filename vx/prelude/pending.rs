// "not resolved yet" in terms of the attribute map (shared by U-bbox, U-ctxbbox, U-contain).
// From the property (C10): a reference must never be resolved against a partially evaluated or
// default-positioned element. An element is unresolved while it carries a shorthand / relative /
// containment attribute, or a position attribute that is not native to its kind (it is folded into
// the native ones only when the position is resolved - C11 - until then the native ones, defaulting
// to 0, do not locate the element).
pub open spec fn pending(m: Map<Seq<char>, Seq<char>>) -> bool {
    m.dom().contains("xy"@) || m.dom().contains("cxy"@) || m.dom().contains("xy1"@) || m.dom().contains("xy2"@) || m.dom().contains("xy-loc"@)
    || m.dom().contains("dxy"@) || m.dom().contains("wh"@) || m.dom().contains("dwh"@) || m.dom().contains("dw"@) || m.dom().contains("dh"@)
    || m.dom().contains("surround"@) || m.dom().contains("inside"@)
}
pub open spec fn foreign_pos(n: Seq<char>, m: Map<Seq<char>, Seq<char>>) -> bool {
    // every kind located by x / y (+ width / height): rect, the invisible box and point, a text (its anchor), use / reuse instances, ...
    if n == "rect"@ || n == "box"@ || n == "point"@ || n == "text"@ || n == "use"@ || n == "reuse"@ || n == "image"@ || n == "svg"@ || n == "foreignObject"@ {
        m.dom().contains("cx"@) || m.dom().contains("cy"@) || m.dom().contains("x1"@) || m.dom().contains("y1"@) || m.dom().contains("x2"@) || m.dom().contains("y2"@)
    } else if n == "circle"@ || n == "ellipse"@ {
        m.dom().contains("x"@) || m.dom().contains("y"@) || m.dom().contains("x1"@) || m.dom().contains("y1"@) || m.dom().contains("x2"@) || m.dom().contains("y2"@)
    } else if n == "line"@ {
        m.dom().contains("x"@) || m.dom().contains("y"@) || m.dom().contains("cx"@) || m.dom().contains("cy"@) || m.dom().contains("width"@) || m.dom().contains("height"@)
    } else if n == "polyline"@ || n == "polygon"@ || n == "path"@ {
        // drawn from points / d and MOVED by a translate computed from any position attribute: none of them is native
        m.dom().contains("x"@) || m.dom().contains("y"@) || m.dom().contains("cx"@) || m.dom().contains("cy"@)
        || m.dom().contains("x1"@) || m.dom().contains("y1"@) || m.dom().contains("x2"@) || m.dom().contains("y2"@)
    } else { false }
}
/// a dx / dy offset not yet folded into the position (native, and therefore final, on text / tspan / feOffset)
pub open spec fn offset_pending(n: Seq<char>, m: Map<Seq<char>, Seq<char>>) -> bool {
    !(n == "text"@ || n == "tspan"@ || n == "feOffset"@) && (m.dom().contains("dx"@) || m.dom().contains("dy"@))
}
/// a connector whose end points are not resolved yet (start / end are consumed when it is drawn)
pub open spec fn connector_pending(n: Seq<char>, m: Map<Seq<char>, Seq<char>>) -> bool {
    (n == "line"@ || n == "polyline"@) && m.dom().contains("start"@) && m.dom().contains("end"@)
}
pub open spec fn unresolved(n: Seq<char>, m: Map<Seq<char>, Seq<char>>) -> bool { pending(m) || foreign_pos(n, m) || offset_pending(n, m) || connector_pending(n, m) }
