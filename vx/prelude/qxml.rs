// Trusted interface model of the quick-xml 0.37 types svgdx touches (names mirror the crate).
// Taken from the crate's documentation/source: the reader hands out RAW (still escaped) payloads
// and does not validate UTF-8; BytesText::new escapes, from_escaped does not; BytesText::unescape
// decodes; Attribute::from((&[u8], &[u8])) stores the value raw, Attribute::from((&str, &str))
// escapes it; the writer emits payloads as stored. ASSUMED, not proved.
pub mod qx {
use vstd::prelude::*;
pub type Bytes = Seq<u8>;
pub uninterp spec fn is_utf8(b: Bytes) -> bool;
pub open spec fn str_bytes(s: Seq<char>) -> Bytes { vstd::utf8::encode_utf8(s) }   // UTF-8 encoding (vstd's, so str::as_bytes agrees)
pub uninterp spec fn xml_escape(s: Seq<char>) -> Bytes;             // escape < > & ' " then encode
pub uninterp spec fn xml_unescape(b: Bytes) -> Option<Seq<char>>;   // decode entities of a raw payload
pub uninterp spec fn attr_safe(b: Bytes) -> bool;                   // no raw < & " in an attribute value
pub uninterp spec fn comment_safe(b: Bytes) -> bool;                // no "--", no trailing "-"
pub uninterp spec fn cdata_safe(b: Bytes) -> bool;                  // no "]]>"
pub broadcast axiom fn ax_escape_roundtrip(s: Seq<char>)
    ensures #[trigger] xml_unescape(xml_escape(s)) == Some(s);
pub broadcast axiom fn ax_escape_safe(s: Seq<char>)
    ensures attr_safe(#[trigger] xml_escape(s)), is_utf8(xml_escape(s));
pub broadcast axiom fn ax_str_bytes_utf8(s: Seq<char>) ensures is_utf8(#[trigger] str_bytes(s));
pub broadcast group qxml_axioms { ax_escape_roundtrip, ax_escape_safe, ax_str_bytes_utf8 }


#[verifier::external_body] pub struct BytesText { _p: u8 }
#[verifier::external_body] pub struct BytesCData { _p: u8 }
#[verifier::external_body] pub struct BytesStart { _p: u8 }
#[verifier::external_body] pub struct BytesEnd { _p: u8 }
#[verifier::external_body] pub struct BytesDecl { _p: u8 }
#[verifier::external_body] pub struct QName { _p: u8 }
#[verifier::external_body] pub struct CowBytes { _p: u8 }
#[verifier::external_body] pub struct CowStr { _p: u8 }
#[verifier::external_body] pub struct Attribute { _p: u8 }
#[verifier::external_body] pub struct XmlError { _p: u8 }
pub enum Event { Start(BytesStart), End(BytesEnd), Empty(BytesStart), Text(BytesText), CData(BytesCData), Comment(BytesText), Decl(BytesDecl), PI(BytesText), DocType(BytesText), Eof }

impl BytesText {
    pub uninterp spec fn raw(&self) -> Bytes;
    #[verifier::external_body] pub fn new(content: &str) -> (r: BytesText) ensures r.raw() == xml_escape(content@) { unimplemented!() }
    #[verifier::external_body] pub fn from_escaped(content: String) -> (r: BytesText) ensures r.raw() == str_bytes(content@) { unimplemented!() }
    #[verifier::external_body] pub fn into_inner(self) -> (r: CowBytes) ensures r.b() == self.raw() { unimplemented!() }
    #[verifier::external_body] pub fn to_vec(&self) -> (r: Vec<u8>) ensures r@ == self.raw() { unimplemented!() }
    #[verifier::external_body] pub fn into_owned(self) -> (r: BytesText) ensures r == self { unimplemented!() }
    #[verifier::external_body]
    pub fn unescape(&self) -> (r: Result<CowStr, XmlError>)
        ensures (match xml_unescape(self.raw()) { Some(s) => r is Ok && r->Ok_0@ == s, None => r is Err }),
            !is_utf8(self.raw()) ==> r is Err,
    { unimplemented!() }
}
impl CowStr {
    pub uninterp spec fn view(&self) -> Seq<char>;
    #[verifier::external_body] pub fn into_owned(self) -> (r: String) ensures r@ == self@ { unimplemented!() }
}
impl BytesCData {
    pub uninterp spec fn raw(&self) -> Bytes;
    #[verifier::external_body] pub fn new(content: String) -> (r: BytesCData) ensures r.raw() == str_bytes(content@) { unimplemented!() }
    #[verifier::external_body] pub fn into_inner(self) -> (r: CowBytes) ensures r.b() == self.raw() { unimplemented!() }
    #[verifier::external_body] pub fn to_vec(&self) -> (r: Vec<u8>) ensures r@ == self.raw() { unimplemented!() }
}
impl CowBytes {
    pub uninterp spec fn b(&self) -> Bytes;
    #[verifier::external_body] pub fn to_vec(&self) -> (r: Vec<u8>) ensures r@ == self.b() { unimplemented!() }
}
impl BytesEnd {
    pub uninterp spec fn nm(&self) -> Bytes;
    #[verifier::external_body] pub fn new(name: String) -> (r: BytesEnd) ensures r.nm() == str_bytes(name@) { unimplemented!() }
    #[verifier::external_body] pub fn name(&self) -> (r: QName) ensures r.b() == self.nm() { unimplemented!() }
}
impl QName {
    pub uninterp spec fn b(&self) -> Bytes;
    #[verifier::external_body] pub fn into_inner(self) -> (r: CowBytes) ensures r.b() == self.b() { unimplemented!() }
}
impl Attribute {
    pub uninterp spec fn key_raw(&self) -> Bytes;
    pub uninterp spec fn value_raw(&self) -> Bytes;
    /// Attribute::from((&[u8], &[u8])): "the value is stored as is" - the caller must supply an escaped value
    #[verifier::external_body]
    pub fn from_bytes(kv: (&[u8], &[u8])) -> (r: Attribute) ensures r.key_raw() == kv.0@, r.value_raw() == kv.1@ { unimplemented!() }
    /// Attribute::from((&str, &str)): "the value will be escaped"
    #[verifier::external_body]
    pub fn from_strs(kv: (&str, &str)) -> (r: Attribute) ensures r.key_raw() == str_bytes(kv.0@), r.value_raw() == xml_escape(kv.1@) { unimplemented!() }
}
impl<'a> vstd::std_specs::convert::FromSpecImpl<(&'a [u8], &'a [u8])> for Attribute {
    open spec fn obeys_from_spec() -> bool { false }
    uninterp spec fn from_spec(v: (&'a [u8], &'a [u8])) -> Self;
}
impl<'a> From<(&'a [u8], &'a [u8])> for Attribute {
    /// "the value is stored as is": the caller must supply an escaped value
    #[verifier::external_body]
    fn from(kv: (&'a [u8], &'a [u8])) -> (r: Attribute) ensures r.key_raw() == kv.0@, r.value_raw() == kv.1@ { unimplemented!() }
}
impl<'a> vstd::std_specs::convert::FromSpecImpl<(&'a str, &'a str)> for Attribute {
    open spec fn obeys_from_spec() -> bool { false }
    uninterp spec fn from_spec(v: (&'a str, &'a str)) -> Self;
}
impl<'a> From<(&'a str, &'a str)> for Attribute {
    /// "the value will be escaped"
    #[verifier::external_body]
    fn from(kv: (&'a str, &'a str)) -> (r: Attribute) ensures r.key_raw() == str_bytes(kv.0@), r.value_raw() == xml_escape(kv.1@) { unimplemented!() }
}
pub uninterp spec fn xml_partial_escape(s: Seq<char>) -> Seq<char>;   // escapes only < > &
/// quick_xml::escape::{escape, partial_escape}
#[verifier::external_body]
pub fn escape(s: &str) -> (r: CowStr) ensures str_bytes(r@) == xml_escape(s@) { unimplemented!() }
#[verifier::external_body] pub struct EscapeError { _p: u8 }
/// quick_xml::escape::unescape: decode the entity references of a string
#[verifier::external_body]
pub fn unescape(s: &str) -> (r: core::result::Result<CowStr, EscapeError>)
    ensures (match xml_unescape(str_bytes(s@)) { Some(t) => r is Ok && r->Ok_0@ == t, None => r is Err })
{ unimplemented!() }
#[verifier::external_body]
pub fn partial_escape(s: &str) -> (r: CowStr) ensures r@ == xml_partial_escape(s@) { unimplemented!() }
pub uninterp spec fn str_replace(s: Seq<char>, from: Seq<char>, to: Seq<char>) -> Seq<char>;
impl CowStr {
    /// str::replace through Deref
    #[verifier::external_body] pub fn replace(&self, from: &str, to: &str) -> (r: String) ensures r@ == str_replace(self@, from@, to@) { unimplemented!() }
    #[verifier::external_body] pub fn as_bytes(&self) -> (r: &[u8]) ensures r@ == str_bytes(self@) { unimplemented!() }
    #[verifier::external_body] pub fn as_ref(&self) -> (r: &str) ensures r@ == self@ { unimplemented!() }
}
pub assume_specification [String::as_bytes] (s: &String) -> (r: &[u8]) ensures r@ == str_bytes(s@);
impl BytesStart {
    pub uninterp spec fn nm(&self) -> Bytes;
    pub uninterp spec fn attrs(&self) -> Seq<(Bytes, Bytes)>;    // (key, raw value) in order
    #[verifier::external_body]
    pub fn new(name: String) -> (r: BytesStart) ensures r.nm() == str_bytes(name@), r.attrs() == Seq::<(Bytes, Bytes)>::empty() { unimplemented!() }
    #[verifier::external_body]
    pub fn push_attribute(&mut self, a: Attribute)
        ensures final(self).nm() == old(self).nm(), final(self).attrs() == old(self).attrs().push((a.key_raw(), a.value_raw()))
    { unimplemented!() }
}
#[verifier::external_body]
pub fn string_from_utf8(v: Vec<u8>) -> (r: core::result::Result<String, Utf8Err>)
    ensures r is Ok <==> is_utf8(v@), r is Ok ==> str_bytes(r->Ok_0@) == v@
{ unimplemented!() }
#[verifier::external_body] pub struct Utf8Err { _p: u8 }
impl std::fmt::Debug for Utf8Err { #[verifier::external_body] fn fmt(&self, f: &mut std::fmt::Formatter<'_>) -> std::fmt::Result { unimplemented!() } }
#[verifier::external_body]
pub fn str_as_bytes<'a>(s: &'a str) -> (r: &'a [u8]) ensures r@ == str_bytes(s@) { unimplemented!() }
} // mod qx
pub use qx::*;
// BROADCAST: qx::qxml_axioms
