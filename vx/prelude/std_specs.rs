// Assumed specifications of std functions Verus does not know (trusted; listed in evidence).
pub assume_specification [char::is_ascii_whitespace] (_0: &char) -> bool;
pub assume_specification [char::is_ascii_digit] (_0: &char) -> bool;
pub uninterp spec fn contains_spec<P>(s: &str, p: P) -> bool;
pub uninterp spec fn contains_seq<P>(s: Seq<char>, p: P) -> bool;      // the same, as a function of the character sequence
#[verifier::allow(undeclared_external_trait)]
pub assume_specification<P: std::str::pattern::Pattern> [str::contains] (_0: &str, _1: P) -> (r: bool)
    ensures r == contains_spec(_0, _1), r == contains_seq(_0@, _1);
pub assume_specification<'a, T: Copy> [std::option::Option::<&T>::copied] (_0: std::option::Option<&'a T>) -> (r: std::option::Option<T>)
    ensures r == match _0 { Some(x) => Some(*x), None => None };
#[verifier::external_body]
pub fn havoc_string() -> String { unimplemented!() }
pub assume_specification<'a> [<String as PartialEq<&'a str>>::eq] (a: &String, b: &&str) -> (r: bool)
    ensures r == (a@ == b@);
pub assume_specification [<String as PartialEq<str>>::eq] (a: &String, b: &str) -> (r: bool)
    ensures r == (a@ == b@);
pub assume_specification [<str as PartialEq<str>>::eq] (a: &str, b: &str) -> (r: bool)
    ensures r == (a@ == b@);
/// R-strmatch helper: `Some("lit")` pattern on an Option<&str>
#[verifier::external_body]
pub fn opt_str_is(o: Option<&str>, s: &str) -> (r: bool) ensures r == (o is Some && o->Some_0@ == s@) { unimplemented!() }
/// R-asderef: Option<String>::as_deref()
#[verifier::external_body]
pub fn opt_as_str(o: &Option<String>) -> (r: Option<&str>) ensures (o is Some) == (r is Some), o is Some ==> r->Some_0@ == o->Some_0@ { unimplemented!() }
pub assume_specification<T, E> [core::result::Result::<T, E>::unwrap_or] (r: core::result::Result<T, E>, default: T) -> (o: T)
    ensures o == (match r { Ok(v) => v, Err(_) => default });
pub assume_specification<P: std::str::pattern::Pattern> [str::replace] (_0: &str, _1: P, _2: &str) -> String;
// str::trim family: the result is some (uninterpreted) substring, never longer than the argument
pub uninterp spec fn str_trim(s: Seq<char>) -> Seq<char>;
pub uninterp spec fn str_trim_start(s: Seq<char>) -> Seq<char>;
pub uninterp spec fn str_trim_end(s: Seq<char>) -> Seq<char>;
pub assume_specification [str::trim] (s: &str) -> (r: &str) ensures r@ == str_trim(s@), r@.len() <= s@.len();
pub assume_specification [str::trim_start] (s: &str) -> (r: &str) ensures r@ == str_trim_start(s@), r@.len() <= s@.len();
pub assume_specification [str::trim_end] (s: &str) -> (r: &str) ensures r@ == str_trim_end(s@), r@.len() <= s@.len();
pub assume_specification [String::with_capacity] (_0: usize) -> (r: String) ensures r@ == Seq::<char>::empty();
#[verifier::allow(undeclared_external_trait)]
pub assume_specification<P: std::str::pattern::Pattern> [str::ends_with] (_0: &str, _1: P) -> bool
    where for<'a> <P as std::str::pattern::Pattern>::Searcher<'a>: std::str::pattern::ReverseSearcher<'a>;
#[verifier::allow(undeclared_external_trait)]
pub assume_specification<P: std::str::pattern::Pattern> [str::starts_with] (_0: &str, _1: P) -> bool;
// bool::then_some
pub assume_specification<T> [bool::then_some] (b: bool, t: T) -> (r: Option<T>)
    ensures r == (if b { Some(t) } else { None::<T> });
