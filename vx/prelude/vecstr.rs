// std: element search in slices of strings. `[T]::contains(&x)` is "some element equals x";
// String equality is equality of the character sequences. ASSUMED (std documentation), not proved.
pub mod vs {
use vstd::prelude::*;
pub uninterp spec fn same<T>(a: T, b: T) -> bool;
pub broadcast axiom fn ax_same_string(a: String, b: String) ensures #[trigger] same(a, b) == (a@ == b@);
pub assume_specification<T: PartialEq> [<[T]>::contains] (s: &[T], x: &T) -> (r: bool)
    ensures r == exists|i: int| 0 <= i < s@.len() && same(#[trigger] s@[i], *x);
pub broadcast group vecstr_axioms { ax_same_string }
} // mod vs
pub use vs::*;
// BROADCAST: vs::vecstr_axioms
