// AttrMap (src/types.rs) as an opaque map from names to values. These contracts are what U-attrmap
// (units/attrmap.rs) PROVES on the real method bodies for every AttrMap built by new() and the
// mutators (names pairwise distinct is the data invariant; std's position / find / sort_by_key are
// the assumptions listed there). Here they are restated over an opaque type so that client units
// need not carry the invariant; the view forgets the attribute ORDER (reorder() only permutes).
pub trait AsStrView { spec fn sv(&self) -> Seq<char>; }
impl<'a> AsStrView for &'a str { open spec fn sv(&self) -> Seq<char> { self@ } }
impl AsStrView for String { open spec fn sv(&self) -> Seq<char> { self@ } }
impl<'a> AsStrView for &'a String { open spec fn sv(&self) -> Seq<char> { self@ } }
#[verifier::external_body] pub struct AttrMap { _p: u8 }
impl Clone for AttrMap { #[verifier::external_body] fn clone(&self) -> (r: Self) ensures r == *self { unimplemented!() } }
pub open spec fn opt_sv(o: Option<String>) -> Option<Seq<char>> { match o { Some(s) => Some(s@), None => None } }
pub open spec fn opt_ref_sv(o: Option<&String>) -> Option<Seq<char>> { match o { Some(s) => Some(s@), None => None } }
pub open spec fn map_get(m: Map<Seq<char>, Seq<char>>, k: Seq<char>) -> Option<Seq<char>> { if m.dom().contains(k) { Some(m[k]) } else { None } }
impl AttrMap {
    pub uninterp spec fn view(&self) -> Map<Seq<char>, Seq<char>>;
    #[verifier::external_body]
    pub fn new() -> (r: AttrMap) ensures r@ == Map::<Seq<char>, Seq<char>>::empty() { unimplemented!() }
    #[verifier::external_body]
    pub fn is_empty(&self) -> (r: bool) ensures r == (self@.dom() =~= Set::empty()) { unimplemented!() }
    #[verifier::external_body]
    pub fn insert<K: AsStrView, V: AsStrView>(&mut self, key: K, value: V) ensures final(self)@ == old(self)@.insert(key.sv(), value.sv()) { unimplemented!() }
    #[verifier::external_body]
    pub fn insert_first<K: AsStrView, V: AsStrView>(&mut self, key: K, value: V)
        ensures final(self)@ == (if old(self)@.dom().contains(key.sv()) { old(self)@ } else { old(self)@.insert(key.sv(), value.sv()) })
    { unimplemented!() }
    #[verifier::external_body]
    pub fn contains_key<K: AsStrView>(&self, key: K) -> (r: bool) ensures r == self@.dom().contains(key.sv()) { unimplemented!() }
    #[verifier::external_body]
    pub fn get<K: AsStrView>(&self, key: K) -> (r: Option<&String>) ensures opt_ref_sv(r) == map_get(self@, key.sv()) { unimplemented!() }
    #[verifier::external_body]
    pub fn pop<K: AsStrView>(&mut self, key: K) -> (r: Option<String>)
        ensures opt_sv(r) == map_get(old(self)@, key.sv()), final(self)@ == old(self)@.remove(key.sv())
    { unimplemented!() }
}
