// str::parse::<F>() is F::from_str; FromStr is declared to Verus as an external trait (assumed:
// the result is whatever the target type's from_str returns - unconstrained for std types)
#[verifier::external_trait_specification]
pub trait ExFromStr: Sized {
    type ExternalTraitSpecificationFor: core::str::FromStr;
    type Err;
    fn from_str(s: &str) -> core::result::Result<Self, Self::Err>;
}
pub assume_specification<F: core::str::FromStr> [str::parse] (_0: &str) -> core::result::Result<F, <F as core::str::FromStr>::Err>;
#[verifier::external_type_specification]
#[verifier::external_body]
pub struct ExParseIntError(core::num::ParseIntError);
#[verifier::external_type_specification]
#[verifier::external_body]
pub struct ExParseBoolError(core::str::ParseBoolError);
/// stands for core::num::ParseFloatError (f32 is modelled by R32)
#[verifier::external_body] pub struct PFErr { _p: u8 }
impl core::str::FromStr for R32 {
    type Err = PFErr;
    #[verifier::external_body]
    fn from_str(s: &str) -> core::result::Result<R32, PFErr> { unimplemented!() }
}
