// R-fmt: `format!` arguments are dropped; the result is an arbitrary String (havoc_string()).
#[allow(unused_macros)]
macro_rules! format { ($($t:tt)*) => { havoc_string() } }
