// proved (not assumed) sequence facts the solver does not find by itself
pub mod seqlemmas {
    use vstd::prelude::*;
    pub broadcast proof fn lemma_push_drop_last<T>(s: Seq<T>, x: T)
        ensures #[trigger] s.push(x).drop_last() == s
    { assert(s.push(x).drop_last() =~= s); }
    pub broadcast group seq_facts { lemma_push_drop_last }
}
// BROADCAST: seqlemmas::seq_facts
