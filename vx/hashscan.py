"""C06 frame check (syntactic, every run): every place in /repo/src where a HashMap/HashSet is
ITERATED must be one of the sites covered by a unit or by a stated order-insensitivity argument.
A new hash-ordered iteration makes the check UNDECIDED (exit 2) - never a violation by itself."""
import os
import re
import sys
sys.path.insert(0, os.path.dirname(os.path.abspath(__file__)))
import rsitems

# (file, enclosing fn, iterated expression) -> why it cannot influence the output order
COVERED = {
    ("src/themes.rs", "append_pattern_styles", "tb.classes"): "U-themeorder: proved to be sorted before use (C06.patterns.order_is_canonical)",
    ("src/themes.rs", "append_pattern_styles", "classes"): "the local Vec collected from tb.classes and sorted before the loop (U-themeorder proves the order canonical)",
    ("src/themes.rs", "has_class", "self.classes"): "any(): boolean, order-insensitive",
    ("src/themes.rs", "has_element", "self.elements"): "any(): boolean, order-insensitive",
    ("src/reuse.rs", "generate_events", "reuse_element.get_attrs()"): "writes distinct existing keys of the instance element (set_attr on key = attr); `transform` is a single key: iterations commute",
    ("src/transform.rs", "process_tags", "err_list"): "re-inserted into another HashMap: order-insensitive",
    ("src/errors.rs", "fmt", "errors"): "sorted_by index before formatting",
    ("src/element.rs", "get_attrs", "self.attrs.to_vec()"): "Vec -> HashMap collect (no hash iteration)",
}
# arguments that rest on the text around the iteration: the statement must still read like this (white space
# ignored), otherwise the argument no longer applies and the site counts as not covered (UNDECIDED, never an alarm)
PINNED = {
    ("src/errors.rs", "fmt", "errors"): r"errors\.iter\(\)\.sorted_by\(\|a,b\|a\.0\.cmp\(b\.0\)\)",   # sorted by the map's KEY (unique: a total order)
}
HASH_NAMES = [r"tb\.classes", r"self\.classes", r"self\.elements", r"\w+\.get_attrs\(\)", r"err_list", r"element_errors", r"errors",
              r"elem_map", r"original_map", r"\w*\.vars", r"orig_svg_attrs", r"element_set", r"class_set", r"var_scope"]


def enclosing_fn(src, pos):
    """name of the outermost fn item (top level or inside an impl/trait/mod block) containing pos"""
    def walk(lo, hi):
        for it in rsitems.items_in(src, lo, hi):
            if it.start <= pos < it.end:
                if it.kind == "fn":
                    return it.name
                if it.body_open is not None and it.kind in ("impl", "trait", "mod"):
                    return walk(it.body_open + 1, it.end - 1)
                return None
        return None
    try:
        return walk(0, len(src.text))
    except rsitems.ScanError:
        return None


def hash_names(repo, only_file=None):
    """names that denote hash containers, collected from the sources themselves: struct fields /
    let bindings / parameters whose declared type mentions HashMap or HashSet, bindings initialised
    from HashMap::new / HashSet::new / a collect into one, and functions returning one (their calls)"""
    names = set()
    for f in sorted(os.listdir(os.path.join(repo, "src"))):
        if not f.endswith(".rs"):
            continue
        text = open(os.path.join(repo, "src", f)).read()
        cut = text.find("#[cfg(test)]")
        text = text[:cut] if cut >= 0 else text
        # functions returning a hash container are visible everywhere; variables / fields only in their file
        local = (only_file is None or f == only_file)
        for mm in (re.finditer(r"\b(?:let\s+(?:mut\s+)?)?(\w+)\s*:\s*&?(?:mut\s+)?(?:std::collections::)?Hash(?:Map|Set)\s*<", text) if local else []):
            names.add(re.escape(mm.group(1)))
        for mm in (re.finditer(r"\blet\s+(?:mut\s+)?(\w+)\s*(?::[^=;]*)?=\s*(?:std::collections::)?Hash(?:Map|Set)\s*::", text) if local else []):
            names.add(re.escape(mm.group(1)))
        for mm in re.finditer(r"\bfn\s+(\w+)\s*(?:<[^>]*>)?\s*\([^)]*\)\s*->\s*(?:&\s*)?(?:std::collections::)?Hash(?:Map|Set)\s*<", text):
            names.add(r"[\w.]*\b%s\(\)" % re.escape(mm.group(1)))
    names.discard("self")
    return sorted(names)


def scan(repo="/repo"):
    found, unknown = [], []
    for f in sorted(os.listdir(os.path.join(repo, "src"))):
        if not f.endswith(".rs"):
            continue
        allnames = sorted(set(HASH_NAMES) | set(hash_names(repo, f)))
        rel = "src/" + f
        text = open(os.path.join(repo, rel)).read()
        src = rsitems.Src(text)
        # strip test modules
        cut = text.find("#[cfg(test)]")
        body_end = cut if cut >= 0 else len(text)
        names = "|".join(n.replace(r"\.", r"\s*\.\s*") for n in allnames)
        it = r"(?:iter|into_iter|keys|values|drain|iter_mut|into_keys|into_values)"
        pat = re.compile(r"(?:for\s+[^;{]*?\s+in\s+&?(?:mut\s+)?(%s)(?:\s*\.\s*clone\(\))?(?![\w.(])|(?<![\w.])(%s)(?:\s*\.\s*clone\(\))?\s*\.\s*%s\s*\()" % (names, names, it))
        for mm in pat.finditer(text, 0, body_end):
            if not src.mask[mm.start()]:
                continue
            expr = "".join((mm.group(1) or mm.group(2)).split())
            # ClassList/AttrMap fields are Vec-backed, not hash-backed: only themes.rs `classes`/`elements` are HashSets
            if expr in ("self.classes",) and rel != "src/themes.rs":
                continue
            if expr == "errors" and rel != "src/errors.rs":
                continue
            fn = enclosing_fn(src, mm.start())
            key = (rel, fn, expr)
            if key in PINNED and not re.match(PINNED[key], "".join(text[mm.start(2 if mm.group(2) else 1):mm.start() + 400].split())):
                unknown.append((rel, fn, expr + " (the statement no longer reads as the order-insensitivity argument assumes)"))
                continue
            (found if key in COVERED else unknown).append(key)
    # an error value holding a hash map (MultiError) rendered with Debug shows the map's hash order: `fn main() -> Result`
    # prints its error that way, and so does `{e:?}` / `{:?}` applied to a transform error in the front ends
    for rel in ("src/bin/svgdx.rs", "src/cli.rs"):
        path = os.path.join(repo, rel)
        if not os.path.exists(path):
            continue
        text = open(path).read()
        src = rsitems.Src(text)
        for mm in re.finditer(r"fn\s+main\s*\(\s*\)\s*->\s*Result|transform failed: \{e:\?\}", text):
            if src.mask[mm.start()] or "transform failed" in mm.group(0):
                unknown.append((rel, enclosing_fn(src, mm.start()) or "main", "Debug rendering of a transform error (MultiError holds a HashMap)"))
    return found, unknown


def clock_sites(repo="/repo"):
    """every mention of a wall-clock / entropy source outside the one covered site"""
    out = []
    for f in sorted(os.listdir(os.path.join(repo, "src"))):
        if not f.endswith(".rs"):
            continue
        rel = "src/" + f
        text = open(os.path.join(repo, rel)).read()
        src = rsitems.Src(text)
        for mm in re.finditer(r"SystemTime\s*::\s*now|Instant\s*::\s*now|thread_rng|from_entropy|OsRng|rand::rng\(", text):
            if not src.mask[mm.start()]:
                continue
            fn = enclosing_fn(src, mm.start())
            if (rel, fn) != ("src/context.rs", "set_config") and rel not in ("src/cli.rs", "src/server.rs"):
                out.append((rel, fn, mm.group(0)))
    return out


if __name__ == "__main__":
    f, u = scan()
    for k in f:
        print("covered", k)
    for k in u:
        print("UNKNOWN", k)
    print("clock sites outside set_config:", clock_sites())
